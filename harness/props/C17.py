"""C17 – losses vanish at identity, are non-negative and do not depend on call history.
Op-sequence differential testing of the gaze-contingent loss objects: for random sequences of (image, target, gaze, size) calls the
cache decisions (was the cached target quantity replaced?) are compared with the Lean keyed-cache model, and every value with a
fresh object.  Monitors: sign / zero / periodicity / monotonicity of every shipped loss."""
import logging
import math
import warnings
import numpy as np
import torch
from ..lib.core import f2b, b2f

logging.disable(logging.WARNING)
warnings.filterwarnings('ignore')

TRUSTED = ['steerable pyramid, pooling and metamer synthesis are uninterpreted functions of (target, gaze) in the model',
           'cache decisions are observed through attribute identity of target_stats / target_metamer / lod_map (no hooks)']
ASSUMPTIONS = ['images in [0, 1], 32x32 and 48x32, 2 pyramid levels (kept small so sequences of 6-8 calls run in seconds)']


def imgs(seed, shape):
    g = torch.Generator().manual_seed(seed)
    return torch.rand(shape, generator=g)


def run(ctx):
    import odak.learn.perception as P
    import odak.learn.tools as LT
    import odak.learn.wave as LW
    from odak.learn.perception.image_quality_losses import PSNR
    rng = ctx.rng
    ctx.rule = ('random call sequences (length 3-8) over 2-3 targets, 3 gaze points and 2 image sizes on one loss object per class '
                '(MetamericLoss, MetamerMSELoss, BlurLoss, MetamericLossUniform, RadiallyVaryingBlur); non-trivial = the sequence '
                'changes gaze or size while keeping the target; distinct by (class, key sequence)')
    gazes = [[0.5, 0.5], [0.2, 0.7], [0.9, 0.1]]
    shapes = [(1, 3, 32, 32), (1, 3, 48, 32)]
    targets = {(s, k): imgs(100 + 10 * si + k, s) for si, s in enumerate(shapes) for k in range(3)}

    def make(cls):
        if cls == 'MetamericLoss':
            return P.MetamericLoss(n_pyramid_levels=2, n_orientations=2)
        if cls == 'MetamericLoss/radial_weight':
            return P.MetamericLoss(n_pyramid_levels=2, n_orientations=2, use_radial_weight=True)
        if cls == 'MetamericLoss/fullres_l0':
            return P.MetamericLoss(n_pyramid_levels=2, n_orientations=2, use_fullres_l0=True, use_l2_foveal_loss=False)
        if cls == 'MetamericLoss/no_foveal_l2':
            return P.MetamericLoss(n_pyramid_levels=2, n_orientations=2, use_l2_foveal_loss=False, mode='linear')
        if cls == 'BlurLoss/no_source_blur':
            return P.BlurLoss(blur_source=False, mode='linear')
        if cls == 'MetamerMSELoss':
            return P.MetamerMSELoss(n_pyramid_levels=2, n_orientations=2)
        if cls == 'BlurLoss':
            return P.BlurLoss(blur_source=True)
        return P.MetamericLossUniform(n_pyramid_levels=2, n_orientations=2, pooling_size=8)

    def call(obj, cls, image, target, gaze):
        if cls == 'MetamericLossUniform':
            return float(obj(image, target))
        return float(obj(image, target, gaze=gaze))

    def cached(obj, cls):
        if cls.startswith('MetamericLoss'):
            return getattr(obj, 'target_stats', None)
        if cls == 'MetamerMSELoss':
            return getattr(obj, 'target_metamer', None)
        return None

    nseq = ctx.n(3, 20)
    for cls in ('MetamericLoss', 'MetamericLoss/radial_weight', 'MetamericLoss/fullres_l0', 'MetamericLoss/no_foveal_l2', 'MetamerMSELoss',
                'BlurLoss', 'BlurLoss/no_source_blur', 'MetamericLossUniform'):
        for it in range(nseq if '/' not in cls else max(2, nseq // 2)):
            L = rng.randint(3, ctx.n(6, 8))
            seq = []
            for _ in range(L):
                if seq and rng.random() < 0.55:
                    s, k, g = seq[-1]
                    c = rng.random()
                    if c < 0.45:
                        g = rng.randrange(3)
                    elif c < 0.6:
                        s = 1 - s
                    # else: identical repeat
                    seq.append((s, k, g))
                else:
                    seq.append((rng.randrange(2), rng.randrange(3), rng.randrange(3)))
            obj = make(cls)
            rec = {'class': cls, 'sequence': seq, 'seed': ctx.seed}
            gaze_or_size_change = any(a[1] == b[1] and (a[0] != b[0] or a[2] != b[2]) for a, b in zip(seq, seq[1:]))
            ctx.case((cls, tuple(seq)), gaze_or_size_change, rec if it == 0 else None)
            ctx.count('%s/%s' % (cls, 'gaze_or_size_change' if gaze_or_size_change else 'other'))
            ctx.traces += 1
            decisions, vals, failed = [], [], False
            prev_cache = None
            for (s, k, g) in seq:
                shape = shapes[s]
                tgt = targets[(shape, k)].clone()
                image = imgs(7 + k, shape)
                try:
                    v = call(obj, cls, image, tgt, gazes[g])
                except Exception as e:
                    ctx.violation('%s raised %r on call %d of sequence %s (size, target, gaze indices)' % (cls, e, len(vals), seq), rec,
                                  {'class': cls, 'what': 'raises_in_sequence'})
                    failed = True
                    break
                cur = cached(obj, cls)
                decisions.append(0 if (cur is prev_cache) else 1)
                prev_cache = cur
                vals.append(v)
                fresh = call(make(cls), cls, image, tgt, gazes[g])
                if not (math.isfinite(v) and abs(v - fresh) <= 1e-5 * max(1.0, abs(fresh))):
                    ctx.violation('%s: call %d of sequence %s returns %.8g, a fresh object returns %.8g' % (cls, len(vals) - 1, seq, v, fresh),
                                  dict(rec, call=len(vals) - 1), {'class': cls, 'what': 'history'})
                    failed = True
                    break
                if v < -1e-9:
                    ctx.violation('%s returned a negative value %g' % (cls, v), rec, {'class': cls, 'what': 'negative'})
            if failed or cls.startswith('BlurLoss'):
                continue
            # decision sequence vs the keyed-cache model (key = (size, target, gaze); uniform loss has no gaze)
            if ctx.drv_ok:
                keys = [(s * 100 + k * 10 + (g if cls != 'MetamericLossUniform' else 0)) for (s, k, g) in seq]
                mo = [int(t) for t in ctx.model.ask(['cache_seq ' + ' '.join(str(x) for x in keys)])[0].split()]
                if mo != decisions:
                    ctx.alarm('correspondence', '%s: cache refresh decisions %s differ from the keyed-cache model %s for sequence %s'
                              % (cls, decisions, mo, seq))
    # ---- RadiallyVaryingBlur: lod-map cache keyed on everything it depends on
    from odak.learn.perception.radially_varying_blur import RadiallyVaryingBlur
    for it in range(ctx.n(3, 15)):
        b = RadiallyVaryingBlur()
        seq = []
        for _ in range(rng.randint(3, 7)):
            seq.append((rng.randrange(2), rng.choice([0.1, 0.3]), rng.randrange(3), rng.choice(['quadratic', 'linear'])))
        ctx.case(('RadiallyVaryingBlur', tuple(seq)), True)
        ctx.traces += 1
        for (s, alpha, g, mode) in seq:
            x = imgs(5, shapes[s])
            out = b.blur(x, alpha, 0.2, 0.7, gazes[g], mode)
            fresh = RadiallyVaryingBlur().blur(x, alpha, 0.2, 0.7, gazes[g], mode)
            if not torch.allclose(out, fresh, atol=1e-6):
                ctx.violation('RadiallyVaryingBlur.blur depends on the call history for sequence %s' % (seq,), {'sequence': seq},
                              {'class': 'RadiallyVaryingBlur', 'what': 'history'})
                break
    # ---- zero at identity / non-negativity / finiteness
    for cls in ('MetamericLoss', 'MetamericLoss/radial_weight', 'MetamericLoss/fullres_l0', 'MetamerMSELoss', 'BlurLoss', 'MetamericLossUniform'):
        t = targets[(shapes[0], 0)]
        v = call(make(cls), cls, t.clone(), t.clone(), gazes[1])
        ctx.case(('identity', cls), True)
        if not (math.isfinite(v) and abs(v) <= 1e-7):
            ctx.violation('%s(image = target) = %.6g, not zero' % (cls, v), {'class': cls}, {'class': cls, 'what': 'zero_at_identity'})
    N = ctx.n(30, 300)
    psnr = PSNR()
    for _ in range(N):
        h, w = rng.choice([(8, 8), (5, 7), (16, 12)])
        a = torch.rand(1, 1, h, w, generator=torch.Generator().manual_seed(rng.randrange(10 ** 6)))
        b = torch.rand(1, 1, h, w, generator=torch.Generator().manual_seed(rng.randrange(10 ** 6)))
        ctx.case(('simple', h, w, float(a[0, 0, 0, 0])), True)
        checks = {
            'histogram_loss': (float(LT.histogram_loss(a, b, bins=8)), float(LT.histogram_loss(a, a, bins=8))),
            'wrapped_mean_squared_error': (float(LT.wrapped_mean_squared_error(a * 6, b * 6)), float(LT.wrapped_mean_squared_error(a * 6, a * 6))),
            'total_variation_loss': (float(LT.total_variation_loss(a)), float(LT.total_variation_loss(torch.full_like(a, 0.3)))),
            'multi_scale_total_variation_loss': (float(LT.multi_scale_total_variation_loss(a, levels=2)),
                                                 float(LT.multi_scale_total_variation_loss(torch.full_like(a, 0.3), levels=2))),
        }
        for name, (val, zero) in checks.items():
            if not (math.isfinite(val) and val >= 0):
                ctx.violation('%s is negative or not finite: %g' % (name, val), {'loss': name}, {'class': name, 'what': 'negative'})
            if abs(zero) > 1e-9:
                ctx.violation('%s is not zero at identity / on a uniform image: %g' % (name, zero), {'loss': name},
                              {'class': name, 'what': 'zero_at_identity'})
        k = rng.randint(-3, 3)
        w1 = float(LT.wrapped_mean_squared_error(a.double() * 6 + 2 * math.pi * k, b.double() * 6))
        w0 = float(LT.wrapped_mean_squared_error(a.double() * 6, b.double() * 6))
        if abs(w1 - w0) > 1e-9:
            ctx.violation('wrapped phase error is not 2pi-periodic: %g vs %g' % (w0, w1), {'k': k}, {'class': 'wrapped_mean_squared_error', 'what': 'periodic'})
        e1, e2 = rng.uniform(0.01, 0.1), rng.uniform(0.2, 0.5)
        p1, p2 = float(psnr(a + e1, a)), float(psnr(a + e2, a))
        if not p1 > p2:
            ctx.violation('PSNR does not grow as the error shrinks: %g (error %g) vs %g (error %g)' % (p1, e1, p2, e2), {}, {'class': 'PSNR', 'what': 'monotone'})
        # model correspondence for the simple formulas
        if ctx.drv_ok:
            fa, fb = a.double().reshape(-1).tolist(), b.double().reshape(-1).tolist()
            mo = ctx.model.ask(['wrapped_mse ' + ' '.join(str(f2b(x * 6)) for x in fa + fb),
                                'tv %d %d %s' % (h, w, ' '.join(str(f2b(x)) for x in fa)),
                                'mse ' + ' '.join(str(f2b(x)) for x in fa + fb)])
            got = [float(LT.wrapped_mean_squared_error(a.double() * 6, b.double() * 6)), float(LT.total_variation_loss(a.double())),
                   float(torch.nn.MSELoss()(a.double(), b.double()))]
            for nm, g_, m_ in zip(('wrapped_mean_squared_error', 'total_variation_loss', 'mse'), got, mo):
                if abs(g_ - b2f(m_)) > 1e-9 * max(1.0, abs(g_)):
                    ctx.alarm('correspondence', '%s: implementation %r vs model %r' % (nm, g_, b2f(m_)))
    # multiplane loss, phase gradient, speckle contrast
    for ch in (1, 3):
        img = torch.rand(ch, 12, 10, generator=torch.Generator().manual_seed(3))
        dep = torch.rand(12, 10, generator=torch.Generator().manual_seed(4))
        ml = LW.multiplane_loss(img, dep, number_of_planes=3, target_blur_size=5, scheme='defocus')
        tg = ml.get_targets()[0]
        ctx.case(('multiplane', ch), True)
        for pid in range(3):
            z = float(ml(tg[pid], tg[pid], plane_id=pid))
            nz = float(ml(torch.rand_like(tg[pid]), tg[pid], plane_id=pid))
            if abs(z) > 1e-9 or not (nz >= 0 and math.isfinite(nz)):
                ctx.violation('multiplane_loss: value at identity %g, random %g' % (z, nz), {'channels': ch, 'plane': pid},
                              {'class': 'multiplane_loss', 'what': 'zero_at_identity'})
    pg = LW.phase_gradient()
    sc = LW.speckle_contrast(kernel_size=3)
    for _ in range(ctx.n(5, 40)):
        ph = torch.rand(9, 9, generator=torch.Generator().manual_seed(rng.randrange(10 ** 6))) * 6.28
        inten = torch.rand(9, 9, generator=torch.Generator().manual_seed(rng.randrange(10 ** 6))) + 0.1
        ctx.case(('regularisers', float(ph[0, 0])), True)
        v1, v2 = float(pg(ph)), float(sc(inten))
        if not (math.isfinite(v1) and v1 >= 0):
            ctx.violation('phase_gradient is negative or not finite: %g' % v1, {}, {'class': 'phase_gradient', 'what': 'negative'})
        if not (math.isfinite(v2) and v2 >= 0):
            ctx.violation('speckle_contrast is negative or not finite: %g' % v2, {}, {'class': 'speckle_contrast', 'what': 'negative'})
    for val in (0.25, 0.5, 1.0, 3.0):
        u = float(sc(torch.full((9, 9), val)))
        ctx.case(('speckle_uniform', val), True)
        if not (math.isfinite(u) and abs(u) <= 1e-5):
            ctx.violation('speckle_contrast of a uniform image of value %g is %r (expected 0)' % (val, u), {'value': val},
                          {'class': 'speckle_contrast', 'what': 'uniform_zero', 'nan': bool(math.isnan(u))})

    __import__('harness.props.genlosses', fromlist=['x']).check_generated_losses(ctx)   # regenerated loss formulas vs /repo

def replay(ctx, rep):
    import odak.learn.perception as P
    r = rep['replay']
    if 'sequence' not in r or 'class' not in r:
        return True
    print('replay of', r['class'], r['sequence'], '- run ./check C17 for the full comparison')
    return True
