"""C02 – distances compose: 0 is the identity, -z undoes z, z1 then z2 = z1 + z2.
Correspondence: chained propagate_beam calls vs the model's `propagateSeq`; kernel products via get_propagation_kernel.
Monitors: the composition laws on the implementation itself (both APIs), with padding off and pad-then-crop."""
import math
import numpy as np
import torch
from . import wavelib as W

TRUSTED = ['numpy.fft / torch.fft compute the DFT of OdakModel/Fourier.lean (validated through the pipeline correspondence)',
           'zero_pad / crop_center enter through the C08 axis-map model (regenerated index expressions)',
           'kernels regenerated from the source and proved equal to the model kernels (see C01)']
ASSUMPTIONS = ['dx >= lambda/sqrt(2); Fourier-domain padding excluded as the property says; band-limited: compared on the common band']


def steps(rng):
    k = rng.choice([1, 2, 2, 3, 4, 5])
    zs = []
    for _ in range(k):
        c = rng.random()
        if c < 0.15:
            zs.append(0.0)
        elif c < 0.3 and zs:
            zs.append(-zs[-1])
        else:
            zs.append(rng.uniform(-8, 8))
    return zs


def run(ctx):
    rng = ctx.rng
    ctx.rule = ('random step lists (length 1-5, incl. z=0 and z,-z pairs) on every parity class of shapes, both APIs, AS and TF '
                '(and BL on the common band); non-trivial = at least two steps or a non-zero distance; distinct by (api, method, shape, steps)')
    # ---- correspondence of chained calls with the model (model applies the same steps one by one)
    cases = []
    for (n, m) in W.shapes(ctx, 8):
        for api in ('torch', 'numpy'):
            for meth in ('as', 'tf'):
                if ctx.quick and rng.random() < 0.4:
                    continue
                dx, lam, _, _ = W.rand_optics(rng)
                cases.append((api, meth, n, m, dx, lam, steps(rng), W.rand_field(rng, n, m, 'gauss')))
    # the model is driven step by step (each line = one step applied to the model's previous output)
    state = [c[7] for c in cases]
    maxlen = max(len(c[6]) for c in cases)
    model_final = [None] * len(cases)
    if ctx.drv_ok:
        for s in range(maxlen):
            idx = [i for i, c in enumerate(cases) if len(c[6]) > s]
            lines = [W.model_line(cases[i][0], cases[i][1], state[i], cases[i][4], cases[i][5], cases[i][6][s]) for i in idx]
            outs = ctx.model.ask(lines)
            for i, o in zip(idx, outs):
                state[i] = W.dec_field(o, cases[i][2], cases[i][3])
        model_final = state
    for c, mf in zip(cases, model_final):
        api, meth, n, m, dx, lam, zs, u = c
        rec = {'api': api, 'method': meth, 'n': n, 'm': m, 'dx': dx, 'lam': lam, 'steps': zs,
               'u': [[v.real, v.imag] for v in u.reshape(-1)]}
        cur = u
        for z in zs:
            cur = W.impl(api, meth, cur, dx, lam, z)
        ctx.case((api, meth, n, m, tuple(round(z, 6) for z in zs)), len(zs) > 1 or zs[0] != 0,
                 {k: v for k, v in rec.items() if k != 'u'})
        ctx.count('%s/%s/len%d/%s' % (api, meth, len(zs), 'odd' if (n % 2 or m % 2) else 'even'))
        scale = max(1.0, float(np.max(np.abs(u))))
        t = W.tol(api) * scale * len(zs)
        if mf is not None and not W.maxdiff(cur, mf) <= t:
            ctx.alarm('correspondence', 'chained %s %s %dx%d steps %s: model/implementation differ by %.3g'
                      % (api, meth, n, m, zs, W.maxdiff(cur, mf)))
        # monitor: the chain equals one propagation by the sum
        one = W.impl(api, meth, u, dx, lam, float(sum(zs)))
        d = W.maxdiff(cur, one)
        if not d <= (4e-3 if api == 'torch' else 1e-8) * scale * len(zs):
            ctx.violation('%s %s: steps %s differ from one step by their sum by %.3g (%dx%d)' % (api, meth, zs, d, n, m), rec,
                          {'api': api, 'method': meth, 'what': 'composition', 'odd': bool(n % 2 or m % 2)})

    # ---- identity at z = 0 and z / -z round trip, padding off and pad-then-crop
    for (n, m) in ([(5, 7), (6, 6), (7, 5), (8, 9), (1, 4), (3, 3)] if ctx.quick else W.shapes(ctx, 9)):
        for api in ('torch', 'numpy'):
            for meth in ('as', 'tf', 'bl'):
                dx, lam, z, zc = W.rand_optics(rng, 'near')
                u = W.rand_field(rng, n, m, 'gauss')
                scale = max(1.0, float(np.max(np.abs(u))))
                rec = {'api': api, 'method': meth, 'n': n, 'm': m, 'dx': dx, 'lam': lam, 'z': z,
                       'u': [[v.real, v.imag] for v in u.reshape(-1)]}
                r0 = W.impl(api, meth, u, dx, lam, 0.0)
                ctx.case(('zero', api, meth, n, m), True)
                if meth != 'bl':
                    if not W.maxdiff(r0, u) <= (1e-4 if api == 'torch' else 1e-10) * scale:
                        ctx.violation('%s %s at distance 0 is not the identity (%dx%d, diff %.3g)' % (api, meth, n, m, W.maxdiff(r0, u)),
                                      rec, {'api': api, 'method': meth, 'what': 'zero_identity', 'odd': bool(n % 2 or m % 2)})
                    back = W.impl(api, meth, W.impl(api, meth, u, dx, lam, z), dx, lam, -z)
                    if not W.maxdiff(back, u) <= (4e-3 if api == 'torch' else 1e-8) * scale:
                        ctx.violation('%s %s: -z does not undo z (%dx%d z=%g, diff %.3g)' % (api, meth, n, m, z, W.maxdiff(back, u)),
                                      rec, {'api': api, 'method': meth, 'what': 'inverse', 'odd': bool(n % 2 or m % 2)})
                else:
                    # band-limited: on the band both steps pass.  P_z then P_-z equals the band projection P_0-with-mask(z);
                    # compare z,-z against applying the z-mask at distance ~0 is not available through the API, so use
                    # idempotence in the field domain:  (P_-z P_z)(P_-z P_z) u = (P_-z P_z) u
                    if not W.bl_margin_ok(n, m, dx, lam, z, api):
                        continue
                    pr = lambda f: W.impl(api, meth, W.impl(api, meth, f, dx, lam, z), dx, lam, -z)
                    a = pr(u)
                    b = pr(a)
                    if not W.maxdiff(a, b) <= (4e-3 if api == 'torch' else 1e-8) * scale:
                        ctx.violation('%s band-limited: z then -z is not the projection onto the common band (%dx%d)' % (api, n, m),
                                      rec, {'api': api, 'method': meth, 'what': 'bl_common_band', 'odd': bool(n % 2 or m % 2)})
                if api == 'torch' and n >= 5 and m >= 5:
                    rp = W.impl(api, meth if meth != 'bl' else 'as', u, dx, lam, 0.0, zero_padding=(True, False, True))
                    ctx.case(('zero_padcrop', meth, n, m), True)
                    if rp.shape[-2:] != (n, m) or not W.maxdiff(rp.reshape(n, m), u) <= 1e-4 * scale:
                        ctx.violation('torch propagate_beam(z=0, pad-then-crop) does not return the field (%dx%d)' % (n, m), rec,
                                      {'api': api, 'method': meth, 'what': 'zero_padcrop', 'odd': bool(n % 2 or m % 2)})

    # ---- stacks of fields [k x m x n] (and [1 x k x m x n]): the composition laws hold field by field (the model's stack pipeline is
    # `customStackT = map custom`, theorem gen_customStackT_eq).  A stack the implementation rejects is not judged.
    for (kk, n, m, lead) in ((2, 6, 6, False), (3, 5, 7, False), (2, 8, 5, True), (3, 6, 6, False)):
        for meth in ('as', 'tf'):
            dx, lam, z, zc = W.rand_optics(rng, 'near')
            z2 = rng.uniform(-3, 3)
            us = np.stack([W.rand_field(rng, n, m, 'gauss') for _ in range(kk)])
            if lead:
                us = us[None]
            scale = max(1.0, float(np.max(np.abs(us))))
            rec = {'api': 'torch', 'method': meth, 'n': n, 'm': m, 'stack': kk, 'leading_one': lead, 'dx': dx, 'lam': lam, 'z': z, 'z2': z2}
            ctx.case(('stack', meth, kk, n, m, lead), True)
            ctx.count('stack/%s/k=%d' % (meth, kk))
            for pad in ((False, False, False), (True, False, True)):
                try:
                    r0 = W.impl('torch', meth, us, dx, lam, 0.0, zero_padding=pad)
                    back = W.impl('torch', meth, W.impl('torch', meth, us, dx, lam, z, zero_padding=pad), dx, lam, -z, zero_padding=pad)
                    two = W.impl('torch', meth, W.impl('torch', meth, us, dx, lam, z, zero_padding=pad), dx, lam, z2, zero_padding=pad)
                    one = W.impl('torch', meth, us, dx, lam, z + z2, zero_padding=pad)
                except Exception:
                    ctx.count('stack/rejected-by-implementation')
                    continue
                tag = 'pad-then-crop' if pad[0] else 'no padding'
                if r0.shape != us.shape or not W.maxdiff(r0, us) <= 1e-4 * scale:
                    ctx.violation('torch %s at distance 0 is not the identity on a stack of %d fields (%s, %dx%d, diff %.3g)'
                                  % (meth, kk, tag, n, m, W.maxdiff(r0, us)), rec, {'api': 'torch', 'method': meth, 'what': 'zero_identity', 'stack': True})
                elif not pad[0] and not W.maxdiff(back, us) <= 4e-3 * scale:
                    ctx.violation('torch %s: -z does not undo z on a stack of %d fields (%dx%d, diff %.3g)' % (meth, kk, n, m, W.maxdiff(back, us)),
                                  rec, {'api': 'torch', 'method': meth, 'what': 'inverse', 'stack': True})
                elif not pad[0] and not W.maxdiff(two, one) <= 8e-3 * scale:
                    ctx.violation('torch %s: z1 then z2 differs from z1 + z2 on a stack of %d fields (%dx%d, diff %.3g)' % (meth, kk, n, m, W.maxdiff(two, one)),
                                  rec, {'api': 'torch', 'method': meth, 'what': 'composition', 'stack': True})

    # ---- a PROGRAM of steps configured once: one `zero_padding` list object (and, second variant, the function's own default) is used by every step,
    # and the program also looks at the far field (Fraunhofer) and the other propagation types of the same setup in between.  Distance 0 stays the
    # identity and z, -z still compose afterwards.
    import odak.learn.wave as LWp
    for (n, m) in [(6, 6), (5, 8), (7, 5)]:          # sides >= 5: zero_pad reads a last axis shorter than 5 as channels
        for meth in ('Angular Spectrum', 'Transfer Function Fresnel', 'Bandlimited Angular Spectrum'):
            dx, lam, z, zc = W.rand_optics(rng, 'near')
            k = 2 * math.pi / lam
            u = torch.from_numpy(W.rand_field(rng, n, m, 'gauss'))
            scale = max(1.0, float(u.abs().max()))
            for variant in ('shared list', 'default argument'):
                cfg = [True, False, True]
                kw = {'zero_padding': cfg} if variant == 'shared list' else {}
                rec = {'api': 'torch', 'method': meth, 'n': n, 'm': m, 'dx': dx, 'lam': lam, 'z': z, 'program': variant}
                ctx.case(('program', meth, n, m, variant), True)
                ctx.count('program_with_one_configuration/' + variant)
                try:
                    before = LWp.propagate_beam(u, k, 0.0, dx, lam, propagation_type=meth, **kw)
                    for other in W.T_ALL:
                        if other != meth:
                            try:
                                LWp.propagate_beam(u, k, z, dx, lam, propagation_type=other, **kw)
                            except (Exception, SystemExit):
                                pass
                    after = LWp.propagate_beam(u, k, 0.0, dx, lam, propagation_type=meth, **kw)
                except Exception as e:
                    ctx.note('program with one configuration raised %r (%s)' % (e, rec))
                    continue
                if cfg != [True, False, True]:
                    ctx.violation('propagate_beam changed the caller\'s zero_padding list to %s during a program of steps' % (cfg,), rec,
                                  {'api': 'torch', 'method': meth, 'what': 'configuration_changed'})
                elif before.shape != u.shape or not W.maxdiff(before.numpy(), u.numpy()) <= 1e-4 * scale:
                    ctx.violation('torch %s at distance 0 with pad-then-crop (%s) is not the identity on a %dx%d field' % (meth, variant, n, m), rec,
                                  {'api': 'torch', 'method': meth, 'what': 'zero_identity', 'program': True})
                elif after.shape != u.shape or not W.maxdiff(after.numpy(), u.numpy()) <= 1e-4 * scale:
                    ctx.violation('torch %s at distance 0 with pad-then-crop (%s) is the identity at the start of a program but not after the program looked at the '
                                  'other propagation types of the same setup: shape %s -> %s, diff %.3g' % (meth, variant, tuple(u.shape), tuple(after.shape),
                                                                                                      W.maxdiff(after.numpy(), u.numpy())), rec,
                                  {'api': 'torch', 'method': meth, 'what': 'zero_identity_after_other_steps', 'program': True})
    W.argument_types(ctx, 'C02', methods=('as', 'tf', 'bl'))          # steps configured with tuples / NumPy scalars / 0-d tensors are the same steps
    # ---- kernel products through get_propagation_kernel
    import odak.learn.wave as LW
    for (n, m) in [(4, 5), (7, 7), (6, 3)]:
        for name in ('Angular Spectrum', 'Transfer Function Fresnel'):
            dx, lam, z1, _ = W.rand_optics(rng, 'near')
            z2 = rng.uniform(-3, 3)
            K = lambda z: LW.get_propagation_kernel(nu=n, nv=m, dx=dx, wavelength=lam, distance=z, propagation_type=name).numpy().reshape(n, m)
            ctx.case(('kernel_product', name, n, m), True)
            rec = {'method': name, 'n': n, 'm': m, 'dx': dx, 'lam': lam, 'z1': z1, 'z2': z2}
            if not np.allclose(K(z1) * K(z2), K(z1 + z2), atol=2e-3):
                ctx.violation('H(z1) H(z2) != H(z1+z2) for %s' % name, rec, {'api': 'torch', 'method': name, 'what': 'kernel_product'})
            if not np.allclose(K(0.0), 1.0, atol=1e-6):
                ctx.violation('H(0) != 1 for %s' % name, rec, {'api': 'torch', 'method': name, 'what': 'kernel_zero'})


def replay(ctx, rep):
    r = rep['replay']
    u = np.array([complex(a, b) for a, b in r['u']]).reshape(r['n'], r['m'])
    zs = r.get('steps', [r.get('z', 0.0), -r.get('z', 0.0)])
    cur = u
    for z in zs:
        cur = W.impl(r['api'], r['method'], cur, r['dx'], r['lam'], z)
    one = W.impl(r['api'], r['method'], u, r['dx'], r['lam'], float(sum(zs)))
    d = W.maxdiff(cur, one)
    print('steps', zs, 'difference to one step by the sum: %.3g' % d)
    return d <= 4e-3 * max(1.0, float(np.max(np.abs(u)))) * len(zs)
