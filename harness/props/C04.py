"""C04 – all propagation methods model the same physics and the same +z direction (PARTIAL: discretisation error is measured).
Every method of both APIs is compared with the closed-form paraxial Gaussian beam (oracle = the Lean definition `gaussBeam` run at
Float) inside the common validity window z ~ N dx^2 / lambda, and a positive-focal-length lens field is propagated to +f and -f."""
import logging
import math
import warnings
import numpy as np
import torch
from ..lib.core import f2b, b2f
from . import wavelib as W

logging.disable(logging.WARNING)
warnings.filterwarnings('ignore')

TRUSTED = ['the closed-form Gaussian beam (Lean `gaussBeam`, convention exp(+ikz)) is the physical reference',
           'discretisation error is not proved: tolerances (relative L2 <= 0.25, and at most half the distance to the conjugate field) were '
           'calibrated once on the unchanged tree; the frequency grids use linspace with both end points, an O(1/n) scale error']
ASSUMPTIONS = ['common validity window z ~ N dx^2 / lambda (transfer-function methods need z below it, impulse-response methods above it)']
METHODS = ['as', 'bl', 'tf', 'ir']


def oracle(ctx, n, dx, w0, lam, z):
    nu, nv = n if isinstance(n, (tuple, list)) else (n, n)
    x = (np.arange(nu) - nu // 2) * dx
    y = (np.arange(nv) - nv // 2) * dx
    X, Y = np.meshgrid(x, y, indexing='ij')
    r2 = X ** 2 + Y ** 2
    zR = math.pi * w0 ** 2 / lam
    w = w0 * math.sqrt(1 + (z / zR) ** 2)
    k = 2 * math.pi / lam
    ref = w0 / w * np.exp(-r2 / w ** 2) * np.exp(1j * (k * z + k * r2 * (z / (z * z + zR * zR)) / 2 - math.atan2(z, zR)))
    if ctx.drv_ok:      # the Python formula must agree with the Lean definition it stands for
        idx = [(nu // 2, nv // 2), (nu // 2 + 3, nv // 2 - 2), (5, 7)]
        mo = ctx.model.ask(['gauss %d %d %d %d' % (f2b(w0), f2b(lam), f2b(z), f2b(float(r2[i, j]))) for (i, j) in idx])
        for (i, j), o in zip(idx, mo):
            v = [b2f(t) for t in o.split()]
            if abs(complex(v[0], v[1]) - ref[i, j]) > 1e-9:
                ctx.alarm('correspondence', 'Gaussian-beam oracle: Python %r vs Lean gaussBeam %r' % (ref[i, j], complex(v[0], v[1])))
    return ref


def run(ctx):
    rng = ctx.rng
    ctx.rule = ('Gaussian beams (waists 4-6 px) and lens x aperture fields on square n in {64, 96} and non-square 64x96, 96x64, 80x64 grids, dx = 0.8, lambda = 0.5, z = +-(0.9..1.0) N dx^2/lambda, '
                'all four methods x both APIs; non-trivial = every case; distinct by (api, method, n, w0, z)')
    dx, lam = 0.8, 0.5
    fam = []
    for n in ((64,) if ctx.quick else (64, 96)):
        zc = n * dx * dx / lam
        for w0 in ((4.0, 6.0) if ctx.quick else (4.0, 5.0, 6.0)):
            for s in ((1.0, -1.0) if ctx.quick else (0.9, 1.0, -0.9, -1.0)):
                fam.append((n, w0, s * zc))
    # non-square grids (a kernel that exchanges its two axes is invisible on square ones); the window is set by the smaller side for the
    # transfer-function methods and by the larger side for the impulse-response methods
    for shape in (((64, 96),) if ctx.quick else ((64, 96), (96, 64), (80, 64))):
        for w0 in (4.0, 6.0):
            for s in (1.0, -1.0):
                fam.append((shape, w0, s))
    for (n, w0, z) in fam:
        if isinstance(n, tuple):
            for meths, side in ((('as', 'bl', 'tf'), min(n)), (('ir',), max(n))):
                one_family(ctx, n, w0, z * side * dx * dx / lam, dx, lam, meths)
        else:
            one_family(ctx, n, w0, z, dx, lam, METHODS)
    # the documented per-axis sample counts of the impulse-response kernel (aperture samples along x and y, pixel samples along x and y), unequal between
    # the axes, on square and non-square grids: the same beam
    for smp in ((4, 2, 1, 1), (2, 2, 1, 3), (1, 3, 2, 2), (3, 3, 1, 1), (1, 1, 1, 1)):
        zc64 = 64 * dx * dx / lam
        one_family(ctx, 64, 5.0, zc64, dx, lam, ('ir',), samples=smp)
        one_family(ctx, (64, 96), 5.0, 96 * dx * dx / lam, dx, lam, ('ir',), samples=smp)
    lens_family(ctx, dx, lam)
    stack_family(ctx, dx, lam)
    W.storage_independence(ctx, 'C04')
    W.argument_types(ctx, 'C04')


def one_family(ctx, n, w0, z, dx, lam, methods, samples=(2, 2, 2, 2)):
    if True:
        u0 = oracle(ctx, n, dx, w0, lam, 0.0)
        ref = oracle(ctx, n, dx, w0, lam, z)
        eref = np.sum(np.abs(ref) ** 2)
        for api in ('torch', 'numpy'):
            for meth in methods:
                rec = {'api': api, 'method': meth, 'n': n, 'w0': w0, 'z': z, 'dx': dx, 'lam': lam, 'samples': list(samples)}
                if tuple(samples) != (2, 2, 2, 2) and (api != 'torch' or meth != 'ir'):
                    continue          # the sample counts are an argument of the torch impulse-response method only
                ctx.case((api, meth, n, w0, round(z, 6), tuple(samples)), True, rec if len(ctx.samples) < 4 else None)
                ctx.count('%s/%s/%s' % (api, meth, 'pos' if z > 0 else 'neg'))
                try:
                    if (isinstance(n, int) and w0 == 6.0) or (isinstance(n, tuple) and w0 == 4.0):
                        # the same setup in a session that computed the other imaging models first (every other propagation type, same arguments)
                        ctx.count('after_the_other_models_of_the_same_setup/%s' % api, W.other_models_first(api, meth, u0, dx, lam, z))
                        rec['after_other_models'] = True
                    out = W.impl(api, meth, u0, dx, lam, z, samples=tuple(samples))
                except Exception as e:
                    ctx.violation('%s %s raised %r' % (api, meth, e), rec, {'api': api, 'method': meth, 'what': 'raises'})
                    continue
                # the property names amplitude, width and curvature sign, not the global phase exp(ikz) (the impulse-response
                # kernels omit it): compare modulo the phase of the on-axis sample
                cu, cv = (n[0] // 2, n[1] // 2) if isinstance(n, tuple) else (n // 2, n // 2)
                if out.shape != ref.shape:
                    ctx.violation('%s %s returns shape %r for a %r input' % (api, meth, out.shape, ref.shape), rec, {'api': api, 'method': meth, 'what': 'shape'})
                    continue
                g = lambda f: f * np.exp(-1j * np.angle(f[cu, cv]))
                l2 = math.sqrt(np.sum(np.abs(g(out) - g(ref)) ** 2) / eref)
                l2c = math.sqrt(np.sum(np.abs(g(out) - g(np.conj(ref))) ** 2) / eref)
                amp = math.sqrt(np.sum((np.abs(out) - np.abs(ref)) ** 2) / eref)
                dphi = float(np.angle(out[cu, cv + 3] * np.conj(out[cu, cv])))
                dphi_u = float(np.angle(out[cu + 3, cv] * np.conj(out[cu, cv])))
                rec.update(l2=l2, l2_conjugate=l2c, amplitude_error=amp, curvature_phase=dphi)
                if amp > 0.25:
                    ctx.violation('%s %s: amplitude/width of the Gaussian beam off by %.3g (relative L2, n=%s w0=%g z=%g)' % (api, meth, amp, n, w0, z),
                                  rec, {'api': api, 'method': meth, 'what': 'amplitude'})
                elif not (l2 <= 0.25 and l2 <= 0.5 * l2c) or (dphi > 0) != (z > 0) or (dphi_u > 0) != (z > 0):
                    ctx.violation('%s %s: wavefront curvature has the wrong sign: the output matches the beam propagated by %s (L2 to +z solution %.3g, '
                                  'to its conjugate %.3g)' % (api, meth, '-z' if l2c < l2 else 'neither +z nor -z', l2, l2c),
                                  rec, {'api': api, 'method': meth, 'what': 'direction'})


def stack_family(ctx, dx, lam):
    """fields passed as a stack [k x m x n] (zero_pad / crop_center / custom accept that layout and the model's batch is a map over the
    fields): every beam of the stack must come out as ITS OWN closed-form solution.  A stack the implementation rejects is not judged."""
    n = 64
    zc = n * dx * dx / lam
    for kk, waists in ((2, (4.0, 6.0)), (3, (6.0, 4.0, 5.0))):
        stack = np.stack([oracle(ctx, n, dx, w0, lam, 0.0) for w0 in waists])
        for meth in METHODS:
            for z in (zc, -zc):
                rec = {'api': 'torch', 'method': meth, 'n': n, 'stack': kk, 'waists': list(waists), 'z': z, 'dx': dx, 'lam': lam}
                ctx.case(('stack', meth, kk, z > 0), True)
                ctx.count('stack/%s/k=%d' % (meth, kk))
                try:
                    out = W.impl('torch', meth, stack, dx, lam, z, samples=(2, 2, 2, 2))
                except Exception:
                    ctx.count('stack/rejected-by-implementation')
                    continue
                if out.shape != stack.shape:
                    ctx.violation('torch %s returns shape %r for a stack %r' % (meth, out.shape, stack.shape), rec,
                                  {'api': 'torch', 'method': meth, 'what': 'shape'})
                    continue
                for i, w0 in enumerate(waists):
                    ref = oracle(ctx, n, dx, w0, lam, z)
                    amp = math.sqrt(np.sum((np.abs(out[i]) - np.abs(ref)) ** 2) / np.sum(np.abs(ref) ** 2))
                    single = W.impl('torch', meth, stack[i], dx, lam, z, samples=(2, 2, 2, 2))
                    dif = W.maxdiff(out[i], single)
                    if amp > 0.25 or dif > 1e-4 * max(1.0, float(np.max(np.abs(single)))):
                        ctx.violation('torch %s on a stack of %d fields: entry %d (waist %g) is not the propagated entry %d (amplitude/width off by %.3g '
                                      'relative L2 against its closed form, %.3g from the same field propagated alone)' % (meth, kk, i, w0, i, amp, dif),
                                      dict(rec, entry=i), {'api': 'torch', 'method': meth, 'what': 'stack'})
                        break


def lens_family(ctx, dx, lam):
    # ---------------- a positive-focal-length lens focuses at +f, not -f
    import odak.learn.wave as LW
    for n in ((64,) if ctx.quick else (64, 96)):
        f = n * dx * dx / lam
        k = 2 * math.pi / lam
        x = (np.arange(n) - n // 2) * dx
        X, Y = np.meshgrid(x, x, indexing='ij')
        r2 = X ** 2 + Y ** 2
        ap = (r2 <= (0.3 * n * dx) ** 2).astype(np.float64)
        lens = LW.quadratic_phase_function(n, n, k, focal=f, dx=dx).numpy().astype(np.complex128)
        # the library's lens phase is exp(-i k r^2 / 2f) up to its own grid convention: check the sign it uses
        sign_ok = np.angle(lens[n // 2, n // 2 + 4] * np.conj(lens[n // 2, n // 2])) < 0
        u = ap * lens
        for api in ('torch', 'numpy'):
            for meth in METHODS:
                rec = {'api': api, 'method': meth, 'n': n, 'focal': f}
                ctx.case(('lens', api, meth, n), True)
                p_plus = float(np.max(np.abs(W.impl(api, meth, u, dx, lam, f, samples=(2, 2, 2, 2))) ** 2))
                p_minus = float(np.max(np.abs(W.impl(api, meth, u, dx, lam, -f, samples=(2, 2, 2, 2))) ** 2))
                rec.update(peak_plus_f=p_plus, peak_minus_f=p_minus, lens_phase_negative=bool(sign_ok))
                if not p_plus > 3 * p_minus:
                    ctx.violation('%s %s: a lens of focal length +%g focuses at %s (peak intensity %.3g at +f, %.3g at -f)'
                                  % (api, meth, f, '-f' if p_minus > 3 * p_plus else 'neither plane', p_plus, p_minus), rec,
                                  {'api': api, 'method': meth, 'what': 'direction'})


def replay(ctx, rep):
    r = rep['replay']
    if 'w0' not in r:
        return True
    u0 = oracle(ctx, r['n'], r['dx'], r['w0'], r['lam'], 0.0)
    ref = oracle(ctx, r['n'], r['dx'], r['w0'], r['lam'], r['z'])
    if r.get('after_other_models'):
        W.other_models_first(r['api'], r['method'], u0, r['dx'], r['lam'], r['z'])
    out = W.impl(r['api'], r['method'], u0, r['dx'], r['lam'], r['z'], samples=tuple(r.get('samples', (2, 2, 2, 2))))
    e = np.sum(np.abs(ref) ** 2)
    n = r['n']
    cu, cv = (n[0] // 2, n[1] // 2) if isinstance(n, (tuple, list)) else (n // 2, n // 2)
    g = lambda f: f * np.exp(-1j * np.angle(f[cu, cv]))
    l2 = math.sqrt(np.sum(np.abs(g(out) - g(ref)) ** 2) / e)
    l2c = math.sqrt(np.sum(np.abs(g(out) - g(np.conj(ref))) ** 2) / e)
    print('relative L2 to the +z Gaussian beam %.3g, to its conjugate %.3g' % (l2, l2c))
    return l2 <= 0.25 and l2 <= 0.5 * l2c
