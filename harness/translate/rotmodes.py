"""Regenerates Generated/RotModes.lean: for every rotation function, the table
mode string -> order of the nested matrix products (outermost factor first)."""
import ast
import os
from .pyexpr import TranslateError, find_function

REPO = os.environ.get('ODAK_REPO', '/repo')
FILE = 'RotModes.lean'

SOURCES = [
    ('npRotatePoint', 'odak/tools/transformation.py', 'rotate_point', 'mode'),
    ('npRotatePoints', 'odak/tools/transformation.py', 'rotate_points', 'mode'),
    ('torchRotatePoints', 'odak/learn/tools/transformation.py', 'rotate_points', 'mode'),
    ('torchGetRotationMatrix', 'odak/learn/tools/transformation.py', 'get_rotation_matrix', 'tilt_order'),
]
AX = {'rotx': 'x', 'roty': 'y', 'rotz': 'z'}


def product_order(node):
    """np.dot(A, np.dot(B, ...)) / torch.mm(...) nest -> ['a','b',...] outermost first; the innermost non-matrix
    argument (the points) is dropped"""
    while isinstance(node, ast.Attribute):       # trailing .T
        node = node.value
    if isinstance(node, ast.Call) and ast.unparse(node.func) in ('np.dot', 'torch.mm', 'torch.matmul', 'np.matmul') \
            and len(node.args) == 2:
        a, b = node.args
        if isinstance(a, ast.Name) and a.id in AX:
            return [AX[a.id]] + product_order(b)
        raise TranslateError('left factor is not an axis matrix: ' + ast.unparse(node))
    if isinstance(node, ast.BinOp) and isinstance(node.op, ast.MatMult):
        a, b = node.left, node.right
        if isinstance(a, ast.Name) and a.id in AX:
            return [AX[a.id]] + product_order(b)
        raise TranslateError('left factor is not an axis matrix: ' + ast.unparse(node))
    if isinstance(node, ast.Name) and node.id in AX:
        return [AX[node.id]]
    return []


def axis_matrix_args(fn):
    """which angle index feeds rotx/roty/rotz:  rotx = rotmatx(angles[0]) -> {'x': ('x', 0)}"""
    out = {}
    for st in ast.walk(fn):
        if isinstance(st, ast.Assign) and isinstance(st.targets[0], ast.Name) and st.targets[0].id in AX \
                and isinstance(st.value, ast.Call):
            f = ast.unparse(st.value.func)
            arg = st.value.args[0]
            idx = None
            if isinstance(arg, ast.Subscript):
                sl = arg.slice
                if isinstance(sl, ast.Tuple):
                    sl = sl.elts[-1]
                if isinstance(sl, ast.Constant):
                    idx = sl.value
            out[AX[st.targets[0].id]] = (f[-1] if f.startswith('rotmat') else '?', idx)
    return out


def table(rel, name, var):
    with open(os.path.join(REPO, rel)) as f:
        fn = find_function(ast.parse(f.read()), name)
    rows = []
    for st in ast.walk(fn):
        if isinstance(st, ast.If) and isinstance(st.test, ast.Compare) and ast.unparse(st.test.left) == var \
                and isinstance(st.test.comparators[0], ast.Constant):
            mode = st.test.comparators[0].value
            for b in st.body:
                if isinstance(b, ast.Assign):
                    rows.append((mode, product_order(b.value)))
                    break
    if not rows:
        raise TranslateError('%s: no mode chain found' % name)
    return rows, axis_matrix_args(fn)


def entry(node):
    """one matrix entry -> Lean term over [Num α] with the angle (radians) named `a`"""
    src = ast.unparse(node)
    if isinstance(node, ast.UnaryOp) and isinstance(node.op, ast.USub):
        return '-(%s)' % entry(node.operand)
    if isinstance(node, ast.Constant) and node.value in (0, 1, 0.0, 1.0):
        return '0' if node.value == 0 else '1'
    if src == 'one':
        return '1'
    if src == 'zero':
        return '0'
    if src in ('math.cos(angle)', 'np.cos(angle)', 'torch.cos(angle)'):
        return 'Num.cos a'
    if src in ('math.sin(angle)', 'np.sin(angle)', 'torch.sin(angle)'):
        return 'Num.sin a'
    raise TranslateError('unsupported matrix entry ' + src)


def axis_matrix(rel, name):
    """the 3x3 literal returned by rotmatx / rotmaty / rotmatz as nine Lean terms (row major)"""
    with open(os.path.join(REPO, rel)) as f:
        fn = find_function(ast.parse(f.read()), name)
    deg = any(ast.unparse(n.func) in ('np.radians', 'torch.deg2rad', 'math.radians', 'np.deg2rad')
              for n in ast.walk(fn) if isinstance(n, ast.Call))
    if not deg:
        raise TranslateError('%s: degrees -> radians conversion not found' % name)
    best = None
    for n in ast.walk(fn):
        if isinstance(n, ast.Call) and ast.unparse(n.func) in ('np.array', 'torch.stack', 'torch.tensor') and n.args:
            rows = n.args[0]
            if isinstance(rows, (ast.List, ast.Tuple)) and len(rows.elts) == 3:
                ents = []
                for r in rows.elts:
                    if isinstance(r, ast.Call) and ast.unparse(r.func) == 'torch.stack':
                        r = r.args[0]
                    if not isinstance(r, (ast.List, ast.Tuple)) or len(r.elts) != 3:
                        break
                    ents += [entry(e) for e in r.elts]
                if len(ents) == 9:
                    best = ents
    if best is None:
        raise TranslateError('%s: 3x3 literal not found' % name)
    return best


def generate():
    out = ['/- GENERATED by harness/translate/rotmodes.py from the source under /repo – do not edit. -/',
           'import OdakModel.Vec3', 'namespace Odak.Gen', '', 'inductive Axis where | x | y | z', 'deriving DecidableEq, Repr', '']
    errors = []
    for api, rel in (('np', 'odak/tools/transformation.py'), ('torch', 'odak/learn/tools/transformation.py')):
        for ax in 'xyz':
            try:
                ents = axis_matrix(rel, 'rotmat' + ax)
            except (TranslateError, OSError, SyntaxError) as e:
                errors.append('%sRotmat%s: %s' % (api, ax, e))
                ents = ['0'] * 9
            out.append('/-- `rotmat%s` of the %s API as a function of the angle in radians (the code converts degrees first) -/' % (ax, api))
            out.append('def %sRotmat%s {α : Type} [Num α] (a : α) : Mat3 α := ⟨%s⟩' % (api, ax.upper(), ', '.join(ents)))
    out.append('')
    for lean, rel, name, var in SOURCES:
        try:
            rows, args = table(rel, name, var)
        except (TranslateError, OSError, SyntaxError, KeyError, AttributeError) as e:
            errors.append('%s: %s' % (lean, e))
            rows, args = [], {}
        body = ', '.join('("%s", [%s])' % (m, ', '.join('.' + a for a in o)) for m, o in rows)
        out.append('def %sModes : List (String × List Axis) := [%s]' % (lean, body))
        # which builder and which angle index each of rotx/roty/rotz uses: (builder axis, index)
        wiring = ', '.join('(.%s, .%s, %s)' % (k, v[0] if v[0] in 'xyz' else 'x', v[1] if isinstance(v[1], int) else 99)
                           for k, v in sorted(args.items()))
        out.append('def %sWiring : List (Axis × Axis × Nat) := [%s]' % (lean, wiring))
    out += ['', 'end Odak.Gen', '']
    return '\n'.join(out), errors


if __name__ == '__main__':
    t, e = generate()
    print(t, e)
