"""Symbolic per-element interpreter shared by harness/translate/samplers.py, quantisers.py and slicers.py (odak is never executed).

It runs the statements of a Python function over symbolic values and produces, for ONE element of the returned array (one lattice
point, one ray, one pixel), a Lean term over `[Num α]`.  Values (class V, field `kind`):

  'nat'   Python int that is a count / an index: a Lean `Nat` term (`no[0]`, `no[0] + 1`, `m * n`, a loop index)
  'neg'   the negative int `-term` (only as a roll shift and as the `-1` of expand / reshape)
  's'     real scalar, Lean term of type α                       'b'   boolean (`Bool` term; `prop` = the proposition it decides)
  'im'    purely imaginary `1j * term`                           'c'   complex, `term : Cx α` (or the pair `re`, `im`)
  'py'    Python constant decided at translation time (None, True, False, a string)      'o'  opaque (devices, dtypes, pixel sizes)
  'list'  Python list / tuple of values
  'arr'   n-dimensional array: `shape` = list of dims (a `Nat` term, or a Python int for a constant side such as the 3 of an
          [n x 3] point list) and `fn(idx) -> leaf value` giving the element at a multi-index (`Nat` terms / Python ints).
          A trailing constant side 3 may carry `vfn(idx[:-1]) -> Vec3 α term`, a [3 x 3] array may carry `mterm : Mat3 α`.

Array semantics implemented (each is the documented NumPy / torch meaning, element by element): `np.mgrid`, `np.arange`,
`linspace`, `meshgrid(indexing=)`, broadcasting of arithmetic, basic slicing `a:b` (offset + new side), integer indexing, stores
`x[:, :, k] = …`, `reshape` of leading sides (row-major: element `idx` of the flattened side is element `(idx / n1, idx % n1)`),
`unsqueeze`, `expand`, `repeat` along a new leading side, `np.roll` of a 1-D array (`rollIndex`), `stack(dim=1)` of three columns,
`matmul` with a [3 x 3] matrix, `.T`, `norm(dim=1)`, `amax` of an index array, `for v in range(n)` nests whose stores address the
element `[v, …]` (the loop variable becomes the index) and accumulations `x[j] = x[j] + e` (a left fold over the loop).
PIXEL sides are invisible: in the per-pixel translations every [H x W] tensor is a scalar and `squeeze` / `unsqueeze` / `detach` /
`clone` are the identity on it.

Every assigned variable the result depends on becomes a `let` (arrays become local functions of their indices).
Anything outside the grammar raises TranslateError: the error is returned and `generate_all` keeps the accepted file."""
import ast
import os
import re
from .pyexpr import TranslateError
from .constants import sci

REPO = os.environ.get('ODAK_REPO', '/repo')
LIBS = ('np', 'numpy', 'torch', 'math')
IDENT_METHODS = ('to', 'clone', 'detach', 'double', 'float', 'contiguous', 'cpu', 'copy')
RESERVED = {'at', 'from', 'in', 'fun', 'end', 'do', 'then', 'else', 'if', 'let', 'have', 'show', 'open', 'by', 'with', 'match',
            'where', 'local', 'def', 'to', 'for', 'return', 'mut', 'type', 'Type', 'deriving', 'instance', 'class', 'import', 'exit'}
ZERO, ONE = '(Num.ofNat 0)', '(Num.ofNat 1)'
IDENT = r"[A-Za-z_][A-Za-z0-9_.']*"


class Returned(Exception):
    def __init__(self, value):
        self.value = value


class V:
    def __init__(self, kind, term=None, **kw):
        self.kind, self.term = kind, term
        self.prop = kw.get('prop')          # 'b': the proposition
        self.re, self.im = kw.get('re'), kw.get('im')
        self.const = kw.get('const')        # 'py' constant / numeric literal value
        self.items = kw.get('items')        # 'list'
        self.shape, self.fn, self.vfn, self.mterm = kw.get('shape'), kw.get('fn'), kw.get('vfn'), kw.get('mterm')
        self.mono = kw.get('mono')          # index array `start + idx[k]`: (k, start)

    def __repr__(self):
        return 'V(%s, %r%s)' % (self.kind, self.term, ', shape=%r' % (self.shape,) if self.kind == 'arr' else '')


def safe(name):
    name = name.replace('self.', '').replace('.', '_')
    return name + '_' if name in RESERVED else name


def lit(x):
    """numeric literal -> Lean term of type α; integer-valued floats are written like ints (`2.` and `2` are the same real number
    and the same IEEE double)"""
    if isinstance(x, bool):
        raise TranslateError('boolean used as a number')
    if isinstance(x, float) and x == int(x) and abs(x) < 2 ** 53:
        x = int(x)
    return sci(x)


def balanced(t):
    d = 0
    for ch in t:
        if ch in '(⟨':
            d += 1
        elif ch in ')⟩':
            d -= 1
            if d < 0:
                return False
    return d == 0


def par(t):
    t = str(t)
    if re.fullmatch(IDENT, t) or t.isdigit() or re.fullmatch(r'⟪\w+⟫', t):
        return t
    if t[0] in '(⟨' and t[-1] in ')⟩' and balanced(t[1:-1]):
        return t
    return '(' + t + ')'


# --------------------------------------------------------------------------------------------------------------- Nat terms

def nat_bin(op, a, b):
    a, b = str(a), str(b)
    if a.isdigit() and b.isdigit():
        x, y = int(a), int(b)
        if op == '-' and x < y:
            raise TranslateError('negative integer %s - %s' % (a, b))
        if op in '/%' and y == 0:
            raise TranslateError('integer division by zero')
        return str({'+': x + y, '-': x - y, '*': x * y, '/': x // y if y else 0, '%': x % y if y else 0, '^': x ** y}[op])
    if op == '+' and a == '0':
        return b
    if op in '+-' and b == '0':
        return a
    if op == '*' and a == '1':
        return b
    if op == '*' and b == '1':
        return a
    if op == '/' and b == '1':
        return a
    if op == '-' and b.isdigit():       # (x + c) - c = x
        m = re.fullmatch(r'\((.*) \+ %s\)' % b, a)
        if m and balanced(m.group(1)):
            return m.group(1)
    return '(%s %s %s)' % (par(a), op, par(b))


def nat_prod(dims):
    out = str(dims[0])
    for d in dims[1:]:
        out = nat_bin('*', out, d)
    return out


def tidy(t):
    """`((x + c) - c)` -> `x` after a loop variable has been replaced by `index + c`"""
    prev = None
    while prev != t:
        prev = t
        t = re.sub(r'\(\((%s) \+ (\d+)\) - \2\)' % IDENT, r'\1', t)
    return t


# --------------------------------------------------------------------------------------------------------------- leaves

def as_real(v, what):
    if v.kind == 's':
        return v.term
    if v.kind == 'nat':
        return '(Num.ofNat %s)' % par(v.term)
    raise TranslateError('expected a real value in %s, got %s' % (what, v.kind))


def as_bool(v, what):
    if v.kind == 'b':
        return v.term
    raise TranslateError('expected a boolean in %s, got %s' % (what, v.kind))


def leaf_bin(op, a, b, src):
    ka, kb = a.kind, b.kind
    if ka == 'o' or kb == 'o':
        return V('o')
    if ka == 'nat' and kb == 'nat':
        if op in ('+', '-', '*'):
            return V('nat', nat_bin(op, a.term, b.term))
        if op == '//':
            return V('nat', nat_bin('/', a.term, b.term))
        if op == '%':
            return V('nat', nat_bin('%', a.term, b.term))
        if op == '**':
            return V('nat', nat_bin('^', a.term, b.term))
    if ka == 'neg' or kb == 'neg':
        raise TranslateError('arithmetic on a negative integer in ' + src)
    real = ('s', 'nat')
    if ka in real and kb in real:
        x, y = as_real(a, src), as_real(b, src)
        if op in ('+', '-', '*', '/'):
            return V('s', '(%s %s %s)' % (x, op, y))
        if op == '%':
            return V('s', '(Num.fmod %s %s)' % (par(x), par(y)))
        if op == '**':
            c = b.const
            if c == 2:
                return V('s', '(%s * %s)' % (x, x))
            if c == 0.5:
                return V('s', '(Num.sqrt %s)' % par(x))
        raise TranslateError('unsupported operator %s in %s' % (op, src))
    # complex numbers: only what `A*cos(x) + A*1j*sin(x)` needs
    if op == '*':
        if ka == 'im' and kb in real:
            y = as_real(b, src)
            return V('im', y if a.term is None else '(%s * %s)' % (a.term, y))
        if ka in real and kb == 'im':
            x = as_real(a, src)
            return V('im', x if b.term is None else '(%s * %s)' % (x, b.term))
    if op == '+' and ka in real and kb == 'im':
        return V('c', re=as_real(a, src), im=b.term if b.term is not None else ONE)
    raise TranslateError('unsupported operands (%s %s %s) in %s' % (ka, op, kb, src))


def leaf_cmp(op, a, b, src):
    if a.kind == 'o' or b.kind == 'o':
        return V('o')
    if a.kind == 'nat' and b.kind == 'nat':
        x, y = a.term, b.term
    else:
        x, y = as_real(a, src), as_real(b, src)
    p = {'<': '%s < %s' % (x, y), '>': '%s < %s' % (y, x), '<=': '%s ≤ %s' % (x, y), '>=': '%s ≤ %s' % (y, x),
         '==': ('%s = %s' % (x, y)) if a.kind == 'nat' and b.kind == 'nat' else '%s ≤ %s ∧ %s ≤ %s' % (x, y, y, x)}.get(op)
    if p is None:
        raise TranslateError('unsupported comparison in ' + src)
    return V('b', '(decide (%s))' % p, prop=p)


def leaf_fun(name, a, src):
    if a.kind == 'o':
        return a
    return V('s', '(Num.%s %s)' % (name, par(as_real(a, src))))


def cx_term(v, what):
    if v.kind == 'c':
        return v.term if v.term is not None else '(⟨%s, %s⟩ : Cx α)' % (v.re, v.im)
    raise TranslateError('expected a complex value in %s, got %s' % (what, v.kind))


# --------------------------------------------------------------------------------------------------------------- arrays

def arr(shape, fn, vfn=None, mterm=None, mono=None):
    return V('arr', shape=list(shape), fn=fn, vfn=vfn, mterm=mterm, mono=mono)


def is_var(d):
    return not isinstance(d, int)


def vec_of(a, idx):
    """Vec3 α term of the row `idx` of an array whose last side is the constant 3"""
    if a.vfn is not None:
        return a.vfn(list(idx))
    return '(⟨%s, %s, %s⟩ : Vec3 α)' % tuple(as_real(a.fn(list(idx) + [k]), 'a point') for k in range(3))


def const_arr(shape, leaf):
    return arr(shape, lambda idx: leaf)


def broadcast_shapes(sa, sb, src):
    n = max(len(sa), len(sb))
    pa, pb = [1] * (n - len(sa)) + list(sa), [1] * (n - len(sb)) + list(sb)
    out = []
    for x, y in zip(pa, pb):
        if x == 1:
            out.append(y)
        elif y == 1 or str(x) == str(y):
            out.append(x)
        else:
            raise TranslateError('shapes %s and %s do not broadcast in %s' % (sa, sb, src))
    return out


def bidx(shape, idx):
    """the index into an operand of shape `shape` for the index `idx` of the broadcast result"""
    sub = idx[len(idx) - len(shape):]
    return [0 if d == 1 else i for d, i in zip(shape, sub)]


def lift2(f, a, b, src):
    """apply a leaf function elementwise with broadcasting"""
    if a.kind != 'arr' and b.kind != 'arr':
        return f(a, b, src)
    if a.kind == 'list' or b.kind == 'list':
        raise TranslateError('arithmetic on a Python list in ' + src)
    sa = a.shape if a.kind == 'arr' else []
    sb = b.shape if b.kind == 'arr' else []
    shape = broadcast_shapes(sa, sb, src)
    fa = (lambda idx: a.fn(bidx(sa, idx))) if a.kind == 'arr' else (lambda idx: a)
    fb = (lambda idx: b.fn(bidx(sb, idx))) if b.kind == 'arr' else (lambda idx: b)
    return arr(shape, lambda idx: f(fa(idx), fb(idx), src))


def lift1(f, a, src):
    if a.kind == 'arr':
        return arr(a.shape, lambda idx: f(a.fn(idx), src))
    return f(a, src)


class Loop:
    def __init__(self, var, lo, hi):
        self.var, self.tok, self.lo, self.hi = var, '⟪%s⟫' % var, lo, hi


class Pending:
    def __init__(self, name, idx, val, loops, acc):
        self.name, self.idx, self.val, self.loops, self.acc = name, idx, val, loops, acc


class Module:
    """one parsed source file + resolution of bare function names through `from .x import y` / `import *`"""
    cache = {}

    def __init__(self, rel):
        self.rel = rel
        with open(os.path.join(REPO, rel)) as f:
            self.tree = ast.parse(f.read())

    @classmethod
    def get(cls, rel):
        if rel not in cls.cache:
            cls.cache[rel] = Module(rel)
        return cls.cache[rel]

    def defines(self, name):
        return any(isinstance(n, ast.FunctionDef) and n.name == name for n in self.tree.body)

    def function(self, name, cls=None):
        scope = self.tree.body
        if cls is not None:
            for n in self.tree.body:
                if isinstance(n, ast.ClassDef) and n.name == cls:
                    scope = n.body
                    break
            else:
                raise TranslateError('class %s not found in %s' % (cls, self.rel))
        for n in scope:
            if isinstance(n, ast.FunctionDef) and n.name == name:
                return n
        raise TranslateError('function %s not found in %s' % (name, self.rel))

    def resolve(self, name, seen=None):
        """(relative path, name) of the module-level function a bare `name(...)` refers to, or None"""
        seen = seen if seen is not None else set()
        if self.rel in seen:
            return None
        seen.add(self.rel)
        if self.defines(name):
            return (self.rel, name)
        for st in reversed(self.tree.body):
            if isinstance(st, ast.ImportFrom) and st.level >= 1:
                if not any(a.name in (name, '*') for a in st.names):
                    continue
                base = os.path.dirname(self.rel)
                for _ in range(st.level - 1):
                    base = os.path.dirname(base)
                mods = [st.module.replace('.', '/')] if st.module else ['']
                cands = []
                for m in mods:
                    cands += [os.path.join(base, m + '.py'), os.path.join(base, m, '__init__.py')]
                    if not st.module or any(a.name == name for a in st.names):      # `from . import x`, `from .pkg import sub`
                        cands += [os.path.join(base, m, name + '.py')]
                for c in cands:
                    c = os.path.normpath(c)
                    if os.path.isfile(os.path.join(REPO, c)):
                        try:
                            r = Module.get(c).resolve(name, seen)
                        except (OSError, SyntaxError):
                            r = None
                        if r is not None:
                            return r
        return None


# --------------------------------------------------------------------------------------------------------------- interpreter

class Interp:
    """`registry`: (relative path, python name) -> dict(lean, params=[(pyname, kind)], result) of definitions already generated;
    `rot`: 'np' or 'torch' (which `rotate_points` this file uses); `rand`: list that receives the names of the uniform-variate
    inputs, one per `torch.rand` call, in source order."""

    def __init__(self, module, env, registry=None, lenient_exprs=False):
        self.module, self.env, self.registry = module, dict(env), registry or {}
        self.lets = []
        self.counter = 0
        self.loops = []
        self.pending = []
        self.rand = []
        self.notes = []
        self.uses_np_rotate = False
        self.lenient_exprs = lenient_exprs

    # ------------------------------------------------------------------ naming / lets
    def fresh(self, base):
        self.counter += 1
        return '%s_%d' % (safe(base), self.counter)

    def emit(self, name, ty, term):
        self.lets.append((name, ty, term))

    @staticmethod
    def atomic(t):
        return re.fullmatch(IDENT, t) is not None or (t.startswith('(Num.ofNat ') and t.count('(') == 1) or t == 'Num.pi'

    def bind(self, base, v):
        """name an assigned value with a `let`; inside a loop body values stay inline (they mention the loop variables)"""
        if self.loops:
            return v
        if v.kind == 's':
            if self.atomic(v.term):
                return v
            n = self.fresh(base)
            self.emit(n, 'α', v.term)
            return V('s', n, const=v.const)
        if v.kind == 'b':
            n = self.fresh(base)
            self.emit(n, 'Bool', v.term)
            return V('b', n, prop='%s = true' % n)
        if v.kind == 'c':
            t = cx_term(v, base)
            if self.atomic(t):
                return v
            n = self.fresh(base)
            self.emit(n, 'Cx α', t)
            return V('c', n, re=n + '.re', im=n + '.im')
        if v.kind == 'list':
            return V('list', items=[self.bind('%s%d' % (base, i), x) for i, x in enumerate(v.items)])
        if v.kind == 'arr':
            return self.bind_arr(base, v)
        return v

    def bind_arr(self, base, a):
        nvar = 0
        while nvar < len(a.shape) and is_var(a.shape[nvar]):
            nvar += 1
        tail = a.shape[nvar:]
        names = ['i', 'j', 'k', 'l'][:nvar]
        if nvar > 4:
            return a
        sig = ''.join('Nat → ' for _ in names)
        lam = ('fun %s => ' % ' '.join(names)) if names else ''

        def app(n, idx):
            return '(%s %s)' % (n, ' '.join(par(i) for i in idx)) if idx else n
        if all(d == 1 for d in tail):
            leaf = a.fn(list(names) + [0] * len(tail))
            if leaf.kind not in ('s', 'nat', 'b'):
                return a
            if nvar == 0:
                return self.bind(base, leaf)
            ty = {'s': 'α', 'nat': 'Nat', 'b': 'Bool'}[leaf.kind]
            n = self.fresh(base)
            self.emit(n, sig + ty, lam + leaf.term)
            kind = leaf.kind
            return arr(a.shape, lambda idx: V(kind, app(n, idx[:nvar]), prop=('%s = true' % app(n, idx[:nvar])) if kind == 'b' else None),
                       mono=a.mono)
        if tail == [3]:
            t = vec_of(a, names)
            if nvar == 0 and self.atomic(t):
                return a
            n = self.fresh(base)
            self.emit(n, sig + 'Vec3 α', lam + t)
            return arr(a.shape, lambda idx: V('s', '%s.%s' % (app(n, idx[:-1]), 'xyz'[idx[-1]])),
                       vfn=lambda idx: app(n, idx))
        if tail == [3, 3] and nvar == 0:
            t = self.mat_of(a)
            if self.atomic(t):
                return a
            n = self.fresh(base)
            self.emit(n, 'Mat3 α', t)
            return self.mat_arr(n)
        return a

    @staticmethod
    def mat_arr(term):
        return arr([3, 3], lambda idx: V('s', '%s.a%d%d' % (par(term), idx[0], idx[1])), mterm=term)

    @staticmethod
    def mat_of(a):
        if a.mterm is not None:
            return a.mterm
        return '(⟨%s⟩ : Mat3 α)' % ', '.join(as_real(a.fn([r, c]), 'a matrix') for r in range(3) for c in range(3))

    # ------------------------------------------------------------------ expressions
    def name(self, n):
        if n in self.env:
            v = self.env[n]
            if v.kind == 'poison':
                raise TranslateError('%s is not available here (%s)' % (n, v.term))
            return v
        raise TranslateError('unknown name ' + n)

    def ev(self, node):
        src = ast.unparse(node)
        if isinstance(node, ast.Constant):
            c = node.value
            if isinstance(c, complex):
                if c.real != 0 or c.imag != 1:
                    raise TranslateError('unsupported complex literal ' + src)
                return V('im', None)
            if isinstance(c, bool) or c is None or isinstance(c, str):
                return V('py', const=c)
            if isinstance(c, int):
                return V('nat', str(c), const=c)
            if isinstance(c, float):
                return V('s', lit(c), const=c)
            raise TranslateError('unsupported constant ' + src)
        if isinstance(node, ast.Name):
            return self.name(node.id)
        if isinstance(node, ast.Attribute):
            if src in self.env:
                return self.name(src)
            if src in ('math.pi', 'torch.pi', 'np.pi', 'numpy.pi'):
                return V('s', 'Num.pi')
            if isinstance(node.value, ast.Name) and node.value.id in LIBS and node.value.id not in self.env:
                return V('o')                                    # torch.int, np.int32, …
            base = self.ev(node.value)
            if node.attr in ('device', 'dtype'):
                return V('o')
            if node.attr == 'shape':
                return V('list', items=[V('nat', str(d)) for d in base.shape] if base.kind == 'arr' else [], const='shape')
            if node.attr == 'T' and base.kind == 'arr' and base.shape == [3, 3]:
                if base.mterm is not None:
                    return self.mat_arr('(Mat3.transpose %s)' % par(base.mterm))
                return arr([3, 3], lambda idx: base.fn([idx[1], idx[0]]))
            raise TranslateError('unsupported attribute ' + src)
        if isinstance(node, (ast.Tuple, ast.List)):
            return V('list', items=[self.ev(e) for e in node.elts])
        if isinstance(node, ast.UnaryOp):
            a = self.ev(node.operand)
            if isinstance(node.op, ast.USub):
                return lift1(self.neg, a, src)
            if isinstance(node.op, ast.Not) and a.kind == 'py':
                return V('py', const=not a.const)
            raise TranslateError('unsupported unary operator in ' + src)
        if isinstance(node, ast.BinOp):
            return self.binop(node, src)
        if isinstance(node, ast.BoolOp):
            vals = [self.ev(x) for x in node.values]
            if all(v.kind == 'py' for v in vals):
                return V('py', const=all(v.const for v in vals) if isinstance(node.op, ast.And) else any(v.const for v in vals))
            raise TranslateError('unsupported boolean expression ' + src)
        if isinstance(node, ast.Compare):
            return self.compare(node, src)
        if isinstance(node, ast.Subscript):
            return self.subscript(node, src)
        if isinstance(node, ast.Call):
            return self.call(node, src)
        raise TranslateError('unsupported expression ' + src)

    @staticmethod
    def neg(a, src):
        if a.kind == 'nat':
            return V('neg', a.term, const=(-a.const if a.const is not None else None))
        if a.kind == 'neg':
            return V('nat', a.term)
        if a.kind == 's':
            return V('s', '(-%s)' % a.term, const=(-a.const if a.const is not None else None))
        raise TranslateError('unsupported negation in ' + src)

    def binop(self, node, src):
        a, b = self.ev(node.left), self.ev(node.right)
        op = {ast.Add: '+', ast.Sub: '-', ast.Mult: '*', ast.Div: '/', ast.Mod: '%', ast.Pow: '**', ast.FloorDiv: '//',
              ast.MatMult: '@', ast.BitAnd: '&'}.get(type(node.op))
        if op is None:
            raise TranslateError('unsupported operator in ' + src)
        if op == '@':
            return self.matmul(a, b, src)
        if op == '&':
            return lift2(lambda x, y, s: V('b', '(%s && %s)' % (as_bool(x, s), as_bool(y, s)),
                                           prop='%s ∧ %s' % (x.prop, y.prop) if x.prop and y.prop else None), a, b, src)
        return lift2(lambda x, y, s: leaf_bin(op, x, y, s), a, b, src)

    def compare(self, node, src):
        if len(node.ops) != 1:
            raise TranslateError('chained comparison ' + src)
        if re.fullmatch(r'type\(\w+\) (==|!=) type\(None\)', src):
            isnone = self.ev(node.left.args[0]).kind == 'py' and self.ev(node.left.args[0]).const is None
            return V('py', const=isnone if isinstance(node.ops[0], ast.Eq) else not isnone)
        l, r = self.ev(node.left), self.ev(node.comparators[0])
        if isinstance(node.ops[0], (ast.Is, ast.IsNot)) and r.kind == 'py' and r.const is None:
            isnone = l.kind == 'py' and l.const is None
            return V('py', const=isnone if isinstance(node.ops[0], ast.Is) else not isnone)
        op = {ast.Lt: '<', ast.Gt: '>', ast.LtE: '<=', ast.GtE: '>=', ast.Eq: '=='}.get(type(node.ops[0]))
        if op is None:
            raise TranslateError('unsupported comparison ' + src)
        if l.kind == 'nat' and r.kind == 'nat' and l.term.isdigit() and r.term.isdigit():       # e.g. len(x.shape) == 1
            x, y = int(l.term), int(r.term)
            return V('py', const={'<': x < y, '>': x > y, '<=': x <= y, '>=': x >= y, '==': x == y}[op])
        return lift2(lambda x, y, s: leaf_cmp(op, x, y, s), l, r, src)

    # ------------------------------------------------------------------ indexing
    def index_spec(self, sl, src):
        """list of ('all',) | ('int', k) | ('nat', term) | ('slice', lo, hi) | ('new',)"""
        out = []
        for e in (sl.elts if isinstance(sl, ast.Tuple) else [sl]):
            if isinstance(e, ast.Slice):
                if e.step is not None:
                    raise TranslateError('strided slice in ' + src)
                if e.lower is None and e.upper is None:
                    out.append(('all',))
                    continue
                if e.upper is None:
                    raise TranslateError('open slice in ' + src)
                lo = self.ev(e.lower) if e.lower is not None else V('nat', '0')
                hi = self.ev(e.upper)
                if lo.kind != 'nat' or hi.kind != 'nat':
                    raise TranslateError('slice bounds are not counts in ' + src)
                out.append(('slice', lo.term, hi.term))
                continue
            v = self.ev(e)
            if v.kind == 'py' and v.const is None:
                out.append(('new',))
            elif v.kind == 'nat' and v.term.isdigit():
                out.append(('int', int(v.term)))
            elif v.kind == 'nat':
                out.append(('nat', v.term))
            else:
                raise TranslateError('unsupported index in ' + src)
        return out

    def subscript(self, node, src):
        if ast.unparse(node.value) in ('np.mgrid', 'numpy.mgrid'):
            return self.mgrid(node, src)
        base = self.ev(node.value)
        if base.kind == 'o':
            return base
        spec = self.index_spec(node.slice, src)
        if base.kind == 'list':
            if len(spec) == 1 and spec[0][0] == 'int':
                k = spec[0][1]
                if k < len(base.items):
                    return base.items[k]
                if base.const == 'shape':
                    return V('o')                    # a pixel side
            raise TranslateError('unsupported index of a list in ' + src)
        if base.kind != 'arr':
            if base.kind in ('s', 'b') and all(s[0] in ('all', 'new') for s in spec):
                return base
            raise TranslateError('index of a %s in %s' % (base.kind, src))
        if isinstance(node.value, ast.Name) and any(p.name == node.value.id for p in self.pending) or \
                ast.unparse(node.value) in [p.name for p in self.pending]:
            raise TranslateError('%s is read inside the loop that fills it' % ast.unparse(node.value))
        return self.take(base, spec, src)

    def take(self, a, spec, src):
        if len([s for s in spec if s[0] != 'new']) > len(a.shape):
            raise TranslateError('too many indices in ' + src)
        spec = list(spec) + [('all',)] * (len(a.shape) - len([s for s in spec if s[0] != 'new']))
        shape, plan = [], []          # plan: per source dim, ('fix', term) | ('out', position, offset)
        d = 0
        for s in spec:
            if s[0] == 'new':
                shape.append(1)
                continue
            side = a.shape[d]
            if s[0] == 'all':
                plan.append(('out', len(shape), '0'))
                shape.append(side)
            elif s[0] == 'int':
                if not is_var(side) and s[1] >= side:
                    raise TranslateError('index out of range in ' + src)
                plan.append(('fix', s[1]))
            elif s[0] == 'nat':
                plan.append(('fix', s[1]))
            else:
                _, lo, hi = s
                if not is_var(side):
                    raise TranslateError('slice of a constant side in ' + src)
                plan.append(('out', len(shape), lo))
                shape.append(nat_bin('-', hi, lo))
            d += 1

        def src_idx(idx):
            out = []
            for p in plan:
                if p[0] == 'fix':
                    out.append(p[1])
                else:
                    i = idx[p[1]]
                    out.append(i if p[2] == '0' or isinstance(i, int) and p[2] == '0' else nat_bin('+', i, p[2]))
            return out
        keeps_last = bool(plan) and plan[-1] == ('out', len(shape) - 1, '0') and a.vfn is not None
        if not shape:
            return a.fn(src_idx([]))
        if plan and all(p[0] == 'fix' for p in plan[:-1]) and plan[-1][0] == 'out' and shape == [3] and a.vfn is not None:
            row = [p[1] for p in plan[:-1]]
            return arr([3], lambda idx: a.fn(row + [idx[0]]), vfn=lambda idx: a.vfn(row))
        return arr(shape, lambda idx: a.fn(src_idx(idx)),
                   vfn=(lambda idx: a.vfn(src_idx(idx + [0])[:-1])) if keeps_last else None)

    def mgrid(self, node, src):
        spec = self.index_spec(node.slice, src)
        if not spec or any(s[0] != 'slice' for s in spec):
            raise TranslateError('unsupported mgrid ' + src)
        shape = [nat_bin('-', hi, lo) for _, lo, hi in spec]
        outs = []
        for k, (_, lo, hi) in enumerate(spec):
            outs.append(arr(shape, (lambda k, lo: lambda idx: V('nat', nat_bin('+', lo, idx[k])))(k, lo), mono=(k, lo)))
        return V('list', items=outs)

    # ------------------------------------------------------------------ calls
    def kwargs(self, node, ignore=('device', 'dtype', 'requires_grad')):
        return {k.arg: k.value for k in node.keywords if k.arg not in ignore}

    def dims(self, vals, src):
        """shape from count arguments; opaque (pixel) sides are dropped"""
        out = []
        for v in vals:
            if v.kind == 'nat':
                out.append(int(v.term) if v.term.isdigit() else v.term)
            elif v.kind == 'o':
                continue
            else:
                raise TranslateError('array side is not a count in ' + src)
        return out

    def like(self, v, leaf):
        if v.kind == 'arr':
            return const_arr(v.shape, leaf)
        if v.kind in ('s', 'b', 'nat', 'c'):
            return leaf
        raise TranslateError('*_like of a ' + v.kind)

    def from_lists(self, v, src):
        """nested Python lists of scalars -> array of constant sides"""
        if v.kind != 'list':
            return v
        items = [self.from_lists(x, src) for x in v.items]
        if all(x.kind in ('s', 'nat') for x in items):
            n = len(items)
            return arr([n], lambda idx: items[idx[0]] if isinstance(idx[0], int) else self._bad('variable index into a literal list'))
        if all(x.kind == 'arr' for x in items) and len({tuple(map(str, x.shape)) for x in items}) == 1:
            sub = items[0].shape
            return arr([len(items)] + sub, lambda idx: items[idx[0]].fn(idx[1:]))
        raise TranslateError('unsupported tensor literal ' + src)

    @staticmethod
    def _bad(msg):
        raise TranslateError(msg)

    def call(self, node, src):
        f = ast.unparse(node.func)
        lib, _, short = f.rpartition('.')
        kws = self.kwargs(node)
        # ---- methods of values
        if isinstance(node.func, ast.Attribute) and not (isinstance(node.func.value, ast.Name) and node.func.value.id in LIBS
                                                          and node.func.value.id not in self.env):
            return self.method(node, src, kws)
        if lib in LIBS:
            return self.libcall(node, short, kws, src)
        if f == 'len' and len(node.args) == 1:
            v = self.ev(node.args[0])
            if v.kind == 'list':
                return V('nat', str(len(v.items)))
            if v.kind == 'arr':
                return V('nat', str(v.shape[0]))
            raise TranslateError('len of a %s in %s' % (v.kind, src))
        if f == 'float' and len(node.args) == 1:
            if isinstance(node.args[0], ast.Constant) and node.args[0].value == 'nan':
                return V('s', 'Num.nan')
            v = self.ev(node.args[0])
            return V('s', as_real(v, src))
        if f == 'int' and len(node.args) == 1:
            v = self.ev(node.args[0])
            return v if v.kind == 'nat' else V('s', '(Num.trunc %s)' % par(as_real(v, src)))
        if f == 'type' or f == 'isinstance':
            raise TranslateError('unsupported type test ' + src)
        if isinstance(node.func, ast.Name):
            target = self.module.resolve(f)
            if target is not None and target[1] == 'rotate_points':
                return self.rotate_call(node, target, src)
            if target is None or target not in self.registry:
                raise TranslateError('call of a function that is not translated: ' + src)
            return self.generated_call(node, self.registry[target], src)
        raise TranslateError('unsupported call ' + src)

    def generated_call(self, node, job, src):
        names = [p for p, _ in job['params']]
        given = {}
        for k, a in enumerate(node.args):
            if k >= len(names):
                raise TranslateError('too many arguments in ' + src)
            given[names[k]] = a
        for kw in node.keywords:
            if kw.arg not in names or kw.arg in given:
                raise TranslateError('unexpected argument %s in %s' % (kw.arg, src))
            given[kw.arg] = kw.value
        terms = []
        for pname, kind in job['params']:
            if pname not in given:
                raise TranslateError('argument %s is left to its default in %s' % (pname, src))
            v = self.ev(given[pname])
            if kind == 'nat':
                if v.kind != 'nat':
                    raise TranslateError('%s is not a count in %s' % (pname, src))
                terms.append(par(v.term))
            elif kind == 's':
                terms.append(par(as_real(v, src)))
            elif kind == 'c':
                terms.append(par(cx_term(v, src)))
            elif isinstance(kind, tuple) and kind[0] == 'slist':
                if v.kind != 'list' or len(v.items) != kind[1]:
                    raise TranslateError('%s is not a list of %d numbers in %s' % (pname, kind[1], src))
                terms += [par(as_real(x, src)) for x in v.items]
            else:
                raise TranslateError('unsupported parameter kind %r in %s' % (kind, src))
        t = '(%s %s)' % (job['lean'], ' '.join(terms))
        return V(job['result'], t, re=t + '.re', im=t + '.im') if job['result'] == 'c' else V(job['result'], t)

    def libcall(self, node, short, kws, src):
        args = node.args
        if short in ('tensor', 'as_tensor', 'asarray', 'array', 'copy', 'float64', 'float32'):
            return self.from_lists(self.ev(args[0]), src)
        if short in ('zeros', 'ones'):
            vals = self.ev(args[0]).items if len(args) == 1 and isinstance(args[0], (ast.Tuple, ast.List)) else [self.ev(a) for a in args]
            shape = self.dims(vals, src)
            leaf = V('s', ZERO if short == 'zeros' else ONE)
            return const_arr(shape, leaf) if shape else leaf
        if short in ('zeros_like', 'ones_like'):
            return self.like(self.ev(args[0]), V('s', ZERO if short == 'zeros_like' else ONE))
        if short == 'full_like' and len(args) == 2:
            return self.like(self.ev(args[0]), self.ev(args[1]))
        if short == 'arange':
            lo, hi = (V('nat', '0'), self.ev(args[0])) if len(args) == 1 else (self.ev(args[0]), self.ev(args[1]))
            if lo.kind != 'nat' or hi.kind != 'nat' or len(args) > 2 or kws:
                raise TranslateError('unsupported arange ' + src)
            return arr([nat_bin('-', hi.term, lo.term)], lambda idx: V('nat', nat_bin('+', lo.term, idx[0])), mono=(0, lo.term))
        if short == 'linspace':
            if any(k not in ('steps', 'num') for k in kws) or len(args) > 3:
                raise TranslateError('unsupported linspace arguments in ' + src)
            lo, hi = self.ev(args[0]), self.ev(args[1])
            cnt = self.ev(args[2] if len(args) > 2 else kws.get('steps', kws.get('num')))
            if cnt.kind != 'nat':
                raise TranslateError('linspace count is not a count in ' + src)
            a, b = par(as_real(lo, src)), par(as_real(hi, src))
            return arr([cnt.term], lambda idx: V('s', '(linspace %s %s %s %s)' % (a, b, par(cnt.term), par(idx[0]))))
        if short == 'meshgrid':
            if len(args) != 2 or any(k != 'indexing' for k in kws):
                raise TranslateError('unsupported meshgrid ' + src)
            a, b = self.ev(args[0]), self.ev(args[1])
            if a.kind != 'arr' or b.kind != 'arr' or len(a.shape) != 1 or len(b.shape) != 1:
                raise TranslateError('meshgrid of something that is not 1-D in ' + src)
            mode = 'xy' if ast.unparse(node.func).split('.')[0] in ('np', 'numpy') else 'ij'
            if 'indexing' in kws:
                iv = self.ev(kws['indexing'])
                if iv.kind != 'py' or iv.const not in ('ij', 'xy'):
                    raise TranslateError('unsupported indexing in ' + src)
                mode = iv.const
            if mode == 'ij':
                sh = [a.shape[0], b.shape[0]]
                return V('list', items=[arr(sh, lambda idx: a.fn([idx[0]])), arr(sh, lambda idx: b.fn([idx[1]]))])
            sh = [b.shape[0], a.shape[0]]
            return V('list', items=[arr(sh, lambda idx: a.fn([idx[1]])), arr(sh, lambda idx: b.fn([idx[0]]))])
        if short in ('amax', 'max') and len(args) == 1 and not kws:
            a = self.ev(args[0])
            if a.kind == 'arr' and a.mono is not None:
                k, lo = a.mono
                return V('nat', nat_bin('+', lo, nat_bin('-', a.shape[k], '1')))
            raise TranslateError('maximum of something that is not an index array in ' + src)
        fun1 = {'sin': 'sin', 'cos': 'cos', 'sqrt': 'sqrt', 'acos': 'acos', 'arccos': 'acos', 'abs': 'abs', 'absolute': 'abs',
                'floor': 'floor', 'exp': 'exp', 'log': 'log'}
        if short in fun1 and len(args) == 1 and not kws:
            return lift1(lambda x, s: leaf_fun(fun1[short], x, s), self.ev(args[0]), src)
        if short in ('round', 'round_', 'around'):
            dec = kws.get('decimals', args[1] if len(args) > 1 else None)
            if dec is not None and not (isinstance(dec, ast.Constant) and dec.value == 0):
                raise TranslateError('rounding to decimals other than 0 in ' + src)
            if set(kws) - {'decimals'}:
                raise TranslateError('unsupported rounding arguments in ' + src)
            return lift1(lambda x, s: leaf_fun('round', x, s), self.ev(args[0]), src)
        if short in ('deg2rad', 'radians') and len(args) == 1:
            return lift1(lambda x, s: V('s', '(Num.radians %s)' % par(as_real(x, s))), self.ev(args[0]), src)
        if short in ('mod', 'remainder', 'fmod') and len(args) == 2 and short != 'fmod':
            return lift2(lambda x, y, s: leaf_bin('%', x, y, s), self.ev(args[0]), self.ev(args[1]), src)
        if short in ('mul', 'multiply') and len(args) == 2:
            return lift2(lambda x, y, s: leaf_bin('*', x, y, s), self.ev(args[0]), self.ev(args[1]), src)
        if short == 'logical_and' and len(args) == 2:
            return lift2(lambda x, y, s: V('b', '(%s && %s)' % (as_bool(x, s), as_bool(y, s)),
                                           prop='%s ∧ %s' % (x.prop, y.prop) if x.prop and y.prop else None),
                         self.ev(args[0]), self.ev(args[1]), src)
        if short == 'where' and len(args) == 3:
            c, a, b = (self.ev(x) for x in args)

            def sel(cc, aa, bb, s):
                return V('s', '(Num.select %s %s %s)' % (as_bool(cc, s), par(as_real(aa, s)), par(as_real(bb, s))))
            tmp = lift2(lambda x, y, s: V('list', items=[x, y]), a, b, src)
            if tmp.kind == 'list':
                return lift1(lambda cc, s: sel(cc, a, b, s), c, src) if c.kind == 'arr' else sel(c, a, b, src)
            return lift2(lambda cc, ab, s: sel(cc, ab.items[0], ab.items[1], s), c, tmp, src)
        if short == 'rand' and len(args) == 1 and not kws:
            n = self.ev(args[0])
            if n.kind != 'nat':
                raise TranslateError('rand of something that is not a count in ' + src)
            name = 'rand%d' % len(self.rand)
            self.rand.append(name)
            return arr([n.term], lambda idx: V('s', '(%s %s)' % (name, par(idx[0]))))
        if short == 'stack' and len(args) == 1:
            v = self.ev(args[0])
            dim = self.ev(kws['dim']) if 'dim' in kws else V('nat', '0')
            if v.kind != 'list' or len(v.items) != 3 or not all(x.kind == 'arr' and len(x.shape) == 1 for x in v.items) \
                    or len({str(x.shape[0]) for x in v.items}) != 1 or not (dim.kind == 'nat' and dim.term == '1'):
                raise TranslateError('unsupported stack ' + src)
            cols = v.items
            return arr([cols[0].shape[0], 3], lambda idx: cols[idx[1]].fn([idx[0]]))
        if short in ('matmul', 'mm', 'dot') and len(args) == 2:
            return self.matmul(self.ev(args[0]), self.ev(args[1]), src)
        if short == 'norm' and lib_is_norm(node):
            a = self.ev(args[0])
            extra = {k: ast.unparse(v) for k, v in kws.items()}
            keep = extra.pop('keepdim', extra.pop('keepdims', 'False')) == 'True'
            dim = extra.pop('dim', extra.pop('axis', None))
            if extra not in ({}, {'p': '2'}) or a.kind != 'arr' or a.shape[-1] != 3 or dim not in ('1', '-1') or len(a.shape) != 2:
                raise TranslateError('unsupported norm ' + src)
            f1 = lambda idx: V('s', '(Vec3.norm %s)' % par(vec_of(a, [idx[0]])))
            return arr([a.shape[0], 1] if keep else [a.shape[0]], f1)
        if short == 'roll':
            a, sh = self.ev(args[0]), self.ev(args[1])
            if a.kind != 'arr' or len(a.shape) != 1 or sh.kind not in ('nat', 'neg') or \
                    {k: ast.unparse(v) for k, v in kws.items()} not in ({}, {'axis': '0'}) or len(args) > 2:
                raise TranslateError('unsupported roll ' + src)
            n = a.shape[0]
            shift = '(Int.ofNat %s)' % par(sh.term) if sh.kind == 'nat' else '(-(Int.ofNat %s))' % par(sh.term)
            return arr([n], lambda idx: a.fn(['(rollIndex %s %s %s)' % (par(n), shift, par(idx[0]))]))
        raise TranslateError('unsupported call ' + src)

    def matmul(self, a, b, src):
        if a.kind != 'arr' or b.kind != 'arr' or b.shape != [3, 3] or a.shape[-1] != 3:
            raise TranslateError('unsupported matrix product ' + src)
        if a.shape == [3, 3]:
            n = self.fresh('mm')
            self.emit(n, 'Mat3 α', '(%s * %s)' % (self.mat_of(a), self.mat_of(b)))
            return self.mat_arr(n)

        def f(idx):
            row = idx[:-1]
            ts = ['(%s * %s)' % (as_real(a.fn(row + [t]), src), as_real(b.fn([t, idx[-1]]), src)) for t in range(3)]
            return V('s', '((%s + %s) + %s)' % tuple(ts))
        return arr(a.shape, f)

    def method(self, node, src, kws):
        m = node.func.attr
        recv = self.ev(node.func.value)
        if recv.kind == 'o':
            return recv
        if m in IDENT_METHODS:
            return recv
        args = node.args
        if m == 'size' and len(args) == 1 and recv.kind == 'arr':
            k = self.ev(args[0])
            if k.kind == 'nat' and k.term.isdigit() and int(k.term) < len(recv.shape):
                return V('nat', str(recv.shape[int(k.term)]))
            raise TranslateError('unsupported size ' + src)
        if m in ('astype', 'int', 'long', 'to_int'):
            t = ast.unparse(args[0]) if args else 'int'
            if 'int' in t:
                return lift1(lambda x, s: x if x.kind == 'nat' else V('s', '(Num.trunc %s)' % par(as_real(x, s))), recv, src)
            if 'float' in t:
                return recv
            raise TranslateError('unsupported conversion ' + src)
        if m in ('squeeze', 'unsqueeze') and len(args) == 1:
            k = self.ev(args[0])
            if recv.kind != 'arr':
                return recv                              # a pixel tensor
            if k.kind != 'nat' or not k.term.isdigit():
                raise TranslateError('unsupported ' + src)
            k = int(k.term)
            if m == 'unsqueeze':
                if k > len(recv.shape):
                    raise TranslateError('unsupported ' + src)
                sh = recv.shape[:k] + [1] + recv.shape[k:]
                return arr(sh, lambda idx: recv.fn(idx[:k] + idx[k + 1:]),
                           vfn=(lambda idx: recv.vfn(idx[:k] + idx[k + 1:])) if recv.vfn is not None and k < len(recv.shape) else None)
            raise TranslateError('squeeze of an array whose sides are tracked: ' + src)
        if m == 'expand' and recv.kind == 'arr':
            sizes = [self.ev(a) for a in args]
            if len(sizes) != len(recv.shape):
                raise TranslateError('unsupported expand ' + src)
            sh, exp = [], []
            for d, s in zip(recv.shape, sizes):
                if s.kind == 'neg' and s.term == '1':
                    sh.append(d); exp.append(False)
                elif s.kind == 'nat' and d == 1:
                    sh.append(int(s.term) if s.term.isdigit() else s.term); exp.append(True)
                else:
                    raise TranslateError('unsupported expand ' + src)
            pick = lambda idx: [0 if e else i for e, i in zip(exp, idx)]
            return arr(sh, lambda idx: recv.fn(pick(idx)),
                       vfn=(lambda idx: recv.vfn(pick(idx + [0])[:-1])) if recv.vfn is not None and not exp[-1] else None)
        if m == 'reshape' and recv.kind == 'arr':
            vals = self.ev(args[0]).items if len(args) == 1 and isinstance(args[0], (ast.Tuple, ast.List)) else [self.ev(a) for a in args]
            return self.reshape(recv, vals, src)
        if m == 'repeat' and recv.kind == 'arr' and len(args) == 2:
            n, one = self.ev(args[0]), self.ev(args[1])
            if n.kind != 'nat' or not (one.kind == 'nat' and one.term == '1') or recv.shape[-1] != 3 or len(recv.shape) > 2:
                raise TranslateError('unsupported repeat ' + src)
            if len(recv.shape) == 1:
                return arr([n.term, 3], lambda idx: recv.fn([idx[1]]), vfn=(lambda idx: recv.vfn([])) if recv.vfn is not None else None)
            rows = recv.shape[0]
            row = lambda i: nat_bin('%', i, rows)
            return arr([nat_bin('*', n.term, rows), 3], lambda idx: recv.fn([row(idx[0]), idx[1]]),
                       vfn=(lambda idx: recv.vfn([row(idx[0])])) if recv.vfn is not None else None)
        raise TranslateError('unsupported method ' + src)

    def reshape(self, a, vals, src):
        new = []
        for v in vals:
            if v.kind == 'neg' and v.term == '1':
                new.append(None)
            elif v.kind == 'nat':
                new.append(int(v.term) if v.term.isdigit() else v.term)
            else:
                raise TranslateError('unsupported reshape ' + src)
        # common suffix is kept, the remaining leading sides are merged into ONE (row-major)
        k = 0
        while k < len(new) - 1 and k < len(a.shape) - 1 and new[len(new) - 1 - k] is not None and \
                str(new[len(new) - 1 - k]) == str(a.shape[len(a.shape) - 1 - k]):
            k += 1
        lead_old, lead_new = a.shape[:len(a.shape) - k], new[:len(new) - k]
        if len(lead_new) != 1 or not lead_old:
            raise TranslateError('unsupported reshape ' + src)
        total = nat_prod(lead_old)
        if lead_new[0] is not None and str(lead_new[0]) != total:
            raise TranslateError('reshape to %s where the sides give %s in %s' % (lead_new[0], total, src))
        shape = [total] + a.shape[len(a.shape) - k:]

        def unflatten(i):
            out = []
            for p in range(len(lead_old)):
                stride = nat_prod(lead_old[p + 1:]) if p + 1 < len(lead_old) else '1'
                t = nat_bin('/', i, stride)
                if p > 0:
                    t = nat_bin('%', t, lead_old[p])
                out.append(t)
            return out
        return arr(shape, lambda idx: a.fn(unflatten(idx[0]) + idx[1:]),
                   vfn=(lambda idx: a.vfn(unflatten(idx[0]) + idx[1:])) if a.vfn is not None and k >= 1 else None)

    # ------------------------------------------------------------------ rotate_points
    def to_vec(self, v, what):
        v = self.from_lists(v, what)
        if v.kind == 'arr' and [d for d in v.shape if d != 1] == [3] and v.shape[-1] == 3:
            lead = [0] * (len(v.shape) - 1)
            return vec_of(v, lead)
        raise TranslateError('%s is not a 3-vector' % what)

    def rotate_call(self, node, target, src):
        rel, _ = target
        mod = Module.get(rel)
        fn = mod.function('rotate_points')
        api = 'torch' if '/learn/' in rel else 'np'
        names = [a.arg for a in fn.args.args]
        defaults = dict(zip(names[len(names) - len(fn.args.defaults):], fn.args.defaults))
        if names[1:] != ['angles', 'mode', 'origin', 'offset']:
            raise TranslateError('rotate_points of %s now has the parameters %s' % (rel, names))
        given = {}
        for k, a in enumerate(node.args):
            given[names[k]] = self.ev(a)
        for kw in node.keywords:
            if kw.arg not in names or kw.arg in given:
                raise TranslateError('unexpected argument %s in %s' % (kw.arg, src))
            given[kw.arg] = self.ev(kw.value)
        sub = Interp(mod, {})
        for n in names[1:]:
            if n not in given:
                given[n] = sub.ev(defaults[n])
        pts = given[names[0]]
        mode = given['mode']
        if pts.kind != 'arr' or pts.shape[-1] != 3 or mode.kind != 'py' or not isinstance(mode.const, str):
            raise TranslateError('unsupported rotate_points call ' + src)
        ang, org, off = (self.to_vec(given[n], n) for n in ('angles', 'origin', 'offset'))
        if api == 'np':
            self.uses_np_rotate = True
            call = lambda p: '(npRotatePointsCall "%s" %s %s %s %s anglesZero)' % (mode.const, par(ang), par(org), par(off), par(p))
        else:
            call = lambda p: '(torchRotatePointsCall "%s" %s %s %s %s)' % (mode.const, par(ang), par(org), par(off), par(p))
        res = arr(pts.shape, lambda idx: V('s', '%s.%s' % (call(vec_of(pts, idx[:-1])), 'xyz'[idx[-1]])),
                  vfn=lambda idx: call(vec_of(pts, idx)))
        # what the function returns: `result` or a tuple that starts with it
        rets = [st for st in fn.body if isinstance(st, ast.Return)]
        if not rets or rets[-1].value is None:
            raise TranslateError('rotate_points of %s has no final return' % rel)
        rv = rets[-1].value
        if isinstance(rv, ast.Tuple):
            if not (isinstance(rv.elts[0], ast.Name) and rv.elts[0].id == 'result'):
                raise TranslateError('rotate_points of %s does not return `result` first' % rel)
            return V('list', items=[res] + [V('o')] * (len(rv.elts) - 1))
        if not (isinstance(rv, ast.Name) and rv.id == 'result'):
            raise TranslateError('rotate_points of %s does not return `result`' % rel)
        return res

    # ------------------------------------------------------------------ statements
    def target_name(self, t):
        if isinstance(t, ast.Name):
            return t.id
        if isinstance(t, ast.Attribute) and isinstance(t.value, ast.Name) and t.value.id == 'self':
            return ast.unparse(t)
        return None

    def assign(self, t, v, src):
        n = self.target_name(t)
        if n is not None:
            self.env[n] = self.bind(n, v)
            if self.loops:
                self.loop_locals[-1].add(n)
            return
        if isinstance(t, (ast.Tuple, ast.List)):
            if v.kind != 'list':
                raise TranslateError('unsupported unpacking ' + src[:80])
            items = list(v.items)
            star = [i for i, e in enumerate(t.elts) if isinstance(e, ast.Starred)]
            if star:
                if len(star) > 1 or len(items) < len(t.elts) - 1:
                    raise TranslateError('unsupported unpacking ' + src[:80])
                s = star[0]
                tail = len(t.elts) - 1 - s
                for e, x in zip(t.elts[:s], items[:s]):
                    self.assign(e, x, src)
                for e, x in zip(t.elts[s + 1:], items[len(items) - tail:] if tail else []):
                    self.assign(e, x, src)
                return
            if len(items) != len(t.elts):
                raise TranslateError('unsupported unpacking ' + src[:80])
            for e, x in zip(t.elts, items):
                self.assign(e, x, src)
            return
        raise TranslateError('unsupported assignment ' + src[:80])

    def store(self, t, valnode, src):
        name = self.target_name(t.value)
        if name is None:
            raise TranslateError('unsupported store ' + src[:80])
        base = self.name(name)
        if base.kind != 'arr':
            raise TranslateError('store into a %s: %s' % (base.kind, src[:80]))
        spec = self.index_spec(t.slice, src)
        if any(s[0] in ('slice', 'new') for s in spec):
            raise TranslateError('unsupported store ' + src[:80])
        acc = False
        if self.loops and isinstance(valnode, ast.BinOp) and isinstance(valnode.op, ast.Add) and \
                ast.unparse(valnode.left) == ast.unparse(t):
            acc, valnode = True, valnode.right
        val = self.ev(valnode)
        if self.loops:
            self.pending.append(Pending(name, spec, val, list(self.loops), acc))
            return
        self.env[name] = self.put(base, spec, val, src)

    def put(self, a, spec, val, src):
        """a[spec] = val outside loops (indices are constants or full slices)"""
        spec = list(spec) + [('all',)] * (len(a.shape) - len(spec))
        if len(spec) != len(a.shape) or any(s[0] == 'nat' for s in spec):
            raise TranslateError('unsupported store ' + src[:80])
        sub = [d for d, s in zip(a.shape, spec) if s[0] == 'all']
        vs = val.shape if val.kind == 'arr' else []
        broadcast_shapes(sub, vs, src)
        if len(vs) > len(sub):
            raise TranslateError('stored value has more sides than the target in ' + src[:80])
        fixed = [(k, s[1]) for k, s in enumerate(spec) if s[0] == 'int']
        free = [k for k, s in enumerate(spec) if s[0] == 'all']

        def fn(idx):
            if all(idx[k] == c for k, c in fixed):
                sidx = [idx[k] for k in free]
                return val.fn(bidx(vs, sidx)) if val.kind == 'arr' else val
            return a.fn(idx)
        vfn = None
        if spec[-1][0] == 'all' and a.shape[-1] == 3 and (a.vfn is not None or True):
            def vfn(idx):
                if all(idx[k] == c for k, c in fixed):
                    sidx = [idx[k] for k in free[:-1]]
                    if val.kind == 'arr' and val.shape[-1] == 3:
                        return vec_of(val, bidx(vs[:-1], sidx))
                    return '(⟨%s, %s, %s⟩ : Vec3 α)' % tuple(as_real(fn(idx + [c]), src) for c in range(3))
                return vec_of(a, idx)
        return arr(a.shape, fn, vfn=vfn)

    def exec_block(self, stmts):
        for k, st in enumerate(stmts):
            src = ast.unparse(st)
            if isinstance(st, ast.Expr):
                if isinstance(st.value, ast.Constant) or self.lenient_exprs:
                    continue
                raise TranslateError('unsupported expression statement ' + src[:60])
            if isinstance(st, ast.Return):
                if self.loops:
                    raise TranslateError('return inside a loop')
                raise Returned(self.ev(st.value) if st.value is not None else V('py', const=None))
            if isinstance(st, ast.Assign) and len(st.targets) == 1:
                t = st.targets[0]
                if isinstance(t, ast.Subscript):
                    self.store(t, st.value, src)
                else:
                    self.assign(t, self.ev(st.value), src)
                continue
            if isinstance(st, ast.AugAssign):
                n = self.target_name(st.target)
                if n is None:
                    raise TranslateError('unsupported statement ' + src[:80])
                self.assign(st.target, self.binop(ast.BinOp(left=st.target, op=st.op, right=st.value), src), src)
                continue
            if isinstance(st, ast.If):
                self.exec_if(st)
                continue
            if isinstance(st, ast.For):
                self.exec_for(st, src)
                continue
            raise TranslateError('unsupported statement ' + src[:80])

    def exec_if(self, st):
        t = self.ev(st.test)
        if t.kind == 'py':
            return self.exec_block(st.body if t.const else st.orelse)
        if t.kind == 'b' and t.prop is not None:
            np_ = len(self.pending)
            base = dict(self.env)
            self.exec_block(st.body)
            ea = self.env
            self.env = dict(base)
            self.exec_block(st.orelse)
            eb = self.env
            if len(self.pending) != np_:
                raise TranslateError('store inside the data-dependent branch `%s`' % ast.unparse(st.test))
            merged = dict(base)
            for n in set(ea) | set(eb):
                x, y = ea.get(n), eb.get(n)
                if x is y:
                    continue
                if x is None or y is None or x.kind != y.kind or x.kind not in ('s', 'b', 'nat'):
                    merged[n] = V('poison', 'assigned in only one arm of `%s`' % ast.unparse(st.test))
                    continue
                if x.term == y.term:
                    merged[n] = x
                    continue
                term = '(if %s then %s else %s)' % (t.prop, x.term, y.term)
                merged[n] = V(x.kind, term, prop=('%s = true' % term) if x.kind == 'b' else None)
            self.env = merged
            return
        raise TranslateError('condition is neither a constant nor a comparison: ' + ast.unparse(st.test))

    loop_locals = None

    def exec_for(self, st, src):
        if st.orelse or not isinstance(st.target, ast.Name) or not (isinstance(st.iter, ast.Call) and ast.unparse(st.iter.func) == 'range'
                                                                     and 1 <= len(st.iter.args) <= 2 and not st.iter.keywords):
            raise TranslateError('unsupported loop ' + src[:60])
        bounds = [self.ev(a) for a in st.iter.args]
        if any(b.kind != 'nat' for b in bounds):
            raise TranslateError('loop bounds are not counts: ' + src[:60])
        lo, hi = ('0', bounds[0].term) if len(bounds) == 1 else (bounds[0].term, bounds[1].term)
        loop = Loop(st.target.id, lo, hi)
        if self.loop_locals is None:
            self.loop_locals = []
        outer = st.target.id in self.env and self.env[st.target.id]
        self.loops.append(loop)
        self.loop_locals.append({st.target.id})
        self.env[st.target.id] = V('nat', loop.tok)
        self.exec_block(st.body)
        self.loops.pop()
        for n in self.loop_locals.pop():
            self.env[n] = V('poison', 'assigned inside a loop')
        if outer:
            self.env[st.target.id] = outer
        if not self.loops:
            pend, self.pending = self.pending, []
            for p in pend:
                self.env[p.name] = self.resolve_store(self.name(p.name), p)

    def resolve_store(self, a, p):
        """the array after the loop nest has run: element `[…]` is what the iteration that addresses it stored"""
        spec = list(p.idx) + [('all',)] * (len(a.shape) - len(p.idx))
        if len(spec) != len(a.shape):
            raise TranslateError('too many indices in a store into ' + p.name)
        dimof = {}            # loop token -> (dim, offset c): the loop variable is `index + c`
        for k, s in enumerate(spec):
            if s[0] == 'nat':
                hit = None
                for L in p.loops:
                    if s[1] == L.tok:
                        hit = (L, '0')
                    else:
                        m = re.fullmatch(r'\(%s - (\d+)\)' % re.escape(L.tok), s[1])
                        if m:
                            hit = (L, m.group(1))
                if hit is None or hit[0].tok in dimof:
                    raise TranslateError('store index `%s` of %s is not a loop variable (minus a constant)' % (s[1], p.name))
                L, c = hit
                if nat_bin('-', L.lo, c) != '0' or nat_bin('-', L.hi, c) != str(a.shape[k]):
                    raise TranslateError('the loop over %s (range %s..%s) does not cover side %s of %s'
                                         % (L.var, L.lo, L.hi, a.shape[k], p.name))
                dimof[L.tok] = (k, c)
        folds = [L for L in p.loops if L.tok not in dimof]
        if len(folds) > 1 or (folds and not p.acc) or (folds and folds[0].lo != '0'):
            probe = p.val.fn(['i'] * len(p.val.shape)).term if p.val.kind == 'arr' else p.val.term
            if any(L.tok in (probe or '') for L in folds) or p.acc:
                raise TranslateError('store into %s does not address one element per iteration' % p.name)
            folds = []
        if p.acc and not folds:
            raise TranslateError('accumulation into %s outside a fold' % p.name)
        fixed = [(k, s[1]) for k, s in enumerate(spec) if s[0] == 'int']
        free = [k for k, s in enumerate(spec) if s[0] == 'all']
        vs = p.val.shape if p.val.kind == 'arr' else []
        sub = [a.shape[k] for k in free]
        if len(vs) > len(sub):
            raise TranslateError('stored value has more sides than the target %s' % p.name)
        for x, y in zip(reversed(vs), reversed(sub)):
            if x != 1 and str(x) != str(y):
                self.same_side(x, y, p.name)

        def fn(idx):
            if not all(idx[k] == c for k, c in fixed):
                return a.fn(idx)
            leaf = p.val.fn(bidx(vs, [idx[k] for k in free])) if p.val.kind == 'arr' else p.val
            term = leaf.term
            for tok, (k, c) in dimof.items():
                term = term.replace(tok, par(nat_bin('+', idx[k], c)))
            term = tidy(term)
            if folds:
                L = folds[0]
                init = a.fn(idx)
                term = '((List.range %s).foldl (fun acc %s => acc + %s) %s)' % (par(L.hi), L.var, term.replace(L.tok, L.var),
                                                                                  par(as_real(init, p.name)))
                return V('s', term)
            return V(leaf.kind, term)
        return arr(a.shape, fn)

    def same_side(self, x, y, where):
        """two sides that the source requires to be equal (a row of length x stored into a side y)"""
        self.notes.append('%s: the source needs the sides %s and %s to be equal' % (where, x, y))
        return True


def lib_is_norm(node):
    return ast.unparse(node.func) in ('torch.norm', 'torch.linalg.norm', 'np.linalg.norm', 'numpy.linalg.norm')


def prune(lets, roots):
    """keep the lets the result terms depend on (in order)"""
    tok = re.compile(r"[A-Za-z_][A-Za-z0-9_']*")
    need = set()
    for r in roots:
        need |= set(tok.findall(r))
    keep = []
    for n, t, e in reversed(lets):
        if n in need:
            keep.append((n, t, e))
            need |= set(tok.findall(e))
    return list(reversed(keep))


# --------------------------------------------------------------------------------------------------------------- jobs

def make_param(pyname, kind):
    """-> (binder text, value)"""
    n = safe(pyname)
    if kind == 'nat':
        return '(%s : Nat)' % n, V('nat', n)
    if kind == 's':
        return '(%s : α)' % n, V('s', n)
    if kind == 'c':
        return '(%s : Cx α)' % n, V('c', n, re=n + '.re', im=n + '.im')
    if kind == 'v':
        return '(%s : Vec3 α)' % n, arr([3], lambda idx: V('s', '%s.%s' % (n, 'xyz'[idx[0]])), vfn=lambda idx: n)
    if kind == 'o':
        return '', V('o')
    if kind == 'none':
        return '', V('py', const=None)
    if isinstance(kind, tuple):
        if kind[0] == 'natlist':
            names = ['%s%d' % (n, i) for i in range(kind[1])]
            return '(%s : Nat)' % ' '.join(names), V('list', items=[V('nat', x) for x in names])
        if kind[0] == 'slist':
            names = ['%s%d' % (n, i) for i in range(kind[1])]
            return '(%s : α)' % ' '.join(names), V('list', items=[V('s', x) for x in names])
        if kind[0] == 'pts':
            return '(%s : Nat) (%s : Nat → Vec3 α)' % (kind[1], n), \
                arr([kind[1], 3], lambda idx: V('s', '(%s %s).%s' % (n, par(idx[0]), 'xyz'[idx[1]])),
                    vfn=lambda idx: '(%s %s)' % (n, par(idx[0])))
        if kind[0] == 'seq':
            return '(%s : Nat → α) (%s : Nat)' % (n, kind[1]), arr([kind[1]], lambda idx: V('s', '(%s %s)' % (n, par(idx[0]))))
        if kind[0] == 'chan':
            return '(%s : Nat → α)' % n, arr([kind[1]], lambda idx: V('s', '(%s %s)' % (n, par(idx[0]))))
        if kind[0] == 'py':
            return '', V('py', const=kind[1])
    raise TranslateError('unknown parameter kind %r' % (kind,))


def result_term(v, index_names, what):
    """-> (index binder names, Lean type, term, shape)"""
    if v.kind == 'list':
        parts = [result_term(x, index_names, what) for x in v.items]
        names = max((p[0] for p in parts), key=len)
        if any(p[0] != names[:len(p[0])] for p in parts):
            raise TranslateError('%s: tuple results with different index sets' % what)
        return names, '(' + ' × '.join(p[1] for p in parts) + ')', '(' + ', '.join(p[2] for p in parts) + ')', parts[0][3]
    if v.kind == 's':
        return [], 'α', v.term, []
    if v.kind == 'nat':
        return [], 'Nat', v.term, []
    if v.kind == 'b':
        return [], 'Bool', v.term, []
    if v.kind == 'c':
        return [], 'Cx α', cx_term(v, what), []
    if v.kind != 'arr':
        raise TranslateError('%s: unsupported result kind %s' % (what, v.kind))
    nvar = 0
    while nvar < len(v.shape) and is_var(v.shape[nvar]):
        nvar += 1
    tail = v.shape[nvar:]
    if nvar > len(index_names):
        raise TranslateError('%s: %d index names for the sides %s' % (what, len(index_names), v.shape))
    names = list(index_names[:nvar])
    if tail == []:
        leaf = v.fn(names)
        ty = {'s': 'α', 'nat': 'Nat', 'b': 'Bool'}.get(leaf.kind)
        if ty is None:
            raise TranslateError('%s: unsupported element kind %s' % (what, leaf.kind))
        return names, ty, leaf.term, v.shape
    if tail == [3]:
        return names, 'Vec3 α', vec_of(v, names), v.shape
    if tail == [2, 3]:
        o = arr(v.shape[:-2] + [3], lambda idx: v.fn(idx[:-1] + [0, idx[-1]]), vfn=(lambda idx: v.vfn(idx + [0])) if v.vfn else None)
        d = arr(v.shape[:-2] + [3], lambda idx: v.fn(idx[:-1] + [1, idx[-1]]), vfn=(lambda idx: v.vfn(idx + [1])) if v.vfn else None)
        return names, 'Ray α', '(⟨%s, %s⟩ : Ray α)' % (vec_of(o, names), vec_of(d, names)), v.shape
    raise TranslateError('%s: unsupported result layout %s' % (what, v.shape))


def nat_binder_names(params):
    out = []
    for pyname, kind in params:
        n = safe(pyname)
        if kind == 'nat':
            out.append(n)
        elif isinstance(kind, tuple) and kind[0] == 'natlist':
            out += ['%s%d' % (n, i) for i in range(kind[1])]
        elif isinstance(kind, tuple) and kind[0] in ('pts', 'seq'):
            out.append(kind[1])
    return out


class Job:
    """lean: name of the generated definition; rel / py / cls: where the Python function is; params: [(python name, kind)] in the
    order of the Python signature (attributes `self.x` for methods); result: None (the returned value), ('var', name) (the value
    of a variable / attribute when the function ends) or ('ret', k) (component k of the returned tuple); stop: run only up to
    (not including) the first `for`; index: names of the index arguments; count: also define `<lean>Count`"""

    def __init__(self, lean, rel, py, params, cls=None, result=None, index=('i', 'j', 'k'), count=False, doc=None, stop=None,
                 register=None, lenient=False, start=None):
        self.lean, self.rel, self.py, self.params, self.cls = lean, rel, py, params, cls
        self.result, self.index, self.count, self.doc, self.stop, self.register, self.lenient, self.start = \
            result, index, count, doc, stop, register, lenient, start


def run_job(job, registry):
    mod = Module.get(job.rel)
    fn = mod.function(job.py, job.cls)
    binders, env = [], {}
    for pyname, kind in job.params:
        b, v = make_param(pyname, kind)
        if b:
            binders.append(b)
        env[pyname] = v
    argnames = [a.arg for a in fn.args.args if a.arg != 'self']
    declared = [p for p, _ in job.params if not p.startswith('self.')]
    if declared != argnames:
        raise TranslateError('%s: parameter list is now %s (the translator describes %s)' % (job.py, argnames, declared))
    it = Interp(mod, env, registry, lenient_exprs=job.lenient)
    stmts = list(fn.body)
    if job.stop == 'for':
        for k, st in enumerate(stmts):
            if isinstance(st, ast.For):
                stmts = stmts[:k]
                break
        else:
            raise TranslateError('%s: no loop found' % job.py)
    val = None
    try:
        it.exec_block(stmts)
    except Returned as r:
        val = r.value
    res = job.result
    if res is None or res[0] == 'ret':
        if val is None:
            raise TranslateError('%s: no return statement' % job.py)
        if res is not None:
            if val.kind != 'list' or res[1] >= len(val.items):
                raise TranslateError('%s: the function does not return a tuple with component %d' % (job.py, res[1]))
            val = val.items[res[1]]
    elif res[0] == 'var':
        val = it.name(res[1])
    names, ty, term, shape = result_term(val, list(job.index), job.lean)
    if it.uses_np_rotate:
        binders.append('(anglesZero : Bool)')
    if it.rand:
        binders.append('(%s : Nat → α)' % ' '.join(it.rand))
    head = ' '.join(binders)
    ib = (' (%s : Nat)' % ' '.join(names)) if names else ''
    lets = prune(it.lets, [term])
    where = '`%s%s` (%s)' % ((job.cls + '.') if job.cls else '', job.py, job.rel)
    lines = ['/-- %s -/' % (job.doc or where).replace('{where}', where),
             'def %s %s%s : %s :=' % (job.lean, head, ib, ty)]
    for n, t, e in lets:
        lines.append('  let %s : %s := %s' % (n, t, e))
    lines.append('  ' + term)
    if job.count:
        if not shape or not is_var(shape[0]):
            raise TranslateError('%s: the result has no variable side to count' % job.lean)
        cb = ' '.join('(%s : Nat)' % n for n in nat_binder_names(job.params))
        lines += ['', '/-- number of rows of the array returned by %s -/' % where,
                  'def %sCount %s : Nat := %s' % (job.lean, cb, shape[0])]
    if job.register:
        registry[(job.rel, job.py)] = {'lean': job.lean, 'params': [(p, k) for p, k in job.params if k not in ('o', 'none')],
                                       'result': job.register}
    return '\n'.join(lines), it.notes
