"""Core of the OBJECT translators of work package 13 (clients: propobject.py, lossobjects.py, meshobject.py).

A Python class becomes

    structure <Cls>Self        one field per attribute the class stores ANYWHERE (`self.x = ...` in any method: the field list is discovered
                               from the source, in source order; every field an `Option`, `none` = unset or None)
    def <cls><Method>G         one STEP FUNCTION per method, statement by statement in the `Option` monad (`none` = the source raises):
                               E self_ heap_ args  ->  some (self_', heap_', returned value, names of the attributes stored, in order)

Tensors come in two kinds (see OdakModel/ObjPrelude.lean):

    'T'  a VALUE: the anonymous result of an operation;
    'B'  an OBJECT: a location (`Nat`) of the heap.

WHICH attributes / parameters / locals are objects is computed from the source (`prepass`): a name or attribute is an object when it is
written in place (`x[i] = v`, `x.requires_grad = ..`), returned as it is, stored as it is into an attribute, or when it is another name for
such a thing (`y = x`, `x.detach()`, `x.to(device)`, `x.float()`, `torch.as_tensor(x)` keep the object).  An operation result bound to an
object name is a NEW object (`heap_.alloc`), `x[i] = v` on an object is `heap_.set`, `.clone()` yields a value (a copy nobody else holds).
Hence: a method that starts to keep a buffer on `self` and hand it out again changes the field list, the kinds and the text.

`for` loops become `List.foldlM` over a separately defined pass function (`<fn>_for<k>`: closure-converted, the loop-carried locals are part
of the folded state).  Heavy numerics are fields of an uninterpreted record (`OPS` of the client); a contiguous block of pure numerics can be
declared an opaque REGION (checked: the names it reads are exactly the arguments of the uninterpreted call, it stores no attribute), a method
whose numerics are regenerated elsewhere can be SUMMARISED by its effect signature (attributes read, rebound, written in place - recomputed).
Anything outside the grammar raises TranslateError: the client returns the error and `generate_all` keeps the accepted file."""
import ast
import os
from .pyexpr import TranslateError

REPO = os.environ.get('ODAK_REPO', '/repo')
CATCH = (TranslateError, OSError, SyntaxError, KeyError, IndexError, AttributeError, TypeError, ValueError, RecursionError)
ALIAS_METHODS = ('to', 'float', 'detach', 'contiguous', 'cpu', 'double')


def read_tree(rel):
    with open(os.path.join(os.environ.get('ODAK_REPO', REPO), rel)) as f:
        return ast.parse(f.read())


# ------------------------------------------------------------------------------------------------------------------ kinds
def lty(k):
    if isinstance(k, tuple):
        if k[0] == 'opt':
            return 'Option %s' % lty_atom(k[1])
        if k[0] == 'list':
            return 'List %s' % lty_atom(k[1])
        if k[0] == 'tuple':
            return ' × '.join(lty_atom(x) for x in k[1])
        if k[0] == 'fn':
            return 'String'
    return {'T': 'T', 'B': 'Nat', 'R': 'R', 'I': 'Int', 'S': 'String', 'Bool': 'Bool', 'Dev': 'Unit', 'Unit': 'Unit', 'Dict': 'List (String × R)'}[k]


def lty_atom(k):
    s = lty(k)
    return s if ' ' not in s else '(%s)' % s


def is_tensor(k):
    return k in ('T', 'B')


def camel(name):
    name = name.strip('_')
    return ''.join(p[:1].upper() + p[1:] for p in name.split('_'))


def self_attr(n):
    if isinstance(n, ast.Attribute) and isinstance(n.value, ast.Name) and n.value.id == 'self':
        return n.attr
    return None


def alias_root(e):
    """'name:x' / 'attr:a' when the expression denotes an EXISTING object (possibly under another name), else None"""
    if isinstance(e, ast.Name):
        return 'name:' + e.id
    a = self_attr(e)
    if a is not None:
        return 'attr:' + a
    if isinstance(e, ast.Call) and isinstance(e.func, ast.Attribute) and e.func.attr in ALIAS_METHODS:
        return alias_root(e.func.value)
    if isinstance(e, ast.Call) and ast.unparse(e.func) == 'torch.as_tensor' and len(e.args) == 1:
        return alias_root(e.args[0])
    return None


def targets_of(n):
    if isinstance(n, ast.Assign):
        out = []
        for t in n.targets:
            out += list(t.elts) if isinstance(t, (ast.Tuple, ast.List)) else [t]
        return out
    if isinstance(n, (ast.AugAssign, ast.AnnAssign)):
        return [n.target]
    return []


def subscript_base(t):
    while isinstance(t, ast.Subscript):
        t = t.value
    return t


def region_spans(stmts, regions):
    """[(region, first statement, one past the last statement)] among the statements `stmts`"""
    out = []
    i = 0
    while i < len(stmts):
        reg = None
        for r in regions:
            if ast.unparse(stmts[i]).startswith(r.start):
                reg = r
        if reg is None:
            i += 1
            continue
        j = i + 1
        while j < len(stmts) and not isinstance(stmts[j], ast.Return) and not (reg.stop and ast.unparse(stmts[j]).startswith(reg.stop)):
            j += 1
        out.append((reg, i, j))
        i = j
    return out


class V:
    def __init__(self, term, kind):
        self.term, self.kind = term, kind


class OpSpec:
    """a source call that becomes an uninterpreted numeric: op name, kinds of the arguments taken (positional names of the Python signature and
    / or keywords, in the order the op receives them), ignored keywords, result kind"""
    def __init__(self, op, params, result, ignore=('device', 'dtype', 'requires_grad'), defaults=None, method=False):
        self.op, self.params, self.result, self.ignore, self.defaults, self.method = op, params, result, ignore, defaults or {}, method


class Region:
    def __init__(self, start, results, op, args, stop=None):
        self.start, self.results, self.op, self.args, self.stop = start, results, op, args, stop


class Summary:
    """a method represented by its effect signature; `op` receives the contents of the attributes `reads` (in this order) and the
    parameters `params`, and yields the final content of every object the method creates or writes, in the order of `effects`"""
    def __init__(self, op, reads, params=(), ret=None, opt_reads=()):
        self.op, self.reads, self.params, self.ret, self.opt_reads = op, list(reads), list(params), ret, list(opt_reads)


class ClassModel:
    def __init__(self, spec):
        self.spec = spec
        self.name = spec['cls']
        self.prefix = spec.get('prefix') or (self.name[:1].lower() + camel(self.name)[1:])
        self.S = spec.get('struct') or (camel(self.name) + 'Self')
        self.opsname = spec['opsname']
        self.tree = read_tree(spec['file'])
        self.node = None
        for n in self.tree.body:
            if isinstance(n, ast.ClassDef) and n.name == self.name:
                self.node = n
        if self.node is None:
            raise TranslateError('class %s not found' % self.name)
        self.methods = {m.name: m for m in self.node.body if isinstance(m, ast.FunctionDef)}
        self.ops = {o[0]: o for o in spec['ops']}
        self.calls = spec['calls']
        self.fields = {}                  # attribute -> kind or None (pending), in source order of the first store
        for m in self.node.body:
            if isinstance(m, ast.FunctionDef):
                for n in ast.walk(m):
                    for t in targets_of(n):
                        a = self_attr(t)
                        if a is not None and a not in self.fields:
                            self.fields[a] = None
        # source order of `ast.walk` is breadth first: re-order by position
        pos = {}
        for m in self.node.body:
            if isinstance(m, ast.FunctionDef):
                for n in ast.walk(m):
                    for t in targets_of(n):
                        a = self_attr(t)
                        if a is not None:
                            p = (t.lineno, t.col_offset)
                            if a not in pos or p < pos[a]:
                                pos[a] = p
        self.fields = {a: None for a in sorted(self.fields, key=lambda a: pos[a])}
        self.fn_attrs = {}                # attribute holding a torch.nn loss module -> op name
        self.obj_attrs, self.obj_names = self.prepass()
        self.done = {}                    # method -> MethodResult
        self.order = []
        self.active = []

    # ------------------------------------------------------------------ which names are objects
    def prepass(self):
        obj = set()
        per_method = {}
        edges = []                        # (x, y): x is another name for y  (scoped roots: 'm/name:x' or 'attr:a')
        returned = []
        for mname, fn in self.methods.items():
            def sc(r):
                return r if r.startswith('attr:') else '%s/%s' % (mname, r)
            hidden = set()
            for reg, i, j in region_spans(fn.body, self.spec.get('regions', {}).get(mname, ())):
                for st in fn.body[i:j]:
                    hidden |= set(id(x) for x in ast.walk(st))
            for n in ast.walk(fn):
                if id(n) in hidden:
                    continue
                if isinstance(n, ast.Call) and self_attr(n.func) in self.methods:
                    callee = self.methods[self_attr(n.func)]
                    ps = [a.arg for a in callee.args.args][1:]
                    pairs = list(zip(ps, n.args)) + [(kw.arg, kw.value) for kw in n.keywords if kw.arg in ps]
                    for p_, a_ in pairs:
                        r = alias_root(a_)
                        if r:
                            edges.append(('%s/name:%s' % (callee.name, p_), sc(r)))
                if isinstance(n, (ast.Assign, ast.AugAssign)):
                    for t in targets_of(n):
                        if isinstance(t, ast.Subscript):
                            r = alias_root(subscript_base(t))
                            if r:
                                obj.add(sc(r))
                        elif isinstance(t, ast.Attribute) and self_attr(t) is None:
                            r = alias_root(t.value)
                            if r:
                                obj.add(sc(r))
                    if isinstance(n, ast.Assign) and len(n.targets) == 1:
                        t = n.targets[0]
                        r = alias_root(n.value)
                        if r is not None:
                            a = self_attr(t)
                            if a is not None:
                                obj.add('attr:' + a)
                                obj.add(sc(r))
                                edges.append(('attr:' + a, sc(r)))
                            elif isinstance(t, ast.Name):
                                edges.append((sc('name:' + t.id), sc(r)))
                if isinstance(n, ast.Return) and n.value is not None:
                    for e in (n.value.elts if isinstance(n.value, ast.Tuple) else [n.value]):
                        r = alias_root(e)
                        if r:
                            returned.append(sc(r))

        def close():
            changed = True
            while changed:
                changed = False
                for x, y in edges:
                    if x in obj and y not in obj:
                        obj.add(y)
                        changed = True
        close()
        # a returned name hands out an object only if it is (another name for) an attribute or a parameter
        params = set('%s/name:%s' % (m, a.arg) for m, f in self.methods.items() for a in f.args.args[1:])
        for r in returned:
            reach, todo = {r}, [r]
            while todo:
                x = todo.pop()
                for a, b in edges:
                    if a == x and b not in reach:
                        reach.add(b)
                        todo.append(b)
            if any(y.startswith('attr:') or y in params for y in reach):
                obj |= reach                              # every name on the way denotes that object
        close()
        attrs = set(r[5:] for r in obj if r.startswith('attr:'))
        for mname in self.methods:
            per_method[mname] = set(r.split('/name:')[1] for r in obj if r.startswith(mname + '/name:'))
        return attrs, per_method

    # ------------------------------------------------------------------ kinds of parameters
    def param_kinds(self, mname):
        fn = self.methods[mname]
        args = fn.args.args[1:]
        off = len(args) - len(fn.args.defaults)
        out = []
        table = self.spec['param_kinds']
        for i, a in enumerate(args):
            k = table.get((mname, a.arg), table.get(a.arg))
            if k is None:
                raise TranslateError('%s.%s: parameter %s has no kind' % (self.name, mname, a.arg))
            if k == 'T' and a.arg in self.obj_names[mname]:
                k = 'B'
            if k == ('opt', 'T') and a.arg in self.obj_names[mname]:
                k = ('opt', 'B')
            d = fn.args.defaults[i - off] if i >= off else None
            if d is not None and isinstance(d, ast.Constant) and d.value is None and not (isinstance(k, tuple) and k[0] == 'opt'):
                k = ('opt', k)
            out.append((a.arg, k, d))
        return out

    def fn_name(self, m):
        return '%s%sG' % (self.prefix, 'Call' if m == '__call__' else 'Init' if m == '__init__' else camel(m))

    def attr_kind_for_store(self, a, vk):
        """kind of attribute `a` when a value of kind `vk` is stored into it"""
        base = vk[1] if isinstance(vk, tuple) and vk[0] == 'opt' else vk
        if is_tensor(base):
            base = 'B' if a in self.obj_attrs else 'T'
        if isinstance(base, tuple) and base[0] == 'tuple' and a in self.obj_attrs:
            base = ('tuple', tuple('B' if is_tensor(x) else x for x in base[1]))     # the tensors a kept tuple holds are objects
        cur = self.fields.get(a)
        if cur is None:
            self.fields[a] = base
            return base
        if cur != base:
            raise TranslateError('%s: attribute %s holds a %s, a %s is stored' % (self.name, a, cur, base))
        return cur

    def method(self, mname):
        if mname in self.done:
            return self.done[mname]
        if mname in self.active:
            raise TranslateError('%s.%s is recursive' % (self.name, mname))
        if mname not in self.methods:
            raise TranslateError('%s has no method %s' % (self.name, mname))
        if self.methods[mname].decorator_list:
            raise TranslateError('%s.%s is decorated (%s): what the decorator keeps between calls is not part of the model'
                                 % (self.name, mname, ', '.join(ast.unparse(d) for d in self.methods[mname].decorator_list)))
        self.active.append(mname)
        try:
            if mname in self.spec.get('summaries', {}):
                res = summarise(self, mname, self.spec['summaries'][mname])
            else:
                mt = MethodTranslator(self, mname)
                res = mt.translate()
        finally:
            self.active.pop()
        self.done[mname] = res
        self.order.append(mname)
        return res


class MethodResult:
    def __init__(self, params, ret_kind, text):
        self.params, self.ret_kind, self.text = params, ret_kind, text


class MethodTranslator:
    def __init__(self, cm, mname, fn=None):
        self.cm, self.mname = cm, mname
        self.fn = fn or cm.methods[mname]
        self.lines = []
        self.ind = 1
        self.counter = [0]
        self.env = {}
        self.ret_kind = None
        self.aux = []                 # texts of the loop pass functions
        self.loopno = [0]
        self.objn = cm.obj_names.get(mname, set())
        self.in_loop = False
        self.lean = {}                # Python local -> Lean identifier, when they differ

    # ------------------------------------------------------------------ output
    def emit(self, text):
        self.lines.append('  ' * self.ind + text)

    def fresh(self, p):
        self.counter[0] += 1
        return '%s_%d' % (p, self.counter[0])

    def err(self, what, node=None):
        where = '%s.%s' % (self.cm.name, self.mname)
        if node is not None and hasattr(node, 'lineno'):
            where += ' line %d' % node.lineno
        return TranslateError('%s: %s' % (where, what))

    # ------------------------------------------------------------------ values
    def val(self, v, node=None):
        """the content of a tensor (objects are dereferenced)"""
        if v.kind == 'B':
            d = self.fresh('d')
            self.emit('let %s ← heap_.get %s' % (d, v.term))
            return V(d, 'T')
        return v

    def tens(self, v, node=None):
        """a value used as a tensor operand"""
        v = self.unopt(v)
        if v.kind in ('T', 'B'):
            return self.val(v).term
        if v.kind == 'R':
            return '(E.scalar %s)' % v.term
        if v.kind == 'I':
            return '(E.int %s)' % v.term
        if v.kind == 'Bool':
            return '(E.ofBool %s)' % v.term
        raise self.err('a value of kind %s is used as a tensor' % (v.kind,), node)

    def unopt(self, v):
        if isinstance(v.kind, tuple) and v.kind[0] == 'opt':
            x = self.fresh('v')
            self.emit('let %s ← %s' % (x, v.term))
            return V(x, v.kind[1])
        return v

    def alloc(self, term):
        a = self.fresh('a')
        self.emit('let %s := heap_.alloc %s' % (a, term))
        self.emit('heap_ := %s.1' % a)
        return V('%s.2' % a, 'B')

    def coerce(self, v, want, node=None, what=''):
        """`v` as a value of kind `want`"""
        if v.kind == want:
            return v.term
        if v.kind == 'None':
            if isinstance(want, tuple) and want[0] == 'opt':
                return 'none'
            raise self.err('None passed for %s of kind %s' % (what, want), node)
        wopt = isinstance(want, tuple) and want[0] == 'opt'
        vopt = isinstance(v.kind, tuple) and v.kind[0] == 'opt'
        if wopt and not vopt:
            return '(some %s)' % self.coerce(v, want[1], node, what)
        if wopt and vopt:
            if (v.kind[1], want[1]) == ('B', 'T'):
                c = self.fresh('c')
                self.emit('let %s ← heap_.getOpt %s' % (c, v.term))
                return c
            raise self.err('%s: an optional %s where an optional %s is expected' % (what, v.kind[1], want[1]), node)
        if vopt:
            return self.coerce(self.unopt(v), want, node, what)
        if (v.kind, want) == ('B', 'T'):
            return self.val(v).term
        if (v.kind, want) == ('T', 'B'):
            return self.alloc(v.term).term
        if (v.kind, want) == ('I', 'R'):
            return '(E.rofInt %s)' % v.term
        if v.kind in ('T', 'B') and want == 'I' and 'toInt' in self.cm.ops:
            return '(E.toInt %s)' % self.val(v).term           # a 0-d tensor used as a Python int
        raise self.err('%s: a %s where a %s is expected' % (what, v.kind, want), node)

    # ------------------------------------------------------------------ expressions
    def ex(self, n):
        if isinstance(n, ast.Constant):
            c = n.value
            if c is None:
                return V('none', 'None')
            if isinstance(c, bool):
                return V('true' if c else 'false', 'Bool')
            if isinstance(c, int):
                return V('%d' % c if c >= 0 else '(%d)' % c, 'I')
            if isinstance(c, float):
                return V('(E.lit "%s")' % repr(c), 'R')
            if isinstance(c, str):
                return V('"%s"' % c.replace('\\', '\\\\').replace('"', '\\"'), 'S')
            raise self.err('literal %r' % (c,), n)
        if isinstance(n, ast.Name):
            if n.id not in self.env:
                raise self.err('unknown name %s' % n.id, n)
            return V(self.lean.get(n.id, n.id), self.env[n.id])
        if isinstance(n, ast.Attribute):
            return self.attribute(n)
        if isinstance(n, ast.Call):
            return self.call(n)
        if isinstance(n, ast.BinOp):
            return self.binop(n)
        if isinstance(n, ast.UnaryOp):
            if isinstance(n.op, ast.Not):
                return V(self.cond(n), 'Bool')
            if isinstance(n.op, ast.USub):
                if isinstance(n.operand, ast.Constant) and isinstance(n.operand.value, float):
                    return V('(E.lit "%s")' % repr(-n.operand.value), 'R')
                v = self.unopt(self.ex(n.operand))
                if v.kind == 'I':
                    return V('(-%s)' % v.term, 'I')
                if v.kind == 'R':
                    return V('(E.rneg %s)' % v.term, 'R')
                return V('(E.neg %s)' % self.tens(v, n), 'T')
            raise self.err('operator in %s' % ast.unparse(n), n)
        if isinstance(n, (ast.Compare, ast.BoolOp)):
            return V(self.cond(n), 'Bool')
        if isinstance(n, (ast.Tuple, ast.List)):
            vs = [self.unopt(self.ex(e)) for e in n.elts]
            ks = set(v.kind for v in vs)
            if isinstance(n, ast.List) and len(ks) == 1 and list(ks)[0] in ('I', 'R', 'S'):
                return V('[%s]' % ', '.join(v.term for v in vs), ('list', vs[0].kind))
            if isinstance(n, ast.List) and ks <= {'I', 'R'}:
                return V('[%s]' % ', '.join(v.term if v.kind == 'R' else '(E.rofInt %s)' % v.term for v in vs), ('list', 'R'))
            return V('(%s)' % ', '.join(v.term for v in vs), ('tuple', tuple(v.kind for v in vs)))
        if isinstance(n, ast.Subscript):
            return self.subscript(n)
        raise self.err('expression %s' % ast.unparse(n), n)

    def attribute(self, n):
        a = self_attr(n)
        if a is not None:
            if a in self.cm.fn_attrs:
                raise self.err('self.%s is a loss module, not a value' % a, n)
            if a not in self.cm.fields:
                raise self.err('attribute self.%s is never stored by the class' % a, n)
            k = self.cm.fields[a]
            if k is None:
                # only None was stored so far (a cache that is filled later): taken to be a tensor; the store that fills it has to agree
                k = 'B' if a in self.cm.obj_attrs else 'T'
                self.cm.fields[a] = k
            x = self.fresh('v')
            self.emit('let %s ← self_.%s' % (x, a))
            return V(x, k)
        src = ast.unparse(n)
        if src in ('torch.complex64', 'torch.float32', 'torch.float64', 'torch.int', 'torch.complex128'):
            return V('"%s"' % src, 'S')
        if n.attr == 'shape':
            raise self.err('a shape as a value: %s' % src, n)
        raise self.err('attribute %s' % src, n)

    def binop(self, n):
        a, b = self.unopt(self.ex(n.left)), self.unopt(self.ex(n.right))
        op = type(n.op)
        if a.kind == 'I' and b.kind == 'I' and op in (ast.Add, ast.Sub, ast.Mult, ast.Mod, ast.FloorDiv):
            sym = {ast.Add: '+', ast.Sub: '-', ast.Mult: '*', ast.Mod: '%', ast.FloorDiv: '/'}[op]
            return V('(%s %s %s)' % (a.term, sym, b.term), 'I')
        if a.kind in ('I', 'R') and b.kind in ('I', 'R') and op in (ast.Add, ast.Sub, ast.Mult, ast.Div):
            f = {ast.Add: 'radd', ast.Sub: 'rsub', ast.Mult: 'rmul', ast.Div: 'rdiv'}[op]
            ta = a.term if a.kind == 'R' else '(E.rofInt %s)' % a.term
            tb = b.term if b.kind == 'R' else '(E.rofInt %s)' % b.term
            return V('(E.%s %s %s)' % (f, ta, tb), 'R')
        if op is ast.Pow and isinstance(n.right, ast.Constant) and isinstance(n.right.value, int) and (is_tensor(a.kind)):
            return V('(E.powInt %s %d)' % (self.tens(a, n), n.right.value), 'T')
        if (is_tensor(a.kind) or is_tensor(b.kind)) and op in (ast.Add, ast.Sub, ast.Mult, ast.Div):
            f = {ast.Add: 'add', ast.Sub: 'sub', ast.Mult: 'mul', ast.Div: 'div'}[op]
            ta = self.tens(a, n)
            tb = self.tens(b, n)
            return V('(E.%s %s %s)' % (f, ta, tb), 'T')
        raise self.err('operator in %s (kinds %s, %s)' % (ast.unparse(n), a.kind, b.kind), n)

    def index_terms(self, s, n):
        """a subscript as a list of Int terms; full slices at the end are dropped"""
        elts = list(s.elts) if isinstance(s, ast.Tuple) else [s]
        while elts and isinstance(elts[-1], ast.Slice) and elts[-1].lower is None and elts[-1].upper is None and elts[-1].step is None:
            elts.pop()
        out = []
        for e in elts:
            if isinstance(e, ast.Slice):
                raise self.err('slice in %s' % ast.unparse(n), n)
            v = self.unopt(self.ex(e))
            if v.kind != 'I':
                raise self.err('index %s of kind %s' % (ast.unparse(e), v.kind), n)
            out.append(v.term)
        return out

    def subscript(self, n):
        # x.shape[k]
        if isinstance(n.value, ast.Attribute) and n.value.attr == 'shape' and isinstance(n.slice, ast.Constant) and isinstance(n.slice.value, int):
            base = self.unopt(self.ex(n.value.value))
            if not is_tensor(base.kind):
                raise self.err('shape of a %s' % (base.kind,), n)
            return V('(E.dim %s %d)' % (self.tens(base, n), n.slice.value), 'I')
        base = self.unopt(self.ex(n.value))
        if isinstance(base.kind, tuple) and base.kind[0] == 'list':
            idx = self.unopt(self.ex(n.slice))
            if idx.kind != 'I':
                raise self.err('list index of kind %s' % (idx.kind,), n)
            x = self.fresh('i')
            it = idx.term if not idx.term.isdigit() else idx.term
            self.emit('let %s ← %s[%s]?' % (x, base.term, it if it.isdigit() else '%s.toNat' % it if it.replace('_', '').isalnum() else '(%s).toNat' % it))
            return V(x, base.kind[1])
        if base.kind == 'Dict':
            key = self.unopt(self.ex(n.slice))
            if key.kind != 'S':
                raise self.err('dictionary key of kind %s' % (key.kind,), n)
            x = self.fresh('i')
            self.emit('let %s ← %s.lookup %s' % (x, base.term, key.term))
            return V(x, 'R')
        if is_tensor(base.kind):
            idx = self.index_terms(n.slice, n)
            if not idx:
                return V(self.tens(base, n), 'T')
            return V('(E.getIdx %s [%s])' % (self.tens(base, n), ', '.join(idx)), 'T')
        raise self.err('subscript %s' % ast.unparse(n), n)

    def bound(self, fn, call, skip):
        params = [a.arg for a in fn.args.args][skip:]
        allp = [a.arg for a in fn.args.args]
        dmap = {}
        for i, d in enumerate(fn.args.defaults):
            dmap[allp[len(allp) - len(fn.args.defaults) + i]] = d
        got = {}
        for i, a in enumerate(call.args):
            if i >= len(params):
                raise self.err('too many arguments in %s' % ast.unparse(call), call)
            got[params[i]] = a
        for kw in call.keywords:
            if kw.arg not in params or kw.arg in got:
                raise self.err('keyword %s in %s' % (kw.arg, ast.unparse(call)), call)
            got[kw.arg] = kw.value
        out = []
        for p in params:
            if p in got:
                out.append((p, got[p]))
            elif p in dmap:
                out.append((p, dmap[p]))
            else:
                raise self.err('argument %s missing in %s' % (p, ast.unparse(call)), call)
        return out

    def method_call(self, mname, call):
        res = self.cm.method(mname)
        fn = self.cm.methods[mname]
        args = []
        kinds = {p: k for p, k, _ in res.params}
        for p, node in self.bound(fn, call, 1):
            v = self.ex(node)
            args.append(self.coerce(v, kinds[p], call, 'argument %s of %s' % (p, mname)))
        r = self.fresh('r')
        self.emit('let %s ← %s E self_ heap_%s' % (r, self.cm.fn_name(mname), ''.join(' ' + a for a in args)))
        self.emit('self_ := %s.1' % r)
        self.emit('heap_ := %s.2.1' % r)
        self.emit('log_ := log_ ++ %s.2.2.2' % r)
        return V('%s.2.2.1' % r, res.ret_kind)

    def call(self, n):
        f = n.func
        src = ast.unparse(f)
        a0 = self_attr(f)
        if a0 is not None and a0 in self.cm.methods:
            return self.method_call(a0, n)
        if a0 is not None and a0 in self.cm.fn_attrs:
            op, extra = self.cm.fn_attrs[a0]
            x = self.fresh('v')
            self.emit('let %s ← self_.%s' % (x, a0))
            ts = [self.tens(self.ex(a), n) for a in n.args]
            return V('(E.%s %s %s)' % (op, x, ' '.join(ts)), 'T')
        if src == 'self' or (isinstance(f, ast.Name) and f.id == 'self'):
            return self.method_call('__call__', n)
        if src == 'len' and len(n.args) == 1:
            a = n.args[0]
            if isinstance(a, ast.Attribute) and a.attr == 'shape':
                return V('(E.rank %s)' % self.tens(self.ex(a.value), n), 'I')
            v = self.unopt(self.ex(a))
            if isinstance(v.kind, tuple) and v.kind[0] == 'list':
                return V('(%s.length : Int)' % v.term, 'I')
            if v.kind == 'Dict':
                return V('(%s.length : Int)' % v.term, 'I')
            raise self.err('len() of a %s' % (v.kind,), n)
        if src == 'list' and len(n.args) == 1:
            return self.ex(n.args[0])
        if src == 'isinstance':
            return V(self.cond(n), 'Bool')
        if src == 'torch.as_tensor' and len(n.args) == 1:
            return self.ex(n.args[0])                             # the same object when a tensor is passed
        if src in self.cm.calls:
            spec = self.cm.calls[src]
            if callable(spec):
                return spec(self, n)
            return self.op_call(spec, n, None)
        if isinstance(f, ast.Attribute):
            if f.attr == 'keys' and not n.args:
                d = self.unopt(self.ex(f.value))
                if d.kind == 'Dict':
                    return V('(%s.map Prod.fst)' % d.term, ('list', 'S'))
            base = self.unopt(self.ex(f.value))
            if is_tensor(base.kind):
                if f.attr in ALIAS_METHODS:
                    return base                                   # the same object / the same value
                if f.attr == 'clone' and not n.args:
                    return V(self.val(base).term, 'T')            # a copy nobody else holds
                key = '.' + f.attr
                if key in self.cm.calls:
                    if callable(self.cm.calls[key]):
                        return self.cm.calls[key](self, n, base)
                    return self.op_call(self.cm.calls[key], n, base)
        raise self.err('call %s' % ast.unparse(n), n)

    def op_call(self, spec, n, recv):
        if isinstance(spec, tuple) and spec[0] == 'module':
            # a sub-module (a learned metric): represented by its name; what it keeps inside is not part of the model
            return V('"%s"' % spec[2], ('fn', spec[1]))
        if isinstance(spec, tuple) and spec[0] == 'loss_ctor':
            # torch.nn.MSELoss(reduction = ..): a loss module, represented by its reduction
            red = None
            for kw in n.keywords:
                if kw.arg == 'reduction':
                    red = self.unopt(self.ex(kw.value))
            if n.args or red is None or red.kind != 'S':
                raise self.err('loss module %s' % ast.unparse(n), n)
            return V(red.term, ('fn', spec[1]))
        if spec.op not in self.cm.ops:
            raise self.err('numeric %s is not declared' % spec.op, n)
        got = {}
        names = [p[0] for p in spec.params]
        pos = [p[0] for p in spec.params if not p[0].startswith('=')]
        args = list(n.args)
        for i, a in enumerate(args):
            if i >= len(pos):
                raise self.err('too many positional arguments in %s' % ast.unparse(n), n)
            got[pos[i]] = a
        for kw in n.keywords:
            if kw.arg in spec.ignore:
                continue
            key = kw.arg if kw.arg in names else '=' + kw.arg
            if key not in names or key in got:
                raise self.err('keyword %s in %s' % (kw.arg, ast.unparse(n)), n)
            got[key] = kw.value
        ts = []
        if recv is not None:
            ts.append(self.tens(recv, n))
        for name, kind in spec.params:
            if name not in got:
                if name in spec.defaults:
                    ts.append(spec.defaults[name])
                    continue
                raise self.err('argument %s missing in %s' % (name.lstrip('='), ast.unparse(n)), n)
            node = got[name]
            if kind == 'T':
                ts.append(self.tens(self.ex(node), n))
            elif kind == 'shape':
                # a tuple / list of ints, possibly written inline
                if isinstance(node, (ast.Tuple, ast.List)):
                    vs = [self.unopt(self.ex(e)) for e in node.elts]
                    if any(v.kind != 'I' for v in vs):
                        raise self.err('shape %s' % ast.unparse(node), n)
                    ts.append('[%s]' % ', '.join(v.term for v in vs))
                else:
                    v = self.unopt(self.ex(node))
                    if v.kind != ('list', 'I'):
                        raise self.err('shape %s' % ast.unparse(node), n)
                    ts.append(v.term)
            else:
                v = self.ex(node)
                ts.append(self.coerce(v, kind, n, 'argument %s of %s' % (name.lstrip('='), spec.op)))
        if spec.params and spec.params[0][0] == '*shape':
            raise self.err('internal: *shape', n)
        term = '(E.%s%s)' % (spec.op, ''.join(' ' + t for t in ts))
        return V(term, spec.result)

    # ------------------------------------------------------------------ conditions
    def capture(self, f):
        saved, self.lines = self.lines, []
        saved_ind, self.ind = self.ind, 0
        try:
            term = f()
        finally:
            binds, self.lines, self.ind = self.lines, saved, saved_ind
        return [b for b in binds], term

    def cond_ir(self, n):
        if isinstance(n, ast.BoolOp):
            return ('or' if isinstance(n.op, ast.Or) else 'and', [self.cond_ir(v) for v in n.values])
        if isinstance(n, ast.UnaryOp) and isinstance(n.op, ast.Not):
            inner = self.cond_ir(n.operand)
            if inner[0] == 'atom':
                return ('atom', inner[1], '(!%s)' % inner[2])
            if inner[0] == 'pure':
                return ('pure', '(!%s)' % inner[1])
            return ('not', inner)
        binds, term = self.capture(lambda: self.atom(n))
        return ('atom', binds, term) if binds else ('pure', term)

    def none_test(self, x, positive, n):
        """`x is None` (positive) / `x is not None`"""
        a = self_attr(x)
        if a is not None:
            if a not in self.cm.fields:
                raise self.err('attribute self.%s is never stored by the class' % a, n)
            return 'self_.%s.%s' % (a, 'isNone' if positive else 'isSome')
        if isinstance(x, ast.Name) and x.id in self.env:
            k = self.env[x.id]
            if isinstance(k, tuple) and k[0] == 'opt':
                return '%s.%s' % (self.lean.get(x.id, x.id), 'isNone' if positive else 'isSome')
            return 'false' if positive else 'true'
        raise self.err('None test of %s' % ast.unparse(x), n)

    def atom(self, n):
        if isinstance(n, ast.Call) and ast.unparse(n.func) == 'isinstance' and len(n.args) == 2 and ast.unparse(n.args[1]) == 'type(None)':
            return self.none_test(n.args[0], True, n)
        if isinstance(n, ast.Compare) and len(n.ops) == 1:
            op, l, r = n.ops[0], n.left, n.comparators[0]
            if isinstance(op, (ast.Is, ast.IsNot, ast.Eq, ast.NotEq)) and isinstance(r, ast.Constant) and r.value is None:
                return self.none_test(l, isinstance(op, (ast.Is, ast.Eq)), n)
            a, b = self.unopt(self.ex(l)), self.unopt(self.ex(r))
            if isinstance(op, (ast.Eq, ast.NotEq)):
                if a.kind != b.kind or a.kind not in ('I', 'S', 'Bool', 'R'):
                    raise self.err('comparison %s of kinds %s, %s' % (ast.unparse(n), a.kind, b.kind), n)
                return '(decide (%s %s %s))' % (a.term, '=' if isinstance(op, ast.Eq) else '≠', b.term)
            if isinstance(op, (ast.Lt, ast.LtE, ast.Gt, ast.GtE)) and a.kind == 'I' and b.kind == 'I':
                return '(decide (%s %s %s))' % (a.term, {ast.Lt: '<', ast.LtE: '≤', ast.Gt: '>', ast.GtE: '≥'}[type(op)], b.term)
            if isinstance(op, (ast.Lt, ast.LtE, ast.Gt, ast.GtE)) and (is_tensor(a.kind) or is_tensor(b.kind)):
                f = {ast.Lt: 'lt', ast.LtE: 'le', ast.Gt: 'gt', ast.GtE: 'ge'}[type(op)]
                return '(E.truthy (E.%s %s %s))' % (f, self.tens(a, n), self.tens(b, n))
            raise self.err('comparison %s' % ast.unparse(n), n)
        v = self.unopt(self.ex(n))
        if v.kind == 'Bool':
            return v.term
        if is_tensor(v.kind):
            return '(E.truthy %s)' % self.tens(v, n)
        if v.kind == 'R':
            return '(E.rtruthy %s)' % v.term
        if v.kind == 'I':
            return '(decide (%s ≠ 0))' % v.term
        raise self.err('condition %s has kind %s' % (ast.unparse(n), v.kind), n)

    def pure_term(self, ir):
        if ir[0] == 'pure':
            return ir[1]
        if ir[0] == 'atom':
            return None
        if ir[0] == 'not':
            t = self.pure_term(ir[1])
            return None if t is None else '(!%s)' % t
        ts = [self.pure_term(x) for x in ir[1]]
        if any(t is None for t in ts):
            return None
        return '(' + (' || ' if ir[0] == 'or' else ' && ').join(ts) + ')'

    def render_m(self, ir, ind, out):
        pad = '  ' * ind
        t = self.pure_term(ir)
        if t is not None:
            out.append(pad + 'pure %s' % t)
            return
        if ir[0] == 'atom':
            out += [pad + b for b in ir[1]]
            out.append(pad + 'pure %s' % ir[2])
            return
        if ir[0] == 'not':
            b = self.fresh('b')
            out.append(pad + 'let %s ← (do' % b)
            self.render_m(ir[1], ind + 1, out)
            out[-1] += ')'
            out.append(pad + 'pure (!%s)' % b)
            return
        items = ir[1]
        for i, x in enumerate(items):
            if i == len(items) - 1:
                self.render_m(x, ind, out)
                return
            t = self.pure_term(x)
            if t is None and x[0] == 'atom':
                out += [pad + b for b in x[1]]
                t = x[2]
            elif t is None:
                b = self.fresh('b')
                out.append(pad + 'let %s ← (do' % b)
                self.render_m(x, ind + 1, out)
                out[-1] += ')'
                t = b
            if ir[0] == 'or':
                out.append(pad + 'if %s then pure true else do' % t)
            else:
                out.append(pad + 'if !%s then pure false else do' % t)

    def cond(self, n):
        ir = self.cond_ir(n)
        t = self.pure_term(ir)
        if t is not None:
            return t
        if ir[0] == 'atom':
            for b in ir[1]:
                self.emit(b)
            return ir[2]
        c = self.fresh('c')
        out = []
        self.render_m(ir, self.ind + 1, out)
        self.emit('let %s ← (do' % c)
        self.lines += out
        self.lines[-1] += ')'
        return c

    # ------------------------------------------------------------------ statements
    def assign_local(self, name, v, node=None):
        if v.kind == 'None':
            raise self.err('None assigned to local %s' % name, node)
        k = self.env.get(name)
        ln = self.lean.get(name, name)
        if v.kind == 'T' and (name in self.objn or k == 'B' or k == ('opt', 'B')):
            v = self.alloc(v.term)                         # a new object bound to a name that is used as an object
        if v.kind == 'B' and (k == 'T' or k == ('opt', 'T')) and name not in self.objn:
            v = self.val(v)                                # a name that is only ever an operand takes the content
        if isinstance(k, tuple) and k[0] == 'opt':
            if isinstance(v.kind, tuple) and v.kind[0] == 'opt':
                if v.kind != k:
                    raise self.err('local %s changes kind (%s -> %s)' % (name, k, v.kind), node)
                self.emit('%s := %s' % (ln, v.term))
                return
            if k[1] != v.kind:
                raise self.err('local %s changes kind (%s -> %s)' % (name, k[1], v.kind), node)
            self.emit('%s := some %s' % (ln, v.term))
        elif name in self.env:
            if k != v.kind:
                raise self.err('local %s changes kind (%s -> %s)' % (name, k, v.kind), node)
            self.emit('%s := %s' % (ln, v.term))
        else:
            self.env[name] = v.kind
            self.emit('let mut %s : %s := %s' % (ln, lty(v.kind), v.term))

    def store_attr(self, a, v, node=None):
        if v.kind == 'None':
            if a not in self.cm.fields:
                raise self.err('internal: field %s' % a, node)
            self.emit('self_ := { self_ with %s := none }' % a)
            self.emit('log_ := log_ ++ ["%s"]' % a)
            return
        if isinstance(v.kind, tuple) and v.kind[0] == 'fn':
            self.cm.fn_attrs[a] = (v.kind[1], None)
            cur = self.cm.fields.get(a)
            if cur not in (None, 'S'):
                raise self.err('self.%s holds a %s, a loss module is stored' % (a, cur), node)
            self.cm.fields[a] = 'S'
            self.emit('self_ := { self_ with %s := some %s }' % (a, v.term))
            self.emit('log_ := log_ ++ ["%s"]' % a)
            return
        k = self.cm.attr_kind_for_store(a, v.kind)
        if isinstance(k, tuple) and k[0] == 'tuple' and k != v.kind:
            if not (isinstance(v.kind, tuple) and v.kind[0] == 'tuple' and len(v.kind[1]) == len(k[1])):
                raise self.err('self.%s holds a %s, a %s is stored' % (a, k, v.kind), node)
            p = self.fresh('p')
            self.emit('let %s := %s' % (p, v.term))
            m = len(k[1])
            parts = []
            for i, (have, want) in enumerate(zip(v.kind[1], k[1])):
                proj = p + '.2' * i + ('.1' if i < m - 1 else '')
                parts.append(self.coerce(V(proj, have), want, node, 'element %d of self.%s' % (i, a)))
            v = V('(%s)' % ', '.join(parts), k)
        opt = isinstance(v.kind, tuple) and v.kind[0] == 'opt'
        base = v.kind[1] if opt else v.kind
        if opt:
            if base != k:
                raise self.err('an optional %s is stored into self.%s, which holds a %s' % (base, a, k), node)
            self.emit('self_ := { self_ with %s := %s }' % (a, v.term))
        else:
            if (base, k) == ('T', 'B'):
                v = self.alloc(v.term)                      # a new object kept by the attribute
            elif (base, k) == ('B', 'T'):
                v = self.val(v)
            self.emit('self_ := { self_ with %s := some %s }' % (a, v.term))
        self.emit('log_ := log_ ++ ["%s"]' % a)

    def store_subscript(self, t, value, node, aug=None):
        base = subscript_base(t)
        if base is not t.value:
            raise self.err('nested subscript store %s' % ast.unparse(t), node)
        bv = self.unopt(self.ex(base))
        if bv.kind != 'B':
            raise self.err('in-place store into %s, which is not an object' % ast.unparse(base), node)
        idx = self.index_terms(t.slice, node)
        vt = self.tens(value, node)
        d = self.fresh('d')
        self.emit('let %s ← heap_.get %s' % (d, bv.term))
        if aug is not None:
            vt = '(E.%s (E.getIdx %s [%s]) %s)' % (aug, d, ', '.join(idx), vt)
        self.emit('heap_ := heap_.set %s (E.setIdx %s [%s] %s)' % (bv.term, d, ', '.join(idx), vt))
        a = self_attr(base)
        if a is not None:
            self.emit('log_ := log_ ++ ["%s[]"]' % a)

    def names_stored(self, stmts):
        out = []
        for s in stmts:
            for n in ast.walk(s):
                if isinstance(n, ast.Name) and isinstance(n.ctx, ast.Store) and n.id not in out:
                    out.append(n.id)
        return out

    def loaded_outside(self, name, inside):
        inner = set(id(x) for s in inside for x in ast.walk(s))
        for n in ast.walk(self.fn):
            if isinstance(n, ast.Name) and n.id == name and isinstance(n.ctx, ast.Load) and id(n) not in inner:
                return True
        return False

    def dry_kinds(self, stmts):
        saved = (self.lines, self.ind, list(self.counter), dict(self.env), dict(self.cm.fields), self.ret_kind, list(self.aux), list(self.loopno),
                 dict(self.cm.fn_attrs))
        self.lines = []
        try:
            self.block(stmts)
            return dict(self.env)
        except TranslateError:
            return dict(self.env)
        finally:
            self.lines, self.ind, c, self.env, f, self.ret_kind, self.aux, l, fa = saved
            self.counter[0] = c[0]
            self.loopno[0] = l[0]
            self.cm.fields.clear()
            self.cm.fields.update(f)
            self.cm.fn_attrs.clear()
            self.cm.fn_attrs.update(fa)

    def block(self, stmts):
        regions = self.cm.spec.get('regions', {}).get(self.mname, ())
        spans = {i: (reg, j) for reg, i, j in region_spans(stmts, regions)}
        i = 0
        while i < len(stmts):
            if i in spans:
                reg, j = spans[i]
                self.region(reg, stmts[i:j])
                i = j
                continue
            self.stmt(stmts[i])
            i += 1

    def region(self, reg, stmts):
        known = set()
        for n in self.cm.tree.body:
            if isinstance(n, (ast.Import, ast.ImportFrom)):
                for a in n.names:
                    known.add((a.asname or a.name).split('.')[0])
            elif isinstance(n, (ast.FunctionDef, ast.ClassDef)):
                known.add(n.name)
        known |= {'range', 'len', 'print', 'zip', 'list', 'type', 'True', 'False', 'None', 'int', 'float', 'abs', 'isinstance', 'self'}
        defined, free = set(), set()
        attrs_read = set()
        for s in stmts:
            for n in ast.walk(s):
                for t in targets_of(n):
                    if self_attr(t) is not None or self_attr(subscript_base(t)) is not None:
                        raise self.err('the numerics block `%s …` stores self.%s' % (reg.start, self_attr(subscript_base(t))), s)
                if isinstance(n, (ast.Return, ast.Raise)):
                    raise self.err('the numerics block `%s …` returns / raises' % reg.start, s)
                if isinstance(n, ast.Call) and self_attr(n.func) is not None and self_attr(n.func) in self.cm.methods:
                    attrs_read.add('()' + self_attr(n.func))
                elif isinstance(n, ast.Attribute) and isinstance(n.ctx, ast.Load) and self_attr(n) is not None:
                    attrs_read.add(n.attr)
            stored_here = set(x.id for x in ast.walk(s) if isinstance(x, ast.Name) and isinstance(x.ctx, ast.Store))
            local = stored_here if not isinstance(s, (ast.Assign, ast.AugAssign, ast.Expr)) else set()
            for n in ast.walk(s):
                if isinstance(n, ast.Name) and isinstance(n.ctx, ast.Load) and n.id not in defined and n.id not in known and n.id not in (local - set(self.env)):
                    free.add(n.id)
            defined |= stored_here
        attrs_read = set(a for a in attrs_read if not ('()' + a) in attrs_read and not a.startswith('()') or a.startswith('()'))
        want_names = set(a for a in reg.args if not a.startswith('self.'))
        want_attrs = set(a[5:] for a in reg.args if a.startswith('self.'))
        got_attrs = set(a for a in attrs_read if not a.startswith('()') and a != 'device')
        calls = set(a[2:] for a in attrs_read if a.startswith('()'))
        got_attrs -= calls
        if free != want_names or got_attrs != want_attrs or calls:
            raise self.err('the numerics block `%s …` reads %s%s, the uninterpreted `%s` receives %s'
                           % (reg.start, sorted(free) + ['self.' + c for c in sorted(got_attrs)],
                              ' and calls self.%s' % sorted(calls) if calls else '', reg.op, reg.args))
        for r in reg.results:
            if r not in defined:
                raise self.err('the numerics block `%s …` does not define %s' % (reg.start, r))
        if reg.op not in self.cm.ops:
            raise self.err('numeric %s is not declared' % reg.op)
        ts = []
        for a in reg.args:
            if a.startswith('self.'):
                v = self.attribute(ast.Attribute(value=ast.Name(id='self', ctx=ast.Load()), attr=a[5:], ctx=ast.Load()))
            else:
                v = self.ex(ast.Name(id=a, ctx=ast.Load()))
            if isinstance(v.kind, tuple) and v.kind[0] == 'opt' and v.kind[1] == 'B':
                c = self.fresh('c')
                self.emit('let %s ← heap_.getOpt %s' % (c, v.term))
                ts.append(c)
            elif v.kind == 'B':
                ts.append(self.val(v).term)
            else:
                ts.append(v.term)
        r = self.fresh('g')
        self.emit('let %s := E.%s %s' % (r, reg.op, ' '.join(ts)))
        n = len(reg.results)
        for i, name in enumerate(reg.results):
            proj = r if n == 1 else r + '.2' * i + ('.1' if i < n - 1 else '')
            k = self.env.get(name)
            if isinstance(k, tuple) and k[0] == 'opt' and k[1] in ('T', 'B'):
                # an optional parameter that the block replaces by a tensor
                self.env.pop(name)
                self.lean[name] = name + '_v'
                self.emit('let mut %s : T := %s' % (self.lean[name], proj))
                self.env[name] = 'T'
            elif k == 'B':
                raise self.err('the numerics block `%s …` rebinds the object %s' % (reg.start, name))
            else:
                self.assign_local(name, V(proj, 'T'))

    def skip_call(self, c):
        src = ast.unparse(c.func)
        return src.startswith('logging.') or src in ('print', 'torch.no_grad', 'torch.cuda.empty_cache', 'torch.random.seed', 'torch.manual_seed') \
            or src in self.cm.spec.get('skip_calls', ())

    def only_logging(self, stmts):
        return all(isinstance(s, ast.Expr) and isinstance(s.value, ast.Call) and self.skip_call(s.value) for s in stmts)

    def stmt(self, s):
        if isinstance(s, ast.Expr) and isinstance(s.value, ast.Constant):
            return
        if isinstance(s, (ast.Pass, ast.Import, ast.ImportFrom, ast.Delete)):
            return
        if isinstance(s, ast.Expr) and isinstance(s.value, ast.Call):
            if self.skip_call(s.value):
                if ast.unparse(s.value.func) == 'torch.no_grad':
                    self.emit('-- torch.no_grad()  (a context manager that is created and dropped: no effect)')
                return
            self.ex(s.value)
            return
        if isinstance(s, ast.Assign) and len(s.targets) == 1:
            t = s.targets[0]
            a = self_attr(t)
            if a is not None:
                self.store_attr(a, self.ex(s.value), s)
                return
            if isinstance(t, ast.Name):
                self.assign_local(t.id, self.ex(s.value), s)
                return
            if isinstance(t, ast.Subscript):
                self.store_subscript(t, self.ex(s.value), s)
                return
            if isinstance(t, ast.Attribute) and t.attr == 'requires_grad':
                r = alias_root(t.value)
                bv = self.unopt(self.ex(t.value))
                if bv.kind != 'B':
                    raise self.err('flag store on %s, which is not an object' % ast.unparse(t.value), s)
                if r and r.startswith('attr:'):
                    self.emit('log_ := log_ ++ ["%s.requires_grad"]' % r[5:])
                return
            if isinstance(t, ast.Tuple) and all(isinstance(e, ast.Name) for e in t.elts):
                v = self.ex(s.value)
                if not (isinstance(v.kind, tuple) and v.kind[0] == 'tuple' and len(v.kind[1]) == len(t.elts)):
                    raise self.err('tuple assignment %s' % ast.unparse(s).split('\n')[0], s)
                p = self.fresh('p')
                self.emit('let %s := %s' % (p, v.term))
                m = len(t.elts)
                for i, e in enumerate(t.elts):
                    proj = p + '.2' * i + ('.1' if i < m - 1 else '')
                    self.assign_local(e.id, V(proj, v.kind[1][i]), s)
                return
            raise self.err('assignment target %s' % ast.unparse(t), s)
        if isinstance(s, ast.AugAssign):
            ops = {ast.Add: 'add', ast.Sub: 'sub', ast.Mult: 'mul', ast.Div: 'div'}
            if type(s.op) not in ops:
                raise self.err('augmented assignment %s' % ast.unparse(s), s)
            t = s.target
            a = self_attr(t)
            if isinstance(t, ast.Name) or a is not None:
                cur = self.ex(t if isinstance(t, ast.Name) else ast.Attribute(value=ast.Name(id='self', ctx=ast.Load()), attr=a, ctx=ast.Load()))
                cur = self.unopt(cur)
                v = self.unopt(self.ex(s.value))
                if cur.kind == 'B':
                    raise self.err('in-place arithmetic on the object %s' % ast.unparse(t), s)
                if cur.kind == 'I' and v.kind == 'I':
                    new = V('(%s %s %s)' % (cur.term, {ast.Add: '+', ast.Sub: '-', ast.Mult: '*', ast.Div: '/'}[type(s.op)], v.term), 'I')
                elif cur.kind == 'T' or is_tensor(v.kind):
                    if cur.kind not in ('T', 'R', 'I'):
                        raise self.err('augmented assignment %s' % ast.unparse(s), s)
                    if cur.kind != 'T':
                        raise self.err('a %s accumulator becomes a tensor in %s' % (cur.kind, ast.unparse(s)), s)
                    new = V('(E.%s %s %s)' % (ops[type(s.op)], cur.term, self.tens(v, s)), 'T')
                elif cur.kind == 'R':
                    new = V('(E.r%s %s %s)' % (ops[type(s.op)], cur.term, self.coerce(v, 'R', s)), 'R')
                else:
                    raise self.err('augmented assignment %s' % ast.unparse(s), s)
                if a is not None:
                    self.store_attr(a, new, s)
                else:
                    self.assign_local(t.id, new, s)
                return
            if isinstance(t, ast.Subscript):
                self.store_subscript(t, self.ex(s.value), s, aug=ops[type(s.op)])
                return
            raise self.err('augmented assignment %s' % ast.unparse(s), s)
        if isinstance(s, ast.If):
            if self.only_logging(s.body) and not s.orelse:
                self.emit('-- if %s: …  (no effect: logging, or a context manager that is created and dropped)' % ast.unparse(s.test))
                return
            new = [x for x in self.names_stored(s.body + s.orelse) if x not in self.env and self.loaded_outside(x, [s])]
            if new:
                kinds = {}
                for br in (s.body, s.orelse):
                    if br:
                        for k, v in self.dry_kinds(br).items():
                            if k in new and k not in kinds:
                                kinds[k] = v
                            elif k in new and {kinds[k], v} == {'T', 'B'}:
                                kinds[k] = 'B' if k in self.objn else 'T'
                for x in new:
                    if x not in kinds:
                        raise self.err('kind of local %s' % x, s)
                    k = kinds[x]
                    if isinstance(k, tuple) and k[0] == 'opt':
                        k = k[1]
                    if k == 'T' and x in self.objn:
                        k = 'B'
                    self.env[x] = ('opt', k)
                    self.emit('let mut %s : Option %s := none' % (x, lty_atom(k)))
            c = self.cond(s.test)
            self.emit('if %s then' % c)
            self.scoped(s.body)
            if s.orelse:
                self.emit('else')
                self.scoped(s.orelse)
            return
        if isinstance(s, ast.For) and not s.orelse:
            self.loop(s)
            return
        if isinstance(s, ast.With) and len(s.items) == 1 and ast.unparse(s.items[0].context_expr) == 'torch.no_grad()' and s.items[0].optional_vars is None:
            self.emit('-- with torch.no_grad():  (the values computed inside carry no autograd graph)')
            self.block(s.body)
            return
        if isinstance(s, ast.Return):
            if self.in_loop:
                raise self.err('return inside a loop', s)
            self.ret(s)
            return
        if isinstance(s, ast.Raise):
            self.emit('none')
            return
        raise self.err('statement %s' % ast.unparse(s).split('\n')[0], s)

    def ret(self, s):
        if s.value is None:
            v = V('()', 'Unit')
        elif isinstance(s.value, ast.Tuple):
            vs = []
            for e in s.value.elts:
                x = self.unopt(self.ex(e))
                if x.kind == 'None':
                    raise self.err('None in a returned tuple', s)
                vs.append(x)
            v = V('(%s)' % ', '.join(x.term for x in vs), ('tuple', tuple(x.kind for x in vs)))
        else:
            v = self.unopt(self.ex(s.value))
        if v.kind == 'None':
            v = V('()', 'Unit')
        if self.ret_kind is not None and self.ret_kind != v.kind:
            if {self.ret_kind, v.kind} == {'T', 'B'}:
                if v.kind == 'T':
                    v = self.alloc(v.term)
                else:
                    raise self.err('returns a value and an object on different paths (object path second)', s)
            else:
                raise self.err('returns a %s and a %s' % (self.ret_kind, v.kind), s)
        self.ret_kind = v.kind
        self.emit('return (self_, heap_, %s, log_)' % v.term)

    def scoped(self, stmts):
        saved = dict(self.env)
        self.ind += 1
        n0 = len(self.lines)
        self.block(stmts)
        if not any(not l.strip().startswith('--') for l in self.lines[n0:]):
            self.emit('pure ()')
        self.ind -= 1
        self.env = dict((k, v) for k, v in self.env.items() if k in saved)

    # ------------------------------------------------------------------ loops
    def loop(self, s):
        it = s.iter
        elem_ty, elem_bind = None, None
        if isinstance(it, ast.Call) and ast.unparse(it.func) == 'range' and len(it.args) in (1, 2) and isinstance(s.target, ast.Name):
            if len(it.args) == 1:
                hi = self.unopt(self.ex(it.args[0]))
                lo = None
            else:
                lo, hi = self.unopt(self.ex(it.args[0])), self.unopt(self.ex(it.args[1]))
                if lo.kind != 'I':
                    raise self.err('loop bound of kind %s' % (lo.kind,), s)
            if hi.kind != 'I':
                raise self.err('loop bound of kind %s' % (hi.kind,), s)
            if lo is None or lo.term == '0':
                lst = '(List.range %s.toNat)' % (hi.term if hi.term.replace('_', '').isalnum() else '(%s)' % hi.term)
                elem_bind = 'let %s : Int := k_' % s.target.id
            else:
                lst = '(List.range (%s - %s).toNat)' % (hi.term, lo.term)
                elem_bind = 'let %s : Int := %s + k_' % (s.target.id, lo.term)
            elem_ty, var_kind = 'Nat', 'I'
        elif isinstance(s.target, ast.Name):
            v = self.unopt(self.ex(it))
            if not (isinstance(v.kind, tuple) and v.kind[0] == 'list'):
                raise self.err('loop over a %s' % (v.kind,), s)
            lst = v.term
            elem_ty, var_kind = lty_atom(v.kind[1]), v.kind[1]
            elem_bind = 'let %s : %s := k_' % (s.target.id, elem_ty)
        else:
            raise self.err('loop %s' % ast.unparse(s).split('\n')[0], s)
        stored = self.names_stored(s.body)
        carried = [x for x in stored if x in self.env and x != s.target.id]
        for x in stored:
            if x not in self.env and x != s.target.id and self.loaded_outside(x, [s]):
                raise self.err('local %s is first assigned inside a loop and used after it' % x, s)
        closure = [(x, k) for x, k in self.env.items() if x not in carried and x != s.target.id]
        self.loopno[0] += 1
        fname = '%s_for%d' % (self.cm.fn_name(self.mname), self.loopno[0])
        state_ty = ' × '.join(['%s T R' % self.cm.S, 'Heap T', 'List String'] + [lty_atom(self.env[x]) for x in carried])
        sub = MethodTranslator(self.cm, self.mname, self.fn)
        sub.counter, sub.loopno, sub.aux = self.counter, self.loopno, self.aux
        sub.env = dict(self.env)
        sub.lean = dict(self.lean)
        sub.env[s.target.id] = var_kind
        sub.objn = self.objn
        sub.in_loop = True
        sub.ret_kind = self.ret_kind
        n = 3 + len(carried)

        def proj(i):
            return 'st_' + '.2' * i + ('.1' if i < n - 1 else '')
        sub.emit('let mut self_ := st_.1')
        sub.emit('let mut heap_ := st_.2.1')
        sub.emit('let mut log_ := %s' % proj(2))
        for i, x in enumerate(carried):
            sub.emit('let mut %s := %s' % (self.lean.get(x, x), proj(3 + i)))
        sub.emit(elem_bind)
        sub.block(s.body)
        lcarried = [self.lean.get(x, x) for x in carried]
        sub.emit('return (%s)' % ', '.join(['self_', 'heap_', 'log_'] + lcarried))
        head = 'def %s (E : %s T R)%s (st_ : %s) (k_ : %s) : Option (%s) := do' % (
            fname, self.cm.opsname, ''.join(' (%s : %s)' % (self.lean.get(x, x), lty(k)) for x, k in closure), state_ty, elem_ty, state_ty)
        doc = '/-- one pass of the loop `%s` of `%s.%s` (line %d) -/' % (ast.unparse(s).split('\n')[0].rstrip(':'), self.cm.name, self.mname, s.lineno)
        self.aux.append('\n'.join([doc, head] + sub.lines))
        st = self.fresh('st')
        self.emit('let %s ← %s.foldlM (%s E%s) (%s)' % (st, lst, fname, ''.join(' ' + self.lean.get(x, x) for x, _ in closure), ', '.join(['self_', 'heap_', 'log_'] + lcarried)))
        self.emit('self_ := %s.1' % st)
        self.emit('heap_ := %s.2.1' % st)
        self.emit('log_ := %s' % (st + '.2.2' + ('.1' if n > 3 else '')))
        for i, x in enumerate(lcarried):
            self.emit('%s := %s' % (x, st + '.2' * (3 + i) + ('.1' if 3 + i < n - 1 else '')))

    # ------------------------------------------------------------------ a whole method
    def translate(self):
        fn = self.fn
        params = self.cm.param_kinds(self.mname)
        stored = set(self.names_stored(fn.body))
        for p, k, _ in params:
            self.env[p] = k
        self.emit('let mut self_ := self_')
        self.emit('let mut heap_ := heap_')
        self.emit('let mut log_ : List String := []')
        for p, k, _ in params:
            if p in stored:
                self.emit('let mut %s := %s' % (p, p))
        self.block(fn.body)
        last = fn.body[-1]
        if not isinstance(last, (ast.Return, ast.Raise)):
            if self.ret_kind not in (None, 'Unit'):
                if not (isinstance(last, ast.If) and last.orelse):
                    raise self.err('falls off the end after returning a value')
            else:
                self.ret_kind = 'Unit'
                self.emit('return (self_, heap_, (), log_)')
        if self.ret_kind is None:
            raise self.err('no return value')
        head = 'def %s (E : %s T R) (self_ : %s T R) (heap_ : Heap T)%s : Option (%s T R × Heap T × %s × List String) := do' % (
            self.cm.fn_name(self.mname), self.cm.opsname, self.cm.S, ''.join(' (%s : %s)' % (p, lty(k)) for p, k, _ in params), self.cm.S,
            lty_atom(self.ret_kind))
        doc = '/-- `%s.%s(%s)` (%s), statement by statement; returns (object after the call, heap after the call, value, attributes stored in order)%s -/' % (
            self.cm.name, self.mname, ', '.join(p for p, _, _ in params), self.cm.spec['file'],
            '; objects among the parameters: %s' % [p for p, k, _ in params if k == 'B' or k == ('opt', 'B')] if any(k == 'B' or k == ('opt', 'B') for _, k, _ in params) else '')
        text = '\n\n'.join(self.aux + ['\n'.join([doc, head] + self.lines)])
        return MethodResult(params, self.ret_kind, text)


# ------------------------------------------------------------------------------------------------------------------ summaries
def effects_of(cm, fn):
    """(attributes read, ordered effects [('rebind' | 'inplace', attr)], methods of self called) of a method, flattened in source order"""
    reads, effects, calls = [], [], []
    made = set()                  # attributes rebound (unconditionally) so far: reading them reads an object this call created

    class Vis(ast.NodeVisitor):
        def __init__(self):
            self.depth = 0

        def visit_Assign(self, n):
            self.visit(n.value)
            for t in targets_of(n):
                a = self_attr(t)
                if a is not None:
                    effects.append(('rebind', a, self.depth))
                    if self.depth == 0:
                        made.add(a)
                else:
                    b = subscript_base(t)
                    a = self_attr(b)
                    if a is not None and b is not t:
                        effects.append(('inplace', a, self.depth))
                        for ch in ast.walk(t.slice):
                            if isinstance(ch, ast.Attribute):
                                self.visit(ch)
                    elif isinstance(t, ast.Attribute) and self_attr(t.value) is not None:
                        effects.append(('inplace', self_attr(t.value), self.depth))
                    else:
                        self.generic_visit(t)

        def visit_AugAssign(self, n):
            self.visit(n.value)
            a = self_attr(n.target)
            if a is not None:
                if a not in reads:
                    reads.append(a)
                effects.append(('rebind', a, self.depth))
            else:
                b = subscript_base(n.target)
                if self_attr(b) is not None:
                    effects.append(('inplace', self_attr(b), self.depth))

        def visit_Attribute(self, n):
            a = self_attr(n)
            if a is not None and isinstance(n.ctx, ast.Load):
                if a not in reads and a not in made:
                    reads.append(a)
            else:
                self.generic_visit(n)

        def visit_Call(self, n):
            a = self_attr(n.func)
            if a is not None and a in cm.methods:
                calls.append(a)
                for x in n.args:
                    self.visit(x)
                for k in n.keywords:
                    self.visit(k.value)
            else:
                self.generic_visit(n)

        def visit_If(self, n):
            self.visit(n.test)
            self.depth += 1
            for x in n.body + n.orelse:
                self.visit(x)
            self.depth -= 1

        def visit_For(self, n):
            self.visit(n.iter)
            self.depth += 1
            for x in n.body:
                self.visit(x)
            self.depth -= 1

        visit_While = visit_For
    v = Vis()
    for st in fn.body:
        v.visit(st)
    return reads, effects, calls


def summarise(cm, mname, s):
    fn = cm.methods[mname]
    reads, effects, calls = effects_of(cm, fn)
    if calls:
        raise TranslateError('%s.%s (summarised) calls self.%s' % (cm.name, mname, calls))
    reads = [a for a in reads if a != 'device']
    if sorted(reads) != sorted(s.reads + s.opt_reads):
        raise TranslateError('%s.%s reads the attributes %s, its summary `%s` receives %s' % (cm.name, mname, sorted(reads), s.op, sorted(s.reads + s.opt_reads)))
    params = cm.param_kinds(mname)
    used = [p for p, _, _ in params if any(isinstance(n, ast.Name) and n.id == p and isinstance(n.ctx, ast.Load) for n in ast.walk(fn))]
    if used != list(s.params):
        raise TranslateError('%s.%s uses its parameters %s, its summary `%s` receives %s' % (cm.name, mname, used, s.op, list(s.params)))
    for n in ast.walk(fn):
        if isinstance(n, ast.Return) and n.value is not None and s.ret is None:
            raise TranslateError('%s.%s (summarised) returns a value' % (cm.name, mname))
        if isinstance(n, ast.Return) and n.value is not None:
            for e in (n.value.elts if isinstance(n.value, ast.Tuple) else [n.value]):
                if alias_root(e) is not None and alias_root(e).startswith('attr:'):
                    raise TranslateError('%s.%s (summarised) returns the attribute %s itself' % (cm.name, mname, alias_root(e)[5:]))
        if isinstance(n, ast.Assign):
            for t in n.targets:
                a = self_attr(t)
                if a is not None and alias_root(n.value) is not None and not alias_root(n.value).startswith('attr:' + a):
                    raise TranslateError('%s.%s (summarised) stores an existing object into self.%s' % (cm.name, mname, a))
    # the objects the method creates / writes: rebinds at nesting depth 0 only; in-place writes of an attribute that was not rebound before in
    # this method go to the object the attribute held on entry
    outs = []                    # ('old', a) in-place on the entry object · ('new', a) the object the attribute holds on exit
    rebound = set()
    for kind, a, depth in effects:
        if kind == 'rebind':
            if depth > 0:
                raise TranslateError('%s.%s (summarised) stores self.%s under a condition or in a loop' % (cm.name, mname, a))
            rebound.add(a)
        elif a not in rebound and ('old', a) not in outs:
            outs.append(('old', a))
    for kind, a, depth in effects:
        if kind == 'rebind' and ('new', a) not in outs:
            outs.append(('new', a))
    for _, a in outs:
        if a not in cm.obj_attrs and any(k == 'old' and b == a for k, b in outs):
            raise TranslateError('%s.%s writes self.%s in place, which is not an object attribute' % (cm.name, mname, a))
    lines = ['  let mut self_ := self_', '  let mut heap_ := heap_', '  let mut log_ : List String := []']
    args = []
    for a in s.reads:
        k = cm.fields.get(a)
        if k is None:
            raise TranslateError('%s.%s reads self.%s before the kind of what it holds is known' % (cm.name, mname, a))
        lines.append('  let v_%s ← self_.%s' % (a, a))
        if k == 'B':
            lines.append('  let d_%s ← heap_.get v_%s' % (a, a))
            args.append('d_%s' % a)
        else:
            args.append('v_%s' % a)
    for a in s.opt_reads:
        if cm.fields.get(a) is None:
            raise TranslateError('%s.%s reads self.%s before the kind of what it holds is known' % (cm.name, mname, a))
        args.append('self_.%s' % a)
    args += list(s.params)
    lines.append('  let r_ := E.%s %s' % (s.op, ' '.join(args)))
    nret = 1 if s.ret is not None else 0
    n = len(outs) + nret
    for i0, (kind, a) in enumerate(outs):
        i = i0 + nret
        proj = 'r_' if n == 1 else 'r_' + '.2' * i + ('.1' if i < n - 1 else '')
        if kind == 'old':
            lines.append('  heap_ := heap_.set v_%s %s' % (a, proj))
            lines.append('  log_ := log_ ++ ["%s[]"]' % a)
        else:
            k = cm.attr_kind_for_store(a, 'T')
            if k == 'B':
                lines.append('  let a_%s := heap_.alloc %s' % (a, proj))
                lines.append('  heap_ := a_%s.1' % a)
                lines.append('  self_ := { self_ with %s := some a_%s.2 }' % (a, a))
            else:
                lines.append('  self_ := { self_ with %s := some %s }' % (a, proj))
            lines.append('  log_ := log_ ++ ["%s"]' % a)
    lines.append('  return (self_, heap_, %s, log_)' % ('()' if s.ret is None else ('r_' if n == 1 else 'r_.1')))
    want_ty = s.op
    if want_ty not in cm.ops:
        raise TranslateError('numeric %s is not declared' % s.op)
    res_ty = ' × '.join(([lty_atom(s.ret)] if s.ret is not None else []) + ['T'] * len(outs)) if n else 'Unit'
    arg_tys = []
    for a in s.reads:
        k = cm.fields[a]
        arg_tys.append('T' if k == 'B' else lty_atom(k))
    for a in s.opt_reads:
        arg_tys.append('Option %s' % lty_atom(cm.fields[a]))
    kinds = {p: k for p, k, _ in params}
    arg_tys += [lty_atom(kinds[p]) for p in s.params]
    def norm(t):
        return t.replace(' ', '').replace('(', '').replace(')', '')
    declared = norm(cm.ops[s.op][1])
    computed = norm(' → '.join(arg_tys + [res_ty]))
    if declared != computed:
        raise TranslateError('%s.%s: its effect signature gives `%s` the type %s, declared is %s'
                             % (cm.name, mname, s.op, ' → '.join(arg_tys + [res_ty]), cm.ops[s.op][1]))
    name = cm.fn_name(mname)
    head = 'def %s (E : %s T R) (self_ : %s T R) (heap_ : Heap T)%s : Option (%s T R × Heap T × %s × List String) := do' % (
        name, cm.opsname, cm.S, ''.join(' (%s : %s)' % (p, lty(k)) for p, k, _ in params), cm.S, 'Unit' if s.ret is None else lty_atom(s.ret))
    doc = ('/-- `%s.%s` (%s) SUMMARISED by its effect signature, recomputed from the source: it reads the attributes %s and its parameters %s%s; '
           'objects it leaves: %s (`old a` = written in place into the object `self.a` held on entry, `new a` = a new object that `self.a` holds on exit); '
           'the uninterpreted `E.%s` stands for their contents -/'
           % (cm.name, mname, cm.spec['file'], s.reads + s.opt_reads, list(s.params), ' and returns a value computed from them' if s.ret is not None else '', ['%s %s' % o for o in outs], s.op))
    extra = ['def %sReads : List String := [%s]' % (name[:-1], ', '.join('"%s"' % a for a in s.reads)),
             'def %sEffects : List (String × String) := [%s]' % (name[:-1], ', '.join('("%s", "%s")' % o for o in outs))]
    return MethodResult(params, 'Unit' if s.ret is None else s.ret, '\n'.join(extra + [doc, head] + lines))


# ------------------------------------------------------------------------------------------------------------------ the file
def render(cm, methods, header_doc):
    """translate `methods` (and what they call) and return the Lean text of the class: ops record is emitted by the client"""
    for m in methods:
        cm.method(m)
    out = []
    for a, k in cm.fields.items():
        if k is None:
            raise TranslateError('%s: the kind of attribute %s is unknown (only None is ever stored)' % (cm.name, a))
    out.append('/-- every attribute a `%s` object stores anywhere in the class (%s), in source order (`none` = unset or None); '
               'objects (heap locations): %s -/' % (cm.name, cm.spec['file'], [a for a, k in cm.fields.items() if k == 'B']))
    out.append('structure %s (T R : Type) where' % cm.S)
    for a, k in cm.fields.items():
        out.append('  %s : Option %s' % (a, lty_atom(k)))
    out.append('')
    out.append('/-- an object before `__init__` ran -/')
    out.append('def %s.empty {T R : Type} : %s T R := { %s }' % (cm.S, cm.S, ', '.join('%s := none' % a for a in cm.fields)))
    out.append('')
    out.append('/-- the field names of `%s`, in order [recomputed from the source] -/' % cm.S)
    out.append('def %sFields : List String := [%s]' % (cm.prefix, ', '.join('"%s"' % a for a in cm.fields)))
    out.append('')
    for m in cm.order:
        out.append(cm.done[m].text)
        out.append('')
    return out


def ops_struct(name, ops, doc):
    out = ['/-- %s -/' % doc, 'structure %s (T R : Type) where' % name]
    for o in ops:
        out.append('  /-- %s -/' % o[2])
        out.append('  %s : %s' % (o[0], o[1]))
    out.append('')
    return out


GENERIC_OPS = [
    ('lit', 'String → R', 'a float literal of the source, by its text'),
    ('scalar', 'R → T', 'a Python float used as a tensor operand'), ('int', 'Int → T', 'a Python int used as a tensor operand'),
    ('ofBool', 'Bool → T', 'a Python bool stored into a tensor'), ('truthy', 'T → Bool', 'the truth value of a tensor element (`if x:` / `not x`)'),
    ('rofInt', 'Int → R', 'a Python int in float arithmetic'), ('rtruthy', 'R → Bool', 'the truth value of a Python float'),
    ('radd', 'R → R → R', 'float `a + b`'), ('rsub', 'R → R → R', 'float `a - b`'), ('rmul', 'R → R → R', 'float `a * b`'),
    ('rdiv', 'R → R → R', 'float `a / b`'), ('rneg', 'R → R', 'float `-a`'),
    ('add', 'T → T → T', '`a + b`'), ('sub', 'T → T → T', '`a - b`'), ('mul', 'T → T → T', '`a * b`'), ('div', 'T → T → T', '`a / b`'),
    ('neg', 'T → T', '`-a`'), ('powInt', 'T → Int → T', '`a ** n` for a literal integer n'),
    ('getIdx', 'T → List Int → T', '`x[i, j, ..]` (integer indices)'), ('setIdx', 'T → List Int → T → T', 'the content of `x` after `x[i, j, ..] = v`'),
    ('dim', 'T → Int → Int', '`x.shape[k]`'), ('rank', 'T → Int', '`len(x.shape)`'),
]
