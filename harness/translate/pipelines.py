"""Regenerates Generated/Pipelines.lean: the propagation PIPELINES (which FFT, which shift, which multiplication, pad / crop, in
which order) of

    odak/learn/wave/classical.py    custom, angular_spectrum, band_limited_angular_spectrum, transfer_function_fresnel,
                                    impulse_response_fresnel, incoherent_angular_spectrum, fraunhofer, get_propagation_kernel,
                                    the FFT part of get_impulse_response_fresnel_kernel, get_incoherent_angular_spectrum_kernel
                                    (+ odak/learn/tools/matrix.py correlation_2d), propagate_beam (8 zero_padding combinations)
    odak/wave/classical.py          the FFT part of angular_spectrum, band_limited_angular_spectrum, transfer_function_fresnel,
                                    impulse_response_fresnel, fraunhofer, and the dispatch of propagate_beam
    odak/learn/wave/propagators.py  propagator.__call__ (a step function over the kernel cache), propagator.reconstruct (call list)

translated statement by statement by a symbolic interpreter over the Python `ast` (odak is never executed).  Every Python variable
becomes a `let`; values are Lean terms over the model's own primitives (`CGrid.fft2`, `CGrid.ifft2`, `CGrid.fftshift`,
`CGrid.ifftshift`, `CGrid.mul`, `padGrid`, `cropGrid`, the kernels of Generated/WaveKernels.lean, …).

Symbolic values (class P):
  'grid'   term : CGrid α R C, `shape` = (R, C) Lean `Nat` terms (None = not yet known: a parameter whose shape is fixed by its first use)
  'stack'  term : CStack α K R C  (a leading batch axis)
  'ogrid'  term : Option (CGrid α R C): the result of a dispatch on a string that may match no branch (Python raises) or whose
           branch is outside the model
  'real'   term : α      'dim' / 'idx'  term : Nat     'str'  term : String (dynamic)     'py'  a Python constant (static)
  'list' / 'shape'  Python list / tensor shape        'self' the propagator object       'op'  opaque (device, dtype)
  'forbid' a parameter the model does not have: using it is a translation error
Control flow: an `if` whose test is static (flags, `type(kernel) == type(None)`, `scale > 1`, constant strings) selects its branch;
an `if` chain on a dynamic string becomes a Lean `if … then some … else none`; the cache guard of `propagator.__call__` becomes a
`match` on the cache lookup.  Calls of functions of the source are either calls of an already generated definition (the variant
whose static arguments match), or inlined (`get_propagation_kernel` with a constant type, `correlation_2d`), or listed in OUTSIDE
(branch not modelled: `none`).  Anything else raises TranslateError: the error is returned and `generate_all` keeps the accepted file."""
import ast
import os
import re
from .pyexpr import TranslateError, find_function
from . import wavekernels as WK
from .wavekernels import Module, lit

REPO = os.environ.get('ODAK_REPO', '/repo')
FILE = 'Pipelines.lean'

T_CLASSICAL = 'odak/learn/wave/classical.py'
T_MATRIX = 'odak/learn/tools/matrix.py'
T_PROP = 'odak/learn/wave/propagators.py'
N_CLASSICAL = 'odak/wave/classical.py'

IDENT_METHODS = ('to', 'clone', 'detach', 'contiguous', 'cpu')
FFT_LIBS = ('torch.fft', 'np.fft', 'numpy.fft')
LIBS = ('torch', 'np', 'numpy', 'math', 'logging')

# functions of the source that the model does not cover: a dispatch branch that calls one of them is `none` in the generated
# definition and is named in its doc comment; a call anywhere else is an error
OUTSIDE = {
    (T_CLASSICAL, 'seperable_impulse_response_fresnel'), (T_CLASSICAL, 'get_seperable_impulse_response_fresnel_kernel'),
    (N_CLASSICAL, 'rayleigh_sommerfeld'), (N_CLASSICAL, 'band_extended_angular_spectrum'),
    (N_CLASSICAL, 'adaptive_sampling_angular_spectrum'), (N_CLASSICAL, 'fraunhofer_inverse'),
}
# functions that are inlined at their call site when no generated variant matches
INLINE = {(T_CLASSICAL, 'get_propagation_kernel'), (T_MATRIX, 'correlation_2d')}


class Outside(TranslateError):
    pass


class P:
    def __init__(self, kind, term=None, shape=None, const=None, items=None, attrs=None):
        self.kind, self.term, self.shape, self.const, self.items, self.attrs = kind, term, shape, const, items, attrs

    def __repr__(self):
        return 'P(%s, %r, %r, %r)' % (self.kind, self.term, self.shape, self.const)


def gtype(shape):
    return 'CGrid α %s %s' % (shape[0], shape[1])


def ltype(v):
    if v.kind == 'grid':
        return gtype(v.shape)
    if v.kind == 'ogrid':
        return 'Option (%s)' % gtype(v.shape)
    if v.kind == 'stack':
        return 'CStack α %s %s %s' % v.shape
    if v.kind == 'real':
        return 'α'
    if v.kind in ('dim', 'idx'):
        return 'Nat'
    raise TranslateError('no Lean type for a value of kind ' + v.kind)


def double(d):
    return '(2 * %s)' % d


def halve(d):
    m = re.fullmatch(r'\(2 \* (.+)\)', d)
    if not m:
        raise TranslateError('crop_center of a side that is not of the form 2 * x: ' + d)
    inner = m.group(1)
    depth = 0
    for ch in inner:                      # the match must be ONE parenthesised factor, not `(2 * a) … (b)`
        depth += ch == '('
        depth -= ch == ')'
        if depth < 0:
            raise TranslateError('crop_center of a side that is not of the form 2 * x: ' + d)
    return inner


def subst_dims(term, mapping):
    return re.sub(r'\b(%s)\b' % '|'.join(map(re.escape, mapping)), lambda m: mapping[m.group(1)], term) if mapping else term


RAISE = object()


class Frame:
    """state shared by an interpreter and the interpreters of the calls it inlines"""

    def __init__(self):
        self.counter = 0
        self.notes = []


class Interp:
    def __init__(self, gen, module, env, frame=None, lets=None):
        self.gen, self.module, self.env = gen, module, dict(env)
        self.frame = frame or Frame()
        self.lets = lets if lets is not None else []
        self.cache_writes = None          # inside the miss branch of a cache guard: {'kernels': (key, value), 'flags': key}

    # ------------------------------------------------------------------ helpers
    def fresh(self, base):
        self.frame.counter += 1
        return '%s_%d' % (base, self.frame.counter)

    def bind(self, base, v):
        if v.kind in ('grid', 'ogrid', 'stack', 'real'):
            if v.kind == 'real' and v.const is not None and v.term == lit(v.const):
                return v                                               # a literal stays a literal (and stays static)
            if v.kind in ('grid', 'ogrid', 'stack') and v.shape is None:
                return v
            n = self.fresh(base)
            self.lets.append('let %s : %s := %s' % (n, ltype(v), v.term))
            return P(v.kind, n, v.shape, const=v.const)
        return v

    def unify(self, a, b, what):
        """two grids that must have the same shape"""
        if a.shape is None and b.shape is None:
            raise TranslateError('shapes of both operands unknown in ' + what)
        if a.shape is None:
            a.shape = b.shape
        elif b.shape is None:
            b.shape = a.shape
        elif tuple(a.shape) != tuple(b.shape):
            raise TranslateError('shape mismatch %s vs %s in %s' % (a.shape, b.shape, what))
        return a.shape

    def real(self, v, what):
        if v.kind == 'real':
            return v
        if v.kind == 'dim':
            return P('real', '(Num.ofNat %s)' % v.term)
        if v.kind == 'py' and isinstance(v.const, (int, float)) and not isinstance(v.const, bool):
            return P('real', lit(v.const), const=v.const)
        if v.kind == 'forbid':
            raise TranslateError(v.const + ' (in %s)' % what)
        raise TranslateError('expected a real value in %s, got %s' % (what, v.kind))

    def lift(self, args, build, what):
        """apply `build` (list of terms -> P of kind grid/ogrid) through the `Option` of every 'ogrid' argument"""
        opt = [i for i, a in enumerate(args) if a.kind == 'ogrid']
        if not opt:
            return build([a.term for a in args])
        names = {}
        terms = []
        for i, a in enumerate(args):
            if i in opt:
                names[i] = self.fresh('x')
                terms.append(names[i])
            else:
                terms.append(a.term)
        inner = build(terms)
        if inner.kind == 'grid':
            out = '(Option.map (fun %s => %s) %s)' % (names[opt[-1]], inner.term, args[opt[-1]].term)
        elif inner.kind == 'ogrid':
            out = '(Option.bind %s fun %s => %s)' % (args[opt[-1]].term, names[opt[-1]], inner.term)
        else:
            raise TranslateError('cannot lift a result of kind %s through Option in %s' % (inner.kind, what))
        for i in reversed(opt[:-1]):
            out = '(Option.bind %s fun %s => %s)' % (args[i].term, names[i], out)
        return P('ogrid', out, inner.shape)

    def as_grid(self, v, what):
        """view an 'ogrid' as a grid with the same shape for shape computations (used inside `lift`)"""
        if v.kind == 'forbid':
            raise TranslateError(v.const + ' (in %s)' % what)
        if v.kind not in ('grid', 'ogrid', 'stack'):
            raise TranslateError('expected a field in %s, got %s' % (what, v.kind))
        return v

    # ------------------------------------------------------------------ expressions
    def ev(self, node):
        src = ast.unparse(node)
        if isinstance(node, ast.Constant):
            c = node.value
            if isinstance(c, complex):
                raise TranslateError('complex literal outside a kernel formula: ' + src)
            return P('py', const=c)
        if isinstance(node, ast.Name):
            if node.id in self.env:
                v = self.env[node.id]
                if v.kind == 'forbid':
                    raise TranslateError(v.const)
                return v
            raise TranslateError('unknown name ' + node.id)
        if isinstance(node, ast.Attribute):
            if isinstance(node.value, ast.Name) and node.value.id in LIBS and node.value.id not in self.env:
                return P('op')
            if isinstance(node.value, ast.Attribute) and ast.unparse(node.value) in FFT_LIBS:
                return P('op')
            base = self.ev(node.value)
            if base.kind == 'self':
                if node.attr not in base.attrs:
                    raise TranslateError('attribute self.%s is not part of the propagator model' % node.attr)
                v = base.attrs[node.attr]
                if v.kind == 'forbid':
                    raise TranslateError(v.const)
                return v
            if node.attr == 'shape' and base.kind in ('grid', 'ogrid') and base.shape is not None:
                return P('shape', items=[P('dim', base.shape[0]), P('dim', base.shape[1])], attrs=base)
            if node.attr == 'shape' and base.kind == 'stack':
                return P('shape', items=[P('dim', d) for d in base.shape], attrs=base)
            if node.attr == 'device':
                return P('op')
            raise TranslateError('unsupported attribute ' + src)
        if isinstance(node, (ast.Tuple, ast.List)):
            return P('list', items=[self.ev(e) for e in node.elts])
        if isinstance(node, ast.Subscript):
            return self.subscript(node, src)
        if isinstance(node, ast.UnaryOp) and isinstance(node.op, ast.USub):
            a = self.ev(node.operand)
            if a.kind == 'py' and isinstance(a.const, (int, float)) and not isinstance(a.const, bool):
                return P('py', const=-a.const)
            a = self.real(a, src)
            return P('real', '(-%s)' % a.term)
        if isinstance(node, ast.UnaryOp) and isinstance(node.op, ast.Not):
            t = self.static(node.operand)
            if t is None:
                raise TranslateError('`not` of a dynamic condition outside an if: ' + src)
            return P('py', const=not t)
        if isinstance(node, ast.BinOp):
            return self.binop(node.op, self.ev(node.left), self.ev(node.right), src)
        if isinstance(node, ast.Compare) and len(node.ops) == 1:
            t = self.static(node)
            if t is None:
                raise TranslateError('dynamic comparison outside an if: ' + src)
            return P('py', const=t)
        if isinstance(node, ast.Call):
            return self.call(node, src)
        raise TranslateError('unsupported expression ' + src)

    def subscript(self, node, src):
        base = self.ev(node.value)
        sl = node.slice
        if base.kind in ('list', 'shape'):
            idx = self.ev(sl)
            if idx.kind == 'py' and isinstance(idx.const, int) and not isinstance(idx.const, bool):
                try:
                    return base.items[idx.const]
                except IndexError:
                    raise TranslateError('index out of range ' + src)
            raise TranslateError('unsupported index ' + src)
        if base.kind == 'rlist':
            idx = self.ev(sl)
            if idx.kind != 'idx':
                raise TranslateError('index of %s is not a call argument: %s' % (base.term, src))
            return P('real', '(%s.getD %s 0)' % (base.term, idx.term))
        if base.kind == 'kernels':
            key = self.cache_key(sl, src)
            if self.cache_hit is None or key != self.cache_hit[0]:
                raise TranslateError('the kernel cache is read at %s outside the guard on the same key' % src)
            return P('grid', self.cache_hit[1], base.shape)
        raise TranslateError('unsupported subscript ' + src)

    cache_hit = None

    def cache_key(self, sl, src):
        if not isinstance(sl, ast.Tuple) or len(sl.elts) != 2:
            raise TranslateError('cache key is not a pair: ' + src)
        ks = [self.ev(e) for e in sl.elts]
        if any(k.kind != 'idx' for k in ks):
            raise TranslateError('cache key is not made of the call arguments: ' + src)
        return '(%s, %s)' % (ks[0].term, ks[1].term)

    def binop(self, op, a, b, src):
        t = type(op)
        field = ('grid', 'ogrid', 'stack')
        num = ('real', 'dim', 'py')
        for v in (a, b):
            if v.kind == 'forbid':
                raise TranslateError(v.const)
        # Python numbers that stay static
        if a.kind == 'py' and b.kind == 'py' and all(isinstance(v.const, (int, float)) and not isinstance(v.const, bool) for v in (a, b)):
            f = {ast.Add: lambda x, y: x + y, ast.Sub: lambda x, y: x - y, ast.Mult: lambda x, y: x * y}.get(t)
            if f is not None:
                return P('py', const=f(a.const, b.const))
        # grid sides: dim * 2 / 2 * dim / dim * 1
        if t is ast.Mult and {a.kind, b.kind} == {'dim', 'py'}:
            d, c = (a, b) if a.kind == 'dim' else (b, a)
            if c.const == 2 and isinstance(c.const, int):
                return P('dim', double(d.term))
            if c.const == 1 and isinstance(c.const, int):
                return d
        if a.kind in field or b.kind in field:
            if t is ast.Mult:
                if a.kind in field and b.kind in field:
                    return self.mul(a, b, src)
                g, c = (a, b) if a.kind in field else (b, a)
                c = self.real(c, src)
                if g.kind == 'stack':
                    raise TranslateError('real scaling of a stack is not modelled: ' + src)
                return self.lift([g], lambda ts: P('grid', '(CGrid.scaleR %s %s)' % (c.term, ts[0]), g.shape), src)
            if t is ast.Div and a.kind in ('grid', 'ogrid') and b.kind in num:
                c = self.real(b, src)
                return self.lift([a], lambda ts: P('grid', '(CGrid.divR %s %s)' % (ts[0], c.term), a.shape), src)
            raise TranslateError('unsupported operation on fields: ' + src)
        if t is ast.Pow:
            x = self.real(a, src)
            if b.kind == 'py' and b.const == 2:
                return P('real', '(Num.sq %s)' % x.term)
            raise TranslateError('unsupported exponent in ' + src)
        sym = {ast.Add: '+', ast.Sub: '-', ast.Mult: '*', ast.Div: '/'}.get(t)
        if sym is None:
            raise TranslateError('unsupported operator in ' + src)
        x, y = self.real(a, src), self.real(b, src)
        return P('real', '(%s %s %s)' % (x.term, sym, y.term))

    def mul(self, a, b, src):
        if 'stack' in (a.kind, b.kind):
            if a.kind == 'stack' and b.kind == 'grid':
                if b.shape is None:
                    b.shape = a.shape[1:]
                if tuple(b.shape) != tuple(a.shape[1:]):
                    raise TranslateError('shape mismatch in ' + src)
                return P('stack', '(CStack.mulR %s %s)' % (a.term, b.term), a.shape)
            if a.kind == 'grid' and b.kind == 'stack':
                if a.shape is None:
                    a.shape = b.shape[1:]
                if tuple(a.shape) != tuple(b.shape[1:]):
                    raise TranslateError('shape mismatch in ' + src)
                return P('stack', '(CStack.mulL %s %s)' % (a.term, b.term), b.shape)
            raise TranslateError('unsupported product of stacks: ' + src)
        sh = self.unify(a, b, src)
        return self.lift([a, b], lambda ts: P('grid', '(CGrid.mul %s %s)' % (ts[0], ts[1]), sh), src)

    def kwargs(self, node, allowed, src):
        out = {}
        for kw in node.keywords:
            if kw.arg not in allowed:
                raise TranslateError('unsupported keyword %s in %s' % (kw.arg, src))
            out[kw.arg] = kw.value
        return out

    def axes(self, node, rank, src):
        """the set of axes (0-based, from the front) a `dim=` / `axes=` argument names"""
        v = self.ev(node)
        items = v.items if v.kind == 'list' else [v]
        out = set()
        for it in items:
            if it.kind != 'py' or not isinstance(it.const, int) or isinstance(it.const, bool) or not -rank <= it.const < rank:
                raise TranslateError('unsupported axis list in ' + src)
            out.add(it.const % rank)
        return out

    def call(self, node, src):
        f = ast.unparse(node.func)
        lib, _, short = f.rpartition('.')
        if lib in FFT_LIBS:
            if len(node.args) != 1:
                raise TranslateError('unsupported FFT call ' + src)
            x = self.as_grid(self.ev(node.args[0]), src)
            if x.shape is None:
                raise TranslateError('FFT of a field of unknown shape: ' + src)
            kw = self.kwargs(node, ('dim', 'axes'), src)
            rank = 3 if x.kind == 'stack' else 2
            ax = self.axes(kw.get('dim', kw.get('axes')), rank, src) if kw else None
            if short in ('fft2', 'ifft2'):
                if ax is not None and ax != {rank - 2, rank - 1}:
                    raise TranslateError('2-D FFT over axes other than the last two: ' + src)
                if x.kind == 'stack':
                    return P('stack', '(CStack.%s %s)' % (short, x.term), x.shape)
                return self.lift([x], lambda ts: P('grid', '(CGrid.%s %s)' % (short, ts[0]), x.shape), src)
            if short in ('fftshift', 'ifftshift'):
                if x.kind == 'stack':
                    if ax is None or ax == {0, 1, 2}:
                        return P('stack', '(CStack.%sAll %s)' % (short, x.term), x.shape)
                    if ax == {1, 2}:
                        return P('stack', '(CStack.%s2 %s)' % (short, x.term), x.shape)
                    raise TranslateError('shift over an unsupported set of axes: ' + src)
                if ax is not None and ax != {0, 1}:
                    raise TranslateError('shift of one axis only is not modelled: ' + src)
                return self.lift([x], lambda ts: P('grid', '(CGrid.%s %s)' % (short, ts[0]), x.shape), src)
            raise TranslateError('unsupported FFT function ' + src)
        if f == 'type' and len(node.args) == 1:
            v = self.ev(node.args[0])
            return P('pytype', const='NoneType' if (v.kind == 'py' and v.const is None) else v.kind)
        if f == 'float' and len(node.args) == 1:
            return self.real(self.ev(node.args[0]), src)
        # ---- methods
        if isinstance(node.func, ast.Attribute) and lib not in LIBS and lib not in FFT_LIBS:
            if ast.unparse(node.func.value) == 'self' and 'self' in self.env:
                return self.user_call((self.module.rel, node.func.attr, self.env['self'].const), node, src, skip_self=True)
            recv = self.ev(node.func.value)
            if node.func.attr in IDENT_METHODS:
                return recv
            raise TranslateError('unsupported method ' + src)
        if lib in ('torch', 'np', 'numpy'):
            if short in ('mul', 'multiply') and len(node.args) == 2 and not node.keywords:
                return self.binop(ast.Mult(), self.ev(node.args[0]), self.ev(node.args[1]), src)
            if short == 'conj' and len(node.args) == 1 and not node.keywords:
                x = self.as_grid(self.ev(node.args[0]), src)
                if x.kind == 'stack':
                    raise TranslateError('conj of a stack is not modelled')
                return self.lift([x], lambda ts: P('grid', '(CGrid.conj %s)' % ts[0], x.shape), src)
            if short == 'ones' and len(node.args) == 1 and not node.keywords:
                v = self.ev(node.args[0])
                if v.kind == 'shape' and len(v.items) == 2:
                    return P('grid', '(CGrid.const 1)', (v.items[0].term, v.items[1].term))
                raise TranslateError('unsupported ones ' + src)
            if short == 'device':
                return P('op')
            raise TranslateError('unsupported call ' + src)
        if isinstance(node.func, ast.Name):
            target = self.module.resolve(f)
            if target is None:
                raise TranslateError('call of an unknown function: ' + src)
            return self.user_call(target + (None,), node, src)
        raise TranslateError('unsupported call ' + src)

    def bind_args(self, fn, node, src, skip_self=False):
        """{parameter: value} of a call of the source function `fn` (defaults included)"""
        params = [a.arg for a in fn.args.args]
        if skip_self:
            params = params[1:]
        if fn.args.vararg or fn.args.kwarg or fn.args.kwonlyargs:
            raise TranslateError('unsupported signature of ' + fn.name)
        if len(node.args) > len(params):
            raise TranslateError('too many arguments in ' + src)
        out = {}
        for p, a in zip(params, node.args):
            out[p] = self.ev(a)
        for kw in node.keywords:
            if kw.arg not in params or kw.arg in out:
                raise TranslateError('unsupported keyword %s in %s' % (kw.arg, src))
            out[kw.arg] = self.ev(kw.value)
        defaults = fn.args.defaults
        off = len(fn.args.args) - len(defaults)
        for i, a in enumerate(fn.args.args):
            if a.arg not in out and i >= off and a.arg in params:
                out[a.arg] = Interp(self.gen, self.module, {}, self.frame, self.lets).ev(defaults[i - off])
        for p in params:
            if p not in out:
                raise TranslateError('missing argument %s in %s' % (p, src))
        return out

    def user_call(self, target, node, src, skip_self=False):
        rel, name, cls = target
        key = (rel, name)
        if key in self.gen.leaves:
            mod = Module.get(rel)
            fn = find_function(mod.tree, name, cls)
            return self.gen.leaves[key](self, self.bind_args(fn, node, src, skip_self), src)
        if key in OUTSIDE:
            raise Outside('%s is outside the model' % name)
        mod = Module.get(rel)
        fn = find_function(mod.tree, name, cls)
        args = self.bind_args(fn, node, src, skip_self)
        for variant in self.gen.variants.get(key, []):
            r = variant.try_call(self, args, src)
            if r is not None:
                return r
        if key in INLINE:
            child = Interp(self.gen, mod, args, self.frame, self.lets)
            r = child.block(fn.body)
            if r is None or r is RAISE:
                raise TranslateError('%s does not return a value (inlined at %s)' % (name, src))
            return r
        raise TranslateError('call of a function that is not translated (or no generated variant matches its static arguments): ' + src)

    # ------------------------------------------------------------------ conditions
    def static(self, node):
        """True / False for a test decided at translation time, None for a dynamic one"""
        if isinstance(node, ast.UnaryOp) and isinstance(node.op, ast.Not):
            t = self.static(node.operand)
            return None if t is None else not t
        if isinstance(node, ast.Compare) and len(node.ops) == 1 and isinstance(node.ops[0], ast.In) \
                and isinstance(node.comparators[0], (ast.List, ast.Tuple)) \
                and all(isinstance(e, ast.Constant) and isinstance(e.value, str) for e in node.comparators[0].elts):
            a = self.ev(node.left)
            if a.kind == 'str':
                return None          # dynamic: `name in ['a', 'b']` -> a disjunction of string comparisons (dyn_cond)
            if a.kind == 'py' and isinstance(a.const, str):
                return a.const in [e.value for e in node.comparators[0].elts]
            raise TranslateError('unsupported membership test ' + ast.unparse(node))
        if isinstance(node, ast.Compare) and len(node.ops) == 1:
            a, b = self.ev(node.left), self.ev(node.comparators[0])
            op = type(node.ops[0])
            if a.kind in ('py', 'pytype') and b.kind == a.kind:
                try:
                    return {ast.Eq: lambda x, y: x == y, ast.NotEq: lambda x, y: x != y, ast.Gt: lambda x, y: x > y,
                            ast.Lt: lambda x, y: x < y, ast.GtE: lambda x, y: x >= y, ast.LtE: lambda x, y: x <= y,
                            ast.Is: lambda x, y: x is y, ast.IsNot: lambda x, y: x is not y}[op](a.const, b.const)
                except (KeyError, TypeError):
                    raise TranslateError('unsupported comparison ' + ast.unparse(node))
            if {a.kind, b.kind} == {'str', 'py'} and op in (ast.Eq,):
                return None
            raise TranslateError('unsupported comparison ' + ast.unparse(node))
        v = self.ev(node)
        if v.kind == 'py' and isinstance(v.const, bool):
            return v.const
        raise TranslateError('condition is neither static nor a comparison with a string: ' + ast.unparse(node))

    def dyn_cond(self, node):
        if isinstance(node.ops[0], ast.In):
            a = self.ev(node.left)
            names = [e.value for e in node.comparators[0].elts]
            return '(' + ' ∨ '.join('%s = "%s"' % (a.term, c.replace('\\', '\\\\').replace('"', '\\"')) for c in names) + ')'
        a, b = self.ev(node.left), self.ev(node.comparators[0])
        s, c = (a, b) if a.kind == 'str' else (b, a)
        if not isinstance(c.const, str):
            raise TranslateError('dynamic comparison with something that is not a string constant: ' + ast.unparse(node))
        return '%s = "%s"' % (s.term, c.const.replace('\\', '\\\\').replace('"', '\\"'))

    # ------------------------------------------------------------------ statements
    def assign(self, target, v, src):
        if isinstance(target, ast.Name):
            self.env[target.id] = self.bind(target.id, v)
            return
        if isinstance(target, ast.Tuple) and v.kind in ('list', 'shape') and len(target.elts) == len(v.items) \
                and all(isinstance(t, ast.Name) for t in target.elts):
            for t, x in zip(target.elts, v.items):
                self.env[t.id] = self.bind(t.id, x)
            return
        if isinstance(target, ast.Subscript) and self.cache_writes is not None:
            base = self.ev(target.value)
            if base.kind == 'kernels':
                if 'kernels' in self.cache_writes:
                    raise TranslateError('the kernel cache is written twice')
                if v.kind not in ('grid', 'ogrid'):
                    raise TranslateError('the value stored in the kernel cache is not a kernel: ' + src)
                if tuple(v.shape) != tuple(base.shape):
                    raise TranslateError('the kernel stored in the cache has shape %s, the cache holds %s' % (v.shape, base.shape))
                self.cache_writes['kernels'] = (self.cache_key(target.slice, src), v)
                return
            if base.kind == 'flags':
                if v.kind != 'py' or v.const is not True:
                    raise TranslateError('the cache flag is set to something else than True: ' + src)
                self.cache_writes['flags'] = self.cache_key(target.slice, src)
                return
        raise TranslateError('unsupported assignment ' + src[:90])

    def block(self, body):
        """returns the value of a `return` met, RAISE when the block raises, else None"""
        i = 0
        while i < len(body):
            st = body[i]
            i += 1
            src = ast.unparse(st)
            if isinstance(st, ast.Expr) and isinstance(st.value, ast.Constant):
                continue
            if isinstance(st, ast.Expr) and isinstance(st.value, ast.Call) and ast.unparse(st.value.func).startswith('logging.'):
                continue
            if isinstance(st, ast.Assert):
                t = self.static(st.test)
                if t is None:
                    raise TranslateError('dynamic assert ' + src)
                if not t:
                    return RAISE
                continue
            if isinstance(st, ast.Raise):
                return RAISE
            if isinstance(st, ast.If):
                t = self.cache_guard(st.test)
                if t is not None:
                    self.cache_if(st, t, src)
                    continue
                t = self.static(st.test)
                if t is None:
                    self.dyn_if(st, src)
                    continue
                r = self.block(st.body if t else st.orelse)
                if r is not None:
                    return r
                continue
            if isinstance(st, ast.Return):
                if st.value is None:
                    raise TranslateError('bare return')
                return self.ev(st.value)
            if isinstance(st, ast.Assign) and len(st.targets) == 1:
                self.assign(st.targets[0], self.ev(st.value), src)
                continue
            raise TranslateError('unsupported statement ' + src[:90])
        return None

    def branch(self, body):
        """run a block in a copy of the environment with its own list of lets"""
        child = Interp(self.gen, self.module, self.env, self.frame, [])
        child.cache_hit, child.cache_writes = self.cache_hit, self.cache_writes
        try:
            r = child.block(body)
        except Outside as e:
            self.frame.notes.append(str(e))
            return child, 'outside'
        if r is RAISE:
            return child, 'raise'
        if r is not None:
            raise TranslateError('return inside a dynamic branch')
        return child, 'ok'

    @staticmethod
    def paren(lets, value):
        if not lets:
            return value
        return '(' + ';\n '.join(lets + [value]).replace('\n', '\n ') + ')'

    def dyn_if(self, st, src):
        """if / elif chain on a dynamic string: one variable assigned by every branch -> `if … then some … else none`"""
        chain, orelse, cur = [], None, st
        while True:
            if self.static(cur.test) is not None:
                raise TranslateError('mixed static / dynamic if chain: ' + src[:80])
            chain.append((self.dyn_cond(cur.test), cur.body))
            if len(cur.orelse) == 1 and isinstance(cur.orelse[0], ast.If):
                cur = cur.orelse[0]
                continue
            orelse = cur.orelse
            break
        runs = [(c,) + self.branch(b) for c, b in chain]
        runs.append((None,) + (self.branch(orelse) if orelse else (None, 'raise')))
        ok = [r for r in runs if r[2] == 'ok']
        if not ok:
            raise TranslateError('no branch of the dispatch is modelled: ' + src[:80])
        assigned = None
        for _, child, _ in ok:
            names = {k for k, v in child.env.items() if self.env.get(k) is not v}
            assigned = names if assigned is None else assigned & names
        cands = [k for k in sorted(assigned) if all(r[1].env[k].kind in ('grid', 'ogrid') for r in ok)]
        if len(cands) != 1:
            raise TranslateError('a dynamic dispatch must assign exactly one field in every branch (found %s): %s' % (cands, src[:80]))
        name = cands[0]
        for _, child, _ in ok:
            extra = {k for k, v in child.env.items() if self.env.get(k) is not v and k in self.env and k != name}
            if extra:
                raise TranslateError('a branch of the dispatch rebinds %s' % sorted(extra))
        shape = ok[0][1].env[name].shape
        total = all(r[2] == 'ok' and tuple(r[1].env[name].shape) == tuple(shape) and r[1].env[name].kind == 'grid' for r in runs)
        parts = []
        for cond, child, status in runs:
            if status == 'ok' and tuple(child.env[name].shape) == tuple(shape):
                v = child.env[name]
                val = v.term if (total or v.kind == 'ogrid') else '(some %s)' % v.term
                body = self.paren(child.lets, val)
            else:
                if status == 'ok':
                    self.frame.notes.append('the branch %s gives a %s × %s result' % ((cond,) + tuple(child.env[name].shape)))
                body = 'none'
            parts.append((cond, body))
        text = ''
        for cond, body in parts[:-1]:
            text += 'if %s then\n  %s\nelse ' % (cond, body.replace('\n', '\n  '))
        text += parts[-1][1]
        res = P('grid' if total else 'ogrid', '\n  ' + text.replace('\n', '\n  '), shape)
        self.env[name] = self.bind(name, res)

    # ---- the kernel cache of propagator.__call__
    def cache_guard(self, test):
        """`not self.generated_kernels[a, b]` -> the key term, else None"""
        if isinstance(test, ast.UnaryOp) and isinstance(test.op, ast.Not) and isinstance(test.operand, ast.Subscript):
            try:
                base = self.ev(test.operand.value)
            except TranslateError:
                return None
            if base.kind == 'flags':
                return self.cache_key(test.operand.slice, ast.unparse(test))
        return None

    def cache_if(self, st, key, src):
        state = self.env['self'].attrs['__state__']
        if state.kind != 'state':
            raise TranslateError('second cache guard in one call')
        kshape = self.env['self'].attrs['kernels'].shape
        # miss: build, store, flag
        miss = Interp(self.gen, self.module, self.env, self.frame, [])
        miss.cache_writes = {}
        r = miss.block(st.body)
        if r is not None:
            raise TranslateError('return / raise inside the cache guard')
        w = miss.cache_writes
        if 'kernels' not in w or 'flags' not in w:
            raise TranslateError('the miss branch does not both store the kernel and set the flag')
        if w['kernels'][0] != key or w['flags'] != key:
            raise TranslateError('the cache is guarded on %s but written at %s / flagged at %s' % (key, w['kernels'][0], w['flags']))
        # hit: read
        hit = Interp(self.gen, self.module, self.env, self.frame, [])
        hit.cache_hit = (key, 'cached')
        r = hit.block(st.orelse)
        if r is not None:
            raise TranslateError('return / raise inside the cache guard')
        names = None
        for child in (miss, hit):
            got = {k for k, v in child.env.items() if self.env.get(k) is not v and v.kind in ('grid', 'ogrid')}
            names = got if names is None else names & got
        if len(names) != 1:
            raise TranslateError('both branches of the cache guard must bind exactly one kernel variable (found %s)' % sorted(names or []))
        name = names.pop()
        hm, hh = miss.env[name], hit.env[name]
        if tuple(hm.shape) != tuple(kshape) or tuple(hh.shape) != tuple(kshape):
            raise TranslateError('kernel shapes differ between the branches of the cache guard')
        stored = w['kernels'][1]
        st_ty = 'PState α %s %s' % tuple(kshape)
        pair_ty = 'Option (%s × %s)' % (gtype(kshape), st_ty)
        new_state = '(⟨(%s, sv) :: %s.cache⟩ : %s)' % (key, state.term, st_ty)

        def opt(v):
            return v.term if v.kind == 'ogrid' else '(some %s)' % v.term
        miss_val = '(Option.bind %s fun hv => Option.map (fun sv => (hv, %s)) %s)' % (opt(hm), new_state, opt(stored))
        hit_val = '(Option.map (fun hv => (hv, %s)) %s)' % (state.term, opt(hh))
        text = '\n  match %s.cache.lookup %s with\n  | none =>\n    %s\n  | some cached =>\n    %s' % (
            state.term, key, self.paren(miss.lets, miss_val).replace('\n', '\n    '),
            self.paren(hit.lets, hit_val).replace('\n', '\n    '))
        pair = self.fresh(name + '_state')
        self.lets.append('let %s : %s := %s' % (pair, pair_ty, text))
        self.env[name] = self.bind(name, P('ogrid', '(Option.map Prod.fst %s)' % pair, kshape))
        ns = self.fresh('state')
        self.lets.append('let %s : Option (%s) := (Option.map Prod.snd %s)' % (ns, st_ty, pair))
        self.env['self'].attrs['__state__'] = P('ostate', ns, kshape)


# ---------------------------------------------------------------------------------------------------------------------
# per-element kernels that WaveKernels.lean does not contain (same interpreter as wavekernels.py, two more operations)

class KInterp(WK.Interp):
    """wavekernels' per-element interpreter + `torch.pow(x, 2)`, `c / (±i t)`, and a caller-chosen marker of the statement to stop at"""

    def __init__(self, module, fn, env, registry, marker):
        WK.Interp.__init__(self, module, fn, env, registry, stop_at_fft=False)
        self.marker = marker

    def ev(self, node):
        if isinstance(node, ast.Subscript) and isinstance(node.slice, ast.UnaryOp) and isinstance(node.slice.op, ast.USub) \
                and isinstance(node.slice.operand, ast.Constant) and isinstance(node.slice.operand.value, int):
            base = self.ev(node.value)
            if base.kind in ('tuple', 'list', 'shape'):
                return base.items[-node.slice.operand.value]
        return WK.Interp.ev(self, node)

    def call(self, node, src):
        f = ast.unparse(node.func)
        lib, _, short = f.rpartition('.')
        if lib in WK.LIBS and short in ('pow', 'power') and len(node.args) == 2 and not node.keywords:
            return self.power(self.ev(node.args[0]), self.ev(node.args[1]), src)
        return WK.Interp.call(self, node, src)

    def binop(self, node, src):
        if isinstance(node.op, ast.Div) and isinstance(node.left, (ast.Name, ast.Call)) and isinstance(node.right, ast.BinOp):
            a = self.ev(node.left)
            if a.kind == 'c':
                b = self.ev(node.right)
                if b.kind == 'i' and b.term is not None:                 # c / (±i t) = c · (∓i / t)
                    im = '((Num.ofNat 1) / %s)' % b.term
                    return WK.V('c', '(%s * (⟨(0 : α), %s⟩ : Cx α))' % (a.term, im if b.sign < 0 else '(-%s)' % im),
                                WK.join_shape(a.shape, b.shape, src))
        return WK.Interp.binop(self, node, src)

    def block(self, body):
        for st in body:
            src = ast.unparse(st)
            if isinstance(st, ast.Expr) and isinstance(st.value, ast.Constant):
                continue
            if self.marker in src:
                return 'stop'
            if isinstance(st, ast.If):
                r = self.block(st.body if self.static_test(st.test) else st.orelse)
                if r is not None:
                    return r
                continue
            if isinstance(st, ast.Return):
                raise TranslateError('return before the statement containing %s' % self.marker)
            if isinstance(st, ast.Assign) and len(st.targets) == 1:
                self.assign(st.targets[0], self.ev(st.value), src)
                continue
            raise TranslateError('unsupported statement ' + src[:80])
        return None


def run_kernel(rel, py, lean, params, extra, binders, target, marker, wk_registry, doc):
    """the per-element value of local variable `target` of function `py` at the first statement containing `marker`"""
    mod = Module.get(rel)
    fn = find_function(mod.tree, py)
    names = [a.arg for a in fn.args.args]
    env = dict(extra)
    for pname, lname, kind in params:
        if kind == 'dim':
            env[pname] = WK.V('dim', lname)
        elif kind == 'r':
            env[pname] = WK.V('r', lname)
        elif kind == 'field':
            r, c = lname.split()
            env[pname] = WK.V('c', 'field', (r, c))
        if pname not in names:
            raise TranslateError('%s has no parameter %s any more' % (py, pname))
    for nme in names:
        if nme not in env:
            raise TranslateError('parameter %s of %s is not covered by the translator' % (nme, py))
    it = KInterp(mod, fn, env, wk_registry, marker)
    if it.block(fn.body) != 'stop':
        raise TranslateError('%s: no statement containing %s' % (py, marker))
    if target not in it.env:
        raise TranslateError('%s: %s is not assigned before the statement containing %s' % (py, target, marker))
    res = it.cx(it.env[target], py)
    shape = res.shape or it.grid
    if shape is None or tuple(shape) != ('n', 'm'):
        raise TranslateError('%s: %s is not an n × m grid (%s)' % (py, target, shape))
    lines = ['/-- %s -/' % doc, 'def %s %s : CGrid α n m := Grid.ofFn fun (i : Fin n) (j : Fin m) =>' % (lean, binders)]
    lines += ['  ' + ln for l in it.lets + [res.term] for ln in l.split('\n')]
    return '\n'.join(lines)


# ---------------------------------------------------------------------------------------------------------------------
# jobs

def R(name):
    return P('real', name)


def G(name, shape=('n', 'm')):
    return P('grid', name, shape)


def PY(c):
    return P('py', const=c)


def FORBID(param, fn):
    return P('forbid', const='parameter `%s` of %s is used by the source; the model has no such argument' % (param, fn))


class Job:
    """one generated definition = one source function with some parameters static.
    params: python parameter -> P (symbolic Lean binder, static 'py' constant, 'op', 'forbid')
    order:  [(python parameter, index or None)] in the order of the Lean binders
    dims:   symbolic dimension names of the definition -> used to instantiate the result shape at a call site"""

    def __init__(self, rel, py, lean, params, order, cls=None, doc='', target=None, returns=None):
        self.rel, self.py, self.lean, self.params, self.order, self.cls, self.doc = rel, py, lean, params, order, cls, doc
        self.target = target              # (variable, Lean kernel term, shape): the part before the first FFT call is that kernel
        self.result = None
        self.returns = returns

    def binder_values(self):
        out = []
        for p, idx in self.order:
            v = self.params[p]
            out.append(v.items[idx] if idx is not None else v)
        return out

    def try_call(self, it, args, src):
        """the call term if the static arguments of this call match this variant, else None"""
        if set(args) != set(self.params):
            return None
        mapping = {}
        for p, spec in self.params.items():
            a = args[p]
            if spec.kind == 'py':
                if a.kind != 'py' or a.const != spec.const or type(a.const) is not type(spec.const):
                    return None
            elif spec.kind in ('grid', 'stack'):
                if a.kind == 'ogrid' and spec.kind == 'grid':
                    pass
                elif a.kind != spec.kind:
                    return None
            elif spec.kind == 'str':
                if a.kind != 'str':
                    return None
            elif spec.kind == 'list':
                if a.kind != 'list' or len(a.items) != len(spec.items):
                    return None
        # shapes: the first field parameter with a known shape fixes the dimension symbols
        for p, spec in self.params.items():
            a = args[p]
            if spec.kind in ('grid', 'stack') and a.shape is not None and not mapping:
                for sym, actual in zip(spec.shape, a.shape):
                    m = re.fullmatch(r'\(2 \* (\w+)\)', sym)
                    if m:
                        actual = halve(actual)
                        sym = m.group(1)
                    mapping[sym] = actual
        for p, spec in self.params.items():
            a = args[p]
            if spec.kind in ('grid', 'stack'):
                want = tuple(subst_dims(s, mapping) for s in spec.shape)
                if a.shape is None:
                    a.shape = want
                elif tuple(a.shape) != want:
                    raise TranslateError('argument %s of %s has shape %s, expected %s' % (p, self.py, a.shape, want))
        lifted = []
        for (p, idx), spec in zip(self.order, self.binder_values()):
            a = args[p]
            if idx is not None:
                a = a.items[idx]
            if spec.kind == 'real':
                a = it.real(a, src)
            elif spec.kind == 'dim':
                if a.kind == 'py' and isinstance(a.const, int) and not isinstance(a.const, bool):
                    a = P('dim', str(a.const))
                if a.kind != 'dim':
                    raise TranslateError('argument %s of %s is not a grid side' % (p, self.py))
                mapping.setdefault(spec.term, a.term)
            elif spec.kind == 'idx' and a.kind != 'idx':
                raise TranslateError('argument %s of %s is not an index' % (p, self.py))
            lifted.append(a)
        res = self.result
        shape = tuple(subst_dims(s, mapping) for s in res.shape)
        kind = res.kind
        return it.lift(lifted, lambda ts: P(kind, '(%s %s)' % (self.lean, ' '.join(ts)), shape), src)


def binder_text(v):
    if v.kind == 'grid':
        return '(%s : %s)' % (v.term, gtype(v.shape))
    if v.kind == 'stack':
        return '(%s : CStack α %s %s %s)' % ((v.term,) + tuple(v.shape))
    if v.kind == 'real':
        return '(%s : α)' % v.term
    if v.kind in ('dim', 'idx'):
        return '(%s : Nat)' % v.term
    if v.kind == 'str':
        return '(%s : String)' % v.term
    if v.kind == 'self':
        return '(%s : PropagatorSelf α h w)' % v.term
    if v.kind == 'state':
        return '(%s : PState α %s %s)' % ((v.term,) + tuple(v.shape))
    raise TranslateError('no binder for kind ' + v.kind)


def group_binders(vals):
    """(a : T) (b : T) -> (a b : T)"""
    out = []
    for v in vals:
        if v.kind in ('grid', 'stack') and v.shape is None:
            continue                                             # a parameter no statement uses
        t = binder_text(v)
        name, ty = t[1:-1].split(' : ', 1)
        if out and out[-1][1] == ty:
            out[-1][0].append(name)
        else:
            out.append(([name], ty))
    return ' '.join('(%s : %s)' % (' '.join(ns), ty) for ns, ty in out)


class Generator:
    def __init__(self):
        self.variants = {}
        self.leaves = {}
        self.defs = []
        self.wk_registry = {}

    # ---- leaves
    def leaf_kernel(self, rel, py, lean, need, ignore=(), samples=None, scale_one=False):
        def h(it, args, src):
            for p in args:
                if p not in need and p not in ignore and p != samples and not (scale_one and p == 'scale'):
                    raise TranslateError('%s has a parameter %s the kernel model does not have' % (py, p))
            if scale_one and not (args['scale'].kind == 'py' and args['scale'].const == 1):
                raise TranslateError('%s is modelled for scale = 1 only' % py)
            ts = []
            for p in need:
                a = args[p]
                if p in ('nu', 'nv'):
                    if a.kind != 'dim':
                        raise TranslateError('%s of %s is not a grid side' % (p, py))
                    ts.append(a.term)
                else:
                    ts.append(it.real(a, src).term)
            if samples:
                a = args[samples]
                if a.kind != 'list' or len(a.items) != 4 or any(x.kind != 'dim' for x in a.items):
                    raise TranslateError('%s of %s is not a list of four sample counts' % (samples, py))
                ts += [x.term for x in a.items]
            return P('grid', '(%s %s)' % (lean, ' '.join(ts)), (args['nu'].term, args['nv'].term))
        self.leaves[(rel, py)] = h

    def leaf_pad_crop(self):
        def pad(it, args, src):
            f = it.as_grid(args['field'], src)
            if f.kind == 'stack':
                raise TranslateError('zero_pad of a stack is not modelled')
            if not (args['size'].kind == 'py' and args['size'].const is None and args['method'].kind == 'py' and args['method'].const == 'center'):
                raise TranslateError('zero_pad with an explicit size / method is not modelled: ' + src)
            sh = (double(f.shape[0]), double(f.shape[1]))
            return it.lift([f], lambda ts: P('grid', '(padGrid %s)' % ts[0], sh), src)

        def crop(it, args, src):
            f = it.as_grid(args['field'], src)
            if f.kind == 'stack':
                raise TranslateError('crop_center of a stack is not modelled')
            if not (args['size'].kind == 'py' and args['size'].const is None):
                raise TranslateError('crop_center with an explicit size is not modelled: ' + src)
            sh = (halve(f.shape[0]), halve(f.shape[1]))
            return it.lift([f], lambda ts: P('grid', '(cropGrid %s)' % ts[0], sh), src)
        self.leaves[(T_MATRIX, 'zero_pad')] = pad
        self.leaves[(T_MATRIX, 'crop_center')] = crop

    # ---- running a job
    def run(self, job):
        mod = Module.get(job.rel)
        fn = find_function(mod.tree, job.py, job.cls)
        names = [a.arg for a in fn.args.args]
        if job.cls is not None:
            names = names[1:]
        for nme in names:
            if nme not in job.params:
                raise TranslateError('parameter %s of %s is not covered by the translator' % (nme, job.py))
        for p in job.params:
            if p not in names and p != 'self':
                raise TranslateError('%s has no parameter %s any more' % (job.py, p))
        it = Interp(self, mod, job.params)
        body = fn.body
        if job.target is not None:
            body = self.after_kernel(it, fn, job)
        r = it.block(body)
        if r is None or r is RAISE:
            raise TranslateError('%s: no return statement reached' % job.py)
        if job.returns is not None:
            r = job.returns(it, r)
        if r.kind not in ('grid', 'ogrid', 'stack', 'raw'):
            raise TranslateError('%s returns a value of kind %s' % (job.py, r.kind))
        job.result = r
        notes = ''.join('\n    not covered here (`none`): %s' % n for n in it.frame.notes)
        rtype = r.const if r.kind == 'raw' else ltype(r)
        lines = ['/-- %s%s -/' % (job.doc, notes),
                 'def %s %s : %s :=' % (job.lean, group_binders(job.binder_values()), rtype)]
        lines += ['  ' + ln for l in it.lets + [r.term] for ln in l.split('\n')]
        self.defs.append('\n'.join(lines))
        self.variants.setdefault((job.rel, job.py), []).append(job)

    def after_kernel(self, it, fn, job):
        """NumPy methods / torch helpers whose kernel formula is regenerated per element elsewhere: bind the kernel variable to that
        definition, translate the scalar statements before the first FFT call that the later statements read, return the rest"""
        var, term, shape, marker = job.target
        body = [st for st in fn.body if not (isinstance(st, ast.Expr) and isinstance(st.value, ast.Constant))]
        k = next((i for i, st in enumerate(body) if marker in ast.unparse(st)), None)
        if k is None:
            raise TranslateError('%s: no statement containing %s' % (job.py, marker))
        pre, post = body[:k], body[k:]
        needed = set()
        for st in post:
            needed |= {n.id for n in ast.walk(st) if isinstance(n, ast.Name) and isinstance(n.ctx, ast.Load)}
        needed.discard(var)
        keep = []
        for st in reversed(pre):
            tg = {n.id for n in ast.walk(st) if isinstance(n, ast.Name) and isinstance(n.ctx, (ast.Store, ast.Del))}
            if not isinstance(st, ast.Assign):
                if tg & needed:
                    raise TranslateError('%s: unsupported statement before the FFT calls writes %s: %s'
                                         % (job.py, sorted(tg & needed), ast.unparse(st)[:60]))
                continue
            if tg & needed:
                keep.append(st)
                needed |= {n.id for n in ast.walk(st.value) if isinstance(n, ast.Name)}
        if var in needed:
            raise TranslateError('%s: a scalar read after the FFT calls start depends on the kernel variable %s' % (job.py, var))
        r = it.block(list(reversed(keep)))
        if r is not None:
            raise TranslateError('%s: return before the FFT calls' % job.py)
        it.env[var] = it.bind(var, P('grid', term, shape))
        return post


def build_jobs(gen):
    """the jobs in dependency order; yields callables so that a failure stops the dependants"""
    OP = P('op')
    n_m = ('n', 'm')
    samples = lambda: P('list', items=[P('dim', 's%d' % k) for k in range(4)])
    jobs = []

    def add(f):
        jobs.append(f)

    # ---------------- per-element kernels not in WaveKernels.lean
    def kernels():
        out = []
        out.append(run_kernel(T_CLASSICAL, 'get_incoherent_angular_spectrum_kernel', 'incoherentCoherentKernelT',
                              [('nu', 'n', 'dim'), ('nv', 'm', 'dim'), ('dx', 'dx', 'r'), ('wavelength', 'lam', 'r'), ('distance', 'z', 'r')],
                              {'device': WK.V('op')}, '(n m : Nat) (dx lam z : α)', 'H', 'correlation_2d', gen.wk_registry,
                              'torch `get_incoherent_angular_spectrum_kernel` (%s), element [i, j] of the coherent kernel `H` before '
                              '`correlation_2d`' % T_CLASSICAL))
        out.append(run_kernel(T_CLASSICAL, 'fraunhofer', 'fraunhoferCoefT',
                              [('field', 'n m', 'field'), ('k', 'k', 'r'), ('distance', 'z', 'r'), ('dx', 'dx', 'r'), ('wavelength', 'lam', 'r')],
                              {}, '(n m : Nat) (dx lam k z : α)', 'c', '.fft.', gen.wk_registry,
                              'torch `fraunhofer` (%s), element [i, j] of the factor `c` in front of the transform' % T_CLASSICAL))
        out.append(run_kernel(N_CLASSICAL, 'fraunhofer', 'fraunhoferCoefN',
                              [('field', 'n m', 'field'), ('k', 'k', 'r'), ('distance', 'z', 'r'), ('dx', 'dx', 'r'), ('wavelength', 'lam', 'r')],
                              {}, '(n m : Nat) (dx lam k z : α)', 'c', '.fft.', gen.wk_registry,
                              'NumPy `fraunhofer` (%s), element [i, j] of the factor `c` in front of the transform' % N_CLASSICAL))
        gen.defs += out
    add(kernels)

    # ---------------- leaves: kernels of WaveKernels.lean, pad / crop
    def leaves():
        gen.leaf_kernel(T_CLASSICAL, 'get_angular_spectrum_kernel', 'asKernelT', ['nu', 'nv', 'dx', 'wavelength', 'distance'], ['device'])
        gen.leaf_kernel(T_CLASSICAL, 'get_transfer_function_fresnel_kernel', 'tfKernelT', ['nu', 'nv', 'dx', 'wavelength', 'distance'], ['device'])
        gen.leaf_kernel(T_CLASSICAL, 'get_band_limited_angular_spectrum_kernel', 'blKernelT', ['nu', 'nv', 'dx', 'wavelength', 'distance'], ['device'])
        gen.leaf_pad_crop()
    add(leaves)

    # ---------------- torch: FFT part of the impulse-response kernel helper, correlation of the incoherent kernel
    add(lambda: gen.run(Job(
        T_CLASSICAL, 'get_impulse_response_fresnel_kernel', 'irKernelT',
        {'nu': P('dim', 'n'), 'nv': P('dim', 'm'), 'dx': R('dx'), 'wavelength': R('lam'), 'distance': R('z'), 'device': OP,
         'scale': PY(1), 'aperture_samples': samples()},
        [('nu', None), ('nv', None), ('dx', None), ('wavelength', None), ('distance', None)] + [('aperture_samples', k) for k in range(4)],
        doc='torch `get_impulse_response_fresnel_kernel` (%s), scale = 1: the statements from the first FFT call on; `h` is '
            '`irSpatialT` of WaveKernels.lean' % T_CLASSICAL,
        target=('h', '(irSpatialT n m dx lam z s0 s1 s2 s3)', n_m, '.fft.'))))
    add(lambda: gen.run(Job(
        T_CLASSICAL, 'get_incoherent_angular_spectrum_kernel', 'incoherentKernelT',
        {'nu': P('dim', 'n'), 'nv': P('dim', 'm'), 'dx': R('dx'), 'wavelength': R('lam'), 'distance': R('z'), 'device': OP},
        [('nu', None), ('nv', None), ('dx', None), ('wavelength', None), ('distance', None)],
        doc='torch `get_incoherent_angular_spectrum_kernel` (%s) from the `correlation_2d` call on (`correlation_2d` of %s inlined); '
            '`H` is `incoherentCoherentKernelT` above' % (T_CLASSICAL, T_MATRIX),
        target=('H', '(incoherentCoherentKernelT n m dx lam z)', n_m, 'correlation_2d'))))

    def leaves2():
        gen.variants.pop((T_CLASSICAL, 'get_impulse_response_fresnel_kernel'), None)
        gen.variants.pop((T_CLASSICAL, 'get_incoherent_angular_spectrum_kernel'), None)
        gen.leaf_kernel(T_CLASSICAL, 'get_impulse_response_fresnel_kernel', 'irKernelT', ['nu', 'nv', 'dx', 'wavelength', 'distance'],
                        ['device'], samples='aperture_samples', scale_one=True)
        gen.leaf_kernel(T_CLASSICAL, 'get_incoherent_angular_spectrum_kernel', 'incoherentKernelT',
                        ['nu', 'nv', 'dx', 'wavelength', 'distance'], ['device'])
    add(leaves2)

    # ---------------- torch: get_propagation_kernel with a dynamic type (the propagator's use)
    add(lambda: gen.run(Job(
        T_CLASSICAL, 'get_propagation_kernel', 'propagationKernelT',
        {'nu': P('dim', 'n'), 'nv': P('dim', 'm'), 'dx': R('dx'), 'wavelength': R('lam'), 'distance': R('z'), 'device': OP,
         'propagation_type': P('str', 'ptype'), 'scale': PY(1), 'samples': samples()},
        [('propagation_type', None), ('nu', None), ('nv', None), ('dx', None), ('wavelength', None), ('distance', None)]
        + [('samples', k) for k in range(4)],
        doc='torch `get_propagation_kernel` (%s), scale = 1: the dispatch on `propagation_type`' % T_CLASSICAL)))

    # ---------------- torch: custom
    cust = lambda zp, field, lean, doc: Job(
        T_CLASSICAL, 'custom', lean,
        {'field': field, 'kernel': G('H', field.shape[-2:]), 'zero_padding': PY(zp), 'aperture': G('A', field.shape[-2:])},
        [('field', None), ('kernel', None), ('aperture', None)], doc=doc)
    add(lambda: gen.run(cust(False, G('u'), 'customT', 'torch `custom(field, kernel, zero_padding = False, aperture)` (%s), a 2-D field' % T_CLASSICAL)))
    add(lambda: gen.run(cust(True, G('u'), 'customPadT', 'torch `custom(field, kernel, zero_padding = True, aperture)` (%s): the product is '
                             'zero-padded in the Fourier domain' % T_CLASSICAL)))
    add(lambda: gen.run(cust(False, P('stack', 'us', ('k', 'n', 'm')), 'customStackT',
                             'torch `custom(field, kernel, zero_padding = False, aperture)` (%s) for a STACK `[k × n × m]` of fields: `fft2` / '
                             '`ifft2` act on the last two axes, a shift called without `dim` rolls every axis (the batch axis too), kernel and '
                             'aperture broadcast over the batch' % T_CLASSICAL)))

    add(lambda: gen.run(Job(
        T_CLASSICAL, 'custom', 'customOnesT',
        {'field': G('u'), 'kernel': PY(None), 'zero_padding': PY(False), 'aperture': G('A')},
        [('field', None), ('aperture', None)],
        doc='torch `custom(field, kernel = None, zero_padding = False, aperture)` (%s): the kernel defaults to ones' % T_CLASSICAL)))

    # ---------------- torch: the methods
    def method(py, lean, zp, extra=None, order_extra=()):
        params = {'field': G('u'), 'k': FORBID('k', py), 'distance': R('z'), 'dx': R('dx'), 'wavelength': R('lam'),
                  'zero_padding': PY(zp), 'aperture': G('A')}
        params.update(extra or {})
        order = [('field', None), ('aperture', None), ('dx', None), ('wavelength', None), ('distance', None)] + list(order_extra)
        return Job(T_CLASSICAL, py, lean + ('PadT' if zp else 'T'), params, order,
                   doc='torch `%s(…, zero_padding = %s, aperture)` (%s)' % (py, zp, T_CLASSICAL))
    for zp in (False, True):
        add(lambda zp=zp: gen.run(method('angular_spectrum', 'angularSpectrum', zp)))
        add(lambda zp=zp: gen.run(method('band_limited_angular_spectrum', 'bandLimitedAngularSpectrum', zp)))
        add(lambda zp=zp: gen.run(method('transfer_function_fresnel', 'transferFunctionFresnel', zp)))
        add(lambda zp=zp: gen.run(method('incoherent_angular_spectrum', 'incoherentAngularSpectrum', zp)))
        add(lambda zp=zp: gen.run(method('impulse_response_fresnel', 'impulseResponseFresnel', zp,
                                         {'scale': PY(1), 'samples': samples()}, [('samples', k) for k in range(4)])))
    add(lambda: gen.run(Job(
        T_CLASSICAL, 'fraunhofer', 'fraunhoferT',
        {'field': G('u'), 'k': R('k'), 'distance': R('z'), 'dx': R('dx'), 'wavelength': R('lam')},
        [('field', None), ('dx', None), ('wavelength', None), ('k', None), ('distance', None)],
        doc='torch `fraunhofer` (%s): the statements from the first FFT call on; `c` is `fraunhoferCoefT` above' % T_CLASSICAL,
        target=('c', '(fraunhoferCoefT n m dx lam k z)', n_m, '.fft.'))))

    # ---------------- torch: propagate_beam, one definition per zero_padding combination
    def beam(p0, p1, p2):
        flags = ''.join('T' if b else 'F' for b in (p0, p1, p2))
        u = G('u', ('(2 * n)', '(2 * m)')) if (p2 and not p0 and not p1) else G('u')
        return Job(
            T_CLASSICAL, 'propagate_beam', 'propagateBeamT_' + flags,
            {'field': u, 'k': R('k'), 'distance': R('z'), 'dx': R('dx'), 'wavelength': R('lam'), 'propagation_type': P('str', 'ptype'),
             'kernel': P('grid', 'Kc', None), 'zero_padding': P('list', items=[PY(p0), PY(p1), PY(p2)]), 'aperture': P('grid', 'A', None),
             'scale': PY(1), 'samples': samples()},
            [('propagation_type', None), ('field', None), ('aperture', None), ('kernel', None), ('dx', None), ('wavelength', None),
             ('k', None), ('distance', None)] + [('samples', k) for k in range(4)],
            doc='torch `propagate_beam(…, zero_padding = [%s, %s, %s], scale = 1)` (%s): dispatch on `propagation_type`; `none` = the '
                'source raises (unknown type)' % (p0, p1, p2, T_CLASSICAL))
    for p0 in (False, True):
        for p1 in (False, True):
            for p2 in (False, True):
                add(lambda a=p0, b=p1, c=p2: gen.run(beam(a, b, c)))

    # ---------------- NumPy
    def npm(py, lean, var, kern):
        return Job(N_CLASSICAL, py, lean,
                   {'field': G('u'), 'k': R('k'), 'distance': R('z'), 'dx': R('dx'), 'wavelength': R('lam')},
                   [('field', None), ('dx', None), ('wavelength', None), ('k', None), ('distance', None)],
                   doc='NumPy `%s` (%s): the statements from the first FFT call on; `%s` is `%s` of WaveKernels.lean (the part before)'
                       % (py, N_CLASSICAL, var, kern),
                   target=(var, '(%s n m dx lam k z)' % kern, n_m, '.fft.'))
    add(lambda: gen.run(npm('angular_spectrum', 'angularSpectrumN', 'H', 'asKernelN')))
    add(lambda: gen.run(npm('band_limited_angular_spectrum', 'bandLimitedAngularSpectrumN', 'H', 'blKernelN')))
    add(lambda: gen.run(npm('transfer_function_fresnel', 'transferFunctionFresnelN', 'H', 'tfKernelN')))
    add(lambda: gen.run(npm('impulse_response_fresnel', 'impulseResponseFresnelN', 'h', 'irKernelN')))
    add(lambda: gen.run(npm('fraunhofer', 'fraunhoferN', 'c', 'fraunhoferCoefN')))
    add(lambda: gen.run(Job(
        N_CLASSICAL, 'propagate_beam', 'propagateBeamN',
        {'field': G('u'), 'k': R('k'), 'distance': R('z'), 'dx': R('dx'), 'wavelength': R('lam'), 'propagation_type': P('str', 'ptype')},
        [('propagation_type', None), ('field', None), ('dx', None), ('wavelength', None), ('k', None), ('distance', None)],
        doc='NumPy `propagate_beam` (%s): dispatch on `propagation_type`; `none` = the source raises (unknown type)' % N_CLASSICAL)))

    # ---------------- propagator.__call__ and reconstruct
    add(lambda: propagator_call(gen))
    add(lambda: reconstruct_calls(gen))
    return jobs


# ---------------------------------------------------------------------------------------------------------------------
# odak.learn.wave.propagator

SELF_FIELDS = [            # attribute of the propagator object -> (Lean field, Lean type) ; resolution = [h, w] are the type indices
    ('distances', 'List α'), ('wavelengths', 'List α'), ('pixel_pitch', 'α'), ('propagation_type', 'String'),
    ('propagator_type', 'String'), ('zero_mode_distance', 'α'), ('image_location_offset', 'α'),
    ('s0', 'Nat'), ('s1', 'Nat'), ('s2', 'Nat'), ('s3', 'Nat'), ('aperture', 'CGrid α (2 * h) (2 * w)'),
]


def propagator_call(gen):
    ks = ('(2 * h)', '(2 * w)')
    attrs = {
        'distances': P('rlist', 'self_.distances'), 'wavelengths': P('rlist', 'self_.wavelengths'),
        'pixel_pitch': R('self_.pixel_pitch'), 'propagation_type': P('str', 'self_.propagation_type'),
        'propagator_type': P('str', 'self_.propagator_type'), 'zero_mode_distance': R('self_.zero_mode_distance'),
        'image_location_offset': R('self_.image_location_offset'),
        'aperture_samples': P('list', items=[P('dim', 'self_.s%d' % k) for k in range(4)]),
        'aperture': P('grid', 'self_.aperture', ks), 'resolution': P('list', items=[P('dim', 'h'), P('dim', 'w')]),
        'resolution_factor': PY(1), 'device': P('op'),
        'kernels': P('kernels', shape=ks), 'generated_kernels': P('flags'),
        '__state__': P('state', 's', ks),
    }
    slf = P('self', 'self_', attrs=attrs, const='propagator')
    state = attrs['__state__']

    def returns(it, r):
        st = it.env['self'].attrs['__state__']
        if r.kind not in ('grid', 'ogrid'):
            raise TranslateError('__call__ does not return a field')
        rt = r.term if r.kind == 'ogrid' else '(some %s)' % r.term
        if st.kind == 'ostate':
            term = '(Option.bind %s fun s\' => Option.map (fun o => (s\', o)) %s)' % (st.term, rt)
        else:
            term = '(Option.map (fun o => (%s, o)) %s)' % (st.term, rt)
        return P('raw', term, r.shape, const='Option (PState α %s %s × %s)' % (ks[0], ks[1], gtype(r.shape)))

    job = Job(T_PROP, '__call__', 'propagatorCallT',
              {'self': slf, 'input_field': G('u', ('h', 'w')), 'channel_id': P('idx', 'channel_id'), 'depth_id': P('idx', 'depth_id')},
              [('self', None), ('__state__', None), ('input_field', None), ('channel_id', None), ('depth_id', None)],
              cls='propagator', returns=returns,
              doc='`odak.learn.wave.propagator.__call__(input_field, channel_id, depth_id)` (%s) as a step function over the kernel cache '
                  '(`kernels` + `generated_kernels` = one association list keyed as the source keys them): new cache and output field; '
                  '`resolution = [h, w]`, `resolution_factor = 1`; `none` = the source raises (unknown propagation / propagator type)' % T_PROP)
    job.params['__state__'] = state
    struct = ['/-- the attributes of `odak.learn.wave.propagator` (%s) that the model of `__call__` may read; `resolution = [h, w]`, '
              '`aperture_samples = [s0, s1, s2, s3]` -/' % T_PROP,
              'structure PropagatorSelf (α : Type) (h w : Nat) where']
    struct += ['  %s : %s' % f for f in SELF_FIELDS]
    gen.defs.append('\n'.join(struct))
    # `__state__` is not a Python parameter: run() checks parameters against the signature, so add it afterwards
    del job.params['__state__']
    job.order = [o for o in job.order if o[0] != '__state__']
    orig = job.binder_values

    def binder_values():
        vals = orig()
        return [vals[0], state] + vals[1:]
    job.binder_values = binder_values
    gen.run(job)


def reconstruct_calls(gen):
    """the loop nest of `reconstruct`: which loops, in which order, and which loop variables each argument of `__call__` depends on"""
    mod = Module.get(T_PROP)
    fn = find_function(mod.tree, 'reconstruct', 'propagator')
    call_fn = find_function(mod.tree, '__call__', 'propagator')
    call_params = [a.arg for a in call_fn.args.args][1:]
    loops, node = [], None
    cur = [st for st in fn.body if isinstance(st, ast.For)]
    if len(cur) != 1:
        raise TranslateError('reconstruct: expected exactly one top-level loop')
    st = cur[0]
    while True:
        if not (isinstance(st.target, ast.Name) and isinstance(st.iter, ast.Call) and ast.unparse(st.iter.func) == 'range'
                and len(st.iter.args) == 1 and isinstance(st.iter.args[0], ast.Attribute) and ast.unparse(st.iter.args[0].value) == 'self'):
            raise TranslateError('reconstruct: unsupported loop header ' + ast.unparse(st)[:60])
        loops.append((st.target.id, st.iter.args[0].attr))
        inner = [x for x in st.body if isinstance(x, ast.For)]
        if len(inner) == 1 and len(st.body) == 1:
            st = inner[0]
            continue
        if inner:
            raise TranslateError('reconstruct: loops are not perfectly nested')
        node = st
        break
    bounds = {'number_of_frames': 'frames', 'number_of_depth_layers': 'depths', 'number_of_channels': 'channels'}
    if sorted(b for _, b in loops) != sorted(bounds):
        raise TranslateError('reconstruct: the loops do not range over frames, depth layers and channels: %s' % loops)
    loop_vars = [v for v, _ in loops]
    # dependencies of every local on the loop variables
    deps = {v: {v} for v in loop_vars}
    calls = []
    for x in node.body:
        if isinstance(x, ast.Assign) and len(x.targets) == 1:
            d = set()
            for n in ast.walk(x.value):
                if isinstance(n, ast.Name) and n.id in deps:
                    d |= deps[n.id]
            for n in ast.walk(x.value):
                if isinstance(n, ast.Call) and ast.unparse(n.func) in ('self.__call__', 'self'):
                    calls.append(n)
            if isinstance(x.targets[0], ast.Name):
                deps[x.targets[0].id] = d
    if len(calls) != 1:
        raise TranslateError('reconstruct: expected exactly one call of __call__ in the loop body')
    c = calls[0]
    bound = {}
    for p, a in zip(call_params, c.args):
        bound[p] = a
    for kw in c.keywords:
        bound[kw.arg] = kw.value
    if set(bound) != set(call_params):
        raise TranslateError('reconstruct: unsupported argument list of __call__')
    for p in ('channel_id', 'depth_id'):
        if not (isinstance(bound[p], ast.Name) and bound[p].id in loop_vars):
            raise TranslateError('reconstruct: argument %s of __call__ is not a loop variable' % p)
    fd = set()
    for n in ast.walk(bound['input_field']):
        if isinstance(n, ast.Name) and n.id in deps:
            fd |= deps[n.id]
    fargs = [v for v in loop_vars if v in fd]
    if len(fargs) != 2:
        raise TranslateError('reconstruct: the field handed to __call__ depends on %s (the model has a field per two loop indices)' % fargs)
    rng = {v: bounds[b] for v, b in loops}
    text = '(%s, %s, hologram %s)' % (bound['depth_id'].id, bound['channel_id'].id, ' '.join(fargs))
    v, _ = loops[-1]
    text = '(List.range %s).map fun %s => %s' % (rng[v], v, text)
    for v, _ in reversed(loops[:-1]):
        text = '(List.range %s).flatMap fun %s => %s' % (rng[v], v, text)
    gen.defs.append('\n'.join([
        '/-- the calls `propagator.reconstruct` (%s) makes, in order: one `(depth_id, channel_id, field)` per `__call__`, loops nested as '
        'in the source (%s); the field handed over depends on (%s) only -/' % (T_PROP, ' > '.join(loop_vars), ', '.join(fargs)),
        'def reconstructCallsT {β : Type} (frames depths channels : Nat) (hologram : Nat → Nat → β) : List (Nat × Nat × β) :=',
        '  ' + text]))


def generate():
    Module.cache = {}
    srcs = ', '.join((T_CLASSICAL, T_MATRIX, T_PROP, N_CLASSICAL))
    head = ['/- GENERATED by harness/translate/pipelines.py from %s – do not edit. -/' % srcs,
            'import OdakModel.Stack', 'import OdakModel.Generated.WaveKernels', 'namespace Odak.Gen',
            'variable {α : Type} [Num α] {n m k h w : Nat}', '']
    gen = Generator()
    errors = []
    # the per-element interpreter resolves `wavenumber(…)` etc. through the registry of wavekernels.py
    for j in WK.jobs():
        if not j['grid']:
            gen.wk_registry[(j['rel'], j['py'])] = j
    for f in build_jobs(gen):
        try:
            f()
        except (TranslateError, OSError, SyntaxError, KeyError, IndexError, AttributeError, TypeError, ValueError) as e:
            errors.append('%s: %s' % (type(e).__name__, e))
    out = head
    for d in gen.defs:
        out += [d, '']
    out += ['end Odak.Gen', '']
    return '\n'.join(out), errors


if __name__ == '__main__':
    t, e = generate()
    print(t)
    print(e)
