"""Regenerates Generated/Defocus.lean: the defocus targets of the multiplane losses

    odak/learn/tools/matrix.py   generate_2d_gaussian          (sample positions `linspace(-L/2, L/2, L)`, the sigma floor for a zero
                                                                sigma, the Gaussian formula; `mu`, `normalize` at their defaults)
    odak/learn/wave/loss.py      multiplane_loss.add_defocus_blur, perceptual_multiplane_loss.add_defocus_blur
                                                               (sigma of the pair (i, j), the guard, the kernel normalisation, the
                                                                convolution call, the accumulation over j, the store, the multiplier)
                                 the statements of both `__init__` that make `target_blur_size` odd

translated statement by statement (odak is never executed).  `generate_2d_gaussian` goes through the per-element interpreter of
wavekernels.py (plus `list(x)` and the data-dependent floor `if nsigma[k] == 0: nsigma[k] = c`).  `add_defocus_blur` goes through the
small interpreter below, for ONE pixel of ONE channel:

  values   'nat' / 'int' (Python ints: loop variables, sizes), 'r' (scalar of type α), 'prop' (a decidable test), 'list',
           'img'    an image, lazily: position (dy, dx) relative to the pixel -> Lean term.  Inputs `self.targets[p, ch]`, `self.masks[p, ch]`
                    are `cache p dy dx`, `mask p dy dx` (zero outside the image: that is `padding = 'same'`); `torch.sum` of a whole input
                    image is the input `cacheSum p`
           'stack'  images indexed by the plane, 'cstack' the same with a channel axis, 'ker' an n x m array of weights (a `let`)
  loops    `for x in range(..)` whose body carries no variable from one pass to the next: the loop variable becomes a binder of the
           definition (`i`; the channel is not an argument).  A loop that carries variables (`defocus`) becomes a left fold over
           `List.range`
  if       a data-dependent / index test without `else`: every variable assigned under it and defined before is merged
           (`if test then new else old`), everything else assigned under it is not available afterwards
  stores   `self.targets[i, ch] = value` (the cache must have been taken with `.clone()`, otherwise later planes would read the stores)
  calls    `generate_2d_gaussian` (the definition generated above), `conv2d(input, kernel, padding = 'same')` -> `convSame` (hand-written
           vocabulary, OdakModel/DefocusPrelude.lean: one output pixel as a weighted sum over the taps)

`...M` = multiplane_loss, `...P` = perceptual_multiplane_loss.  Tie theorems: lean/OdakProofs/Lemmas/GenDefocus.lean; executable tie:
harness/props/gendefocus.py.  Anything outside this grammar raises TranslateError: the error is returned and `generate_all` keeps the
accepted file."""
import ast
import os
import re
from .pyexpr import TranslateError, find_function
from . import wavekernels as WK
from .wavekernels import Module, V, lit

REPO = os.environ.get('ODAK_REPO', '/repo')
FILE = 'Defocus.lean'
LOSS, MATRIX = 'odak/learn/wave/loss.py', 'odak/learn/tools/matrix.py'
GAUSS = 'gaussian2dT'


# =====================================================================================================================
#  generate_2d_gaussian
# =====================================================================================================================

class GInterp(WK.Interp):
    """wavekernels' per-element interpreter + `list(x)` + `if nsigma[k] == c0: nsigma[k] = c1`"""

    def call(self, node, src):
        if isinstance(node.func, ast.Name) and node.func.id == 'list' and len(node.args) == 1 and not node.keywords:
            v = self.ev(node.args[0])
            if v.kind not in ('list', 'tuple'):
                raise TranslateError('list() of something that is not a list: ' + src)
            return V('list', items=list(v.items))
        return WK.Interp.call(self, node, src)

    def floor_if(self, st):
        t = st.test
        if st.orelse or len(st.body) != 1 or not isinstance(st.body[0], ast.Assign) or len(st.body[0].targets) != 1:
            return False
        tg, val = st.body[0].targets[0], st.body[0].value
        if not (isinstance(t, ast.Compare) and len(t.ops) == 1 and isinstance(t.ops[0], ast.Eq) and isinstance(t.left, ast.Subscript)
                and isinstance(tg, ast.Subscript) and ast.unparse(tg) == ast.unparse(t.left) and isinstance(t.left.value, ast.Name)
                and isinstance(t.left.slice, ast.Constant) and isinstance(t.left.slice.value, int)):
            return False
        name, k = t.left.value.id, t.left.slice.value
        base = self.env.get(name)
        if base is None or base.kind != 'list' or not 0 <= k < len(base.items):
            raise TranslateError('unsupported conditional store ' + ast.unparse(st)[:60])
        s = self.real(base.items[k], ast.unparse(t))
        c0 = self.real(self.ev(t.comparators[0]), ast.unparse(t))
        c1 = self.real(self.ev(val), ast.unparse(st.body[0]))
        if s.shape is not None or c0.shape is not None or c1.shape is not None:
            raise TranslateError('array-valued conditional store ' + ast.unparse(st)[:60])
        n = self.fresh('%s%d' % (name, k))
        self.emit(n, 'α', '(if (%s ≤ %s ∧ %s ≤ %s) then %s else %s)' % (s.term, c0.term, c0.term, s.term, c1.term, s.term))
        items = list(base.items)
        items[k] = V('r', n)
        self.env[name] = V('list', items=items)
        return True

    def block(self, body):
        for st in body:
            if isinstance(st, ast.If) and self.floor_if(st):
                continue
            r = WK.Interp.block(self, [st])
            if r is not None:
                return r
        return None


def literal_default(node, what):
    if isinstance(node, ast.Constant) and isinstance(node.value, (bool, int, float)):
        if isinstance(node.value, bool):
            return V('py', const=node.value)
        return V('r', lit(node.value), const=node.value)
    if isinstance(node, (ast.List, ast.Tuple)):
        return V('list', items=[literal_default(e, what) for e in node.elts])
    raise TranslateError('default of %s is not a literal: %s' % (what, ast.unparse(node)))


def gaussian():
    mod = Module.get(MATRIX)
    fn = find_function(mod.tree, 'generate_2d_gaussian')
    names = [a.arg for a in fn.args.args]
    if names[:2] != ['kernel_length', 'nsigma']:
        raise TranslateError('generate_2d_gaussian: the first two parameters are %s' % names[:2])
    defaults = dict(zip(names[len(names) - len(fn.args.defaults):], fn.args.defaults))
    env = {'kernel_length': V('list', items=[V('dim', 'n'), V('dim', 'm')]),
           'nsigma': V('list', items=[V('r', 'nsigma0'), V('r', 'nsigma1')])}
    shown = []
    for p in names[2:]:
        if p not in defaults:
            raise TranslateError('generate_2d_gaussian: parameter %s has no default' % p)
        env[p] = literal_default(defaults[p], p)
        shown.append('%s = %s' % (p, ast.unparse(defaults[p])))
    it = GInterp(mod, fn, env, {}, stop_at_fft=False)
    res = it.block(fn.body)
    if res is None or isinstance(res, str):
        raise TranslateError('generate_2d_gaussian: no return statement')
    res = it.real(res, 'generate_2d_gaussian')
    shape = res.shape or it.grid
    if shape is None or tuple(shape) != ('n', 'm'):
        raise TranslateError('generate_2d_gaussian: the result is not an n × m grid (%s)' % (shape,))
    lines = ['/-- torch `generate_2d_gaussian(kernel_length = [n, m], nsigma%s)` (%s), element [i, j] -/'
             % (''.join(', ' + s for s in shown), MATRIX),
             'def %s (n m : Nat) (nsigma0 nsigma1 : α) (i : Fin n) (j : Fin m) : α :=' % GAUSS]
    lines += ['  ' + ln for l in it.lets + [res.term] for ln in l.split('\n')]
    return '\n'.join(lines), len(names)


# =====================================================================================================================
#  add_defocus_blur
# =====================================================================================================================

PIX = ('0', '0')
LAYOUT = ('detach', 'clone', 'unsqueeze', 'squeeze', 'to', 'view', 'reshape', 'float', 'contiguous', 'cpu')
TOK = re.compile(r"[A-Za-z_][A-Za-z0-9_']*")


def padd(p, q):
    def add(a, b):
        if a == '0':
            return b
        if b == '0':
            return a
        return '(%s + %s)' % (a, b)
    return (add(p[0], q[0]), add(p[1], q[1]))


class D:
    def __init__(self, kind, term=None, items=None, fn=None, size=None, const=None, total=None, name=None):
        self.kind, self.term, self.items, self.fn, self.size, self.const, self.total, self.name = kind, term, items, fn, size, const, total, name


def prune(lets, roots):
    """the lets the root terms depend on (in order)"""
    need = set()
    for r in roots:
        need |= set(TOK.findall(r))
    keep = []
    for n, t, e in reversed(lets):
        if n in need:
            keep.append((n, t, e))
            need |= set(TOK.findall(e))
    return list(reversed(keep))


def indent(text, k):
    return '\n'.join(' ' * k + l for l in text.split('\n'))


def scoped(lets, term):
    """`(let a := ..; let b := ..; term)` with only the lets the term needs"""
    lets = prune(lets, [term])
    if not lets:
        return term
    body = ''.join('let %s : %s := %s;\n' % (n, t, e) for n, t, e in lets)
    return '(' + indent(body + term, 1).lstrip() + ')'


class DInterp:
    def __init__(self, env, gauss_arity, cls):
        self.env = dict(env)
        self.scopes = [[]]                 # let lists, innermost last
        self.counter = 0
        self.gauss_arity = gauss_arity
        self.cls = cls
        self.binders = []                  # loop variables that became binders
        self.probes = {}
        self.fold_pos = None

    # ------------------------------------------------------------------ helpers
    def fresh(self, base):
        self.counter += 1
        return '%s_%d' % (base, self.counter)

    def let(self, base, typ, expr):
        n = self.fresh(base)
        self.scopes[-1].append((n, typ, expr))
        return n

    def visible(self):
        return [l for s in self.scopes for l in s]

    def real(self, v, what):
        if v.kind == 'r':
            return v
        if v.kind == 'nat':
            return D('r', '(Num.ofNat %s)' % v.term)
        raise TranslateError('expected a number in %s, got %s' % (what, v.kind))

    def bind(self, name, v):
        if v.kind == 'r':
            if v.const is not None or TOK.fullmatch(v.term):
                return v
            return D('r', self.let(name, 'α', v.term))
        if v.kind == 'list':
            return D('list', items=[self.bind('%s%d' % (name, k), x) for k, x in enumerate(v.items)])
        if v.kind == 'ker':
            if v.name is not None:
                return v
            n = self.let(name, 'Fin %s → Fin %s → α' % v.size, 'fun a b => %s' % v.fn('a', 'b'))
            return D('ker', fn=lambda a, b, n=n: '(%s %s %s)' % (n, a, b), size=v.size, name=n)
        return v

    # ------------------------------------------------------------------ expressions
    def ev(self, node):
        src = ast.unparse(node)
        if isinstance(node, ast.Constant):
            c = node.value
            if isinstance(c, bool) or c is None:
                return D('py', const=c)
            if isinstance(c, str):
                return D('str', const=c)
            if isinstance(c, int) and c >= 0:
                return D('nat', str(c), const=c)
            if isinstance(c, (int, float)):
                return D('r', lit(c), const=c)
            raise TranslateError('unsupported constant ' + src)
        if isinstance(node, ast.Name):
            return self.name(node.id)
        if isinstance(node, ast.Attribute):
            if isinstance(node.value, ast.Name) and node.value.id == 'self':
                return self.name('self.' + node.attr)
            if node.attr in ('shape', 'device', 'dtype'):
                self.ev(node.value)
                return D('op')
            raise TranslateError('unsupported attribute ' + src)
        if isinstance(node, (ast.List, ast.Tuple)):
            return D('list', items=[self.ev(e) for e in node.elts])
        if isinstance(node, ast.Subscript):
            return self.subscript(self.ev(node.value), node.slice, src)
        if isinstance(node, ast.UnaryOp) and isinstance(node.op, ast.USub):
            a = self.ev(node.operand)
            if a.kind == 'img':
                return D('img', fn=lambda pos: '(-%s)' % a.fn(pos))
            if a.kind == 'int':
                return D('int', '(-%s)' % a.term)
            if a.kind == 'nat':
                return D('int', '(-(%s : Int))' % a.term)
            return D('r', '(-%s)' % self.real(a, src).term)
        if isinstance(node, ast.BinOp):
            return self.binop(type(node.op), self.ev(node.left), self.ev(node.right), src)
        if isinstance(node, ast.Compare) and len(node.ops) == 1:
            return self.compare(type(node.ops[0]), self.ev(node.left), self.ev(node.comparators[0]), src)
        if isinstance(node, ast.Call):
            return self.call(node, src)
        raise TranslateError('unsupported expression ' + src)

    def name(self, n):
        v = self.env.get(n)
        if v is None:
            raise TranslateError('unknown name ' + n)
        if v.kind == 'poison':
            raise TranslateError('%s is not available here (%s)' % (n, v.term))
        return v

    def subscript(self, base, sl, src):
        idx = list(sl.elts) if isinstance(sl, ast.Tuple) else [sl]
        full = lambda e: isinstance(e, ast.Slice) and e.lower is None and e.upper is None and e.step is None
        if base.kind == 'op':
            return base
        if base.kind == 'list' and len(idx) == 1 and isinstance(idx[0], ast.Constant) and isinstance(idx[0].value, int):
            try:
                return base.items[idx[0].value]
            except IndexError:
                raise TranslateError('index out of range ' + src)
        if base.kind == 'cstack' and len(idx) == 2:
            if self.ev(idx[1]).kind != 'chan':
                raise TranslateError('the second index is not the channel in ' + src)
            if full(idx[0]):
                return D('stack', fn=base.fn, size=base.size)
            p = self.ev(idx[0])
            if p.kind != 'nat':
                raise TranslateError('the plane index is not a loop variable in ' + src)
            return base.fn(p.term)
        if base.kind == 'stack' and len(idx) == 1 and not full(idx[0]):
            p = self.ev(idx[0])
            if p.kind != 'nat':
                raise TranslateError('the plane index is not a loop variable in ' + src)
            return base.fn(p.term)
        raise TranslateError('unsupported subscript ' + src)

    def binop(self, op, a, b, src):
        sym = {ast.Add: '+', ast.Sub: '-', ast.Mult: '*', ast.Div: '/', ast.Mod: '%'}.get(op)
        if sym is None:
            raise TranslateError('unsupported operator in ' + src)
        if a.kind == 'nat' and b.kind == 'nat':
            if sym in '+*%':
                return D('nat', '(%s %s %s)' % (a.term, sym, b.term))
            if sym == '-':
                return D('int', '((%s : Int) - (%s : Int))' % (a.term, b.term))
        if sym == '%':
            raise TranslateError('unsupported operands of %% in ' + src)
        if a.kind == 'img' or b.kind == 'img':
            fa = a.fn if a.kind == 'img' else (lambda pos, t=self.real(a, src).term: t)
            fb = b.fn if b.kind == 'img' else (lambda pos, t=self.real(b, src).term: t)
            return D('img', fn=lambda pos: '(%s %s %s)' % (fa(pos), sym, fb(pos)))
        if a.kind == 'cstack' and b.kind in ('r', 'nat'):
            t = self.real(b, src).term
            return D('cstack', fn=lambda p: D('img', fn=lambda pos: '(%s %s %s)' % (a.fn(p).fn(pos), sym, t)), size=a.size)
        if a.kind == 'ker' and b.kind in ('r', 'nat'):
            t = self.real(b, src).term
            return D('ker', fn=lambda x, y: '(%s %s %s)' % (a.fn(x, y), sym, t), size=a.size)
        if a.kind in ('r', 'nat') and b.kind in ('r', 'nat'):
            return D('r', '(%s %s %s)' % (self.real(a, src).term, sym, self.real(b, src).term))
        raise TranslateError('unsupported operands (%s %s %s) in %s' % (a.kind, sym, b.kind, src))

    def compare(self, op, a, b, src):
        if a.kind == 'nat' and b.kind == 'nat' and op is ast.Eq:
            return D('prop', '%s = %s' % (a.term, b.term))
        if a.kind in ('r', 'nat') and b.kind in ('r', 'nat') and 'r' in (a.kind, b.kind):
            x, y = self.real(a, src).term, self.real(b, src).term
            rel = {ast.Gt: '%s < %s' % (y, x), ast.Lt: '%s < %s' % (x, y), ast.GtE: '%s ≤ %s' % (y, x), ast.LtE: '%s ≤ %s' % (x, y)}.get(op)
            if rel is not None:
                return D('prop', rel)
        raise TranslateError('unsupported comparison ' + src)

    def kwargs(self, node, allowed, src):
        out = {}
        for k in node.keywords:
            if k.arg not in allowed:
                raise TranslateError('unsupported keyword %s in %s' % (k.arg, src))
            out[k.arg] = k.value
        return out

    def call(self, node, src):
        f = ast.unparse(node.func)
        if isinstance(node.func, ast.Attribute) and node.func.attr in LAYOUT and f.split('.')[0] not in ('torch', 'np'):
            return self.ev(node.func.value)
        if f == 'range' and len(node.args) == 1 and not node.keywords:
            return D('range', size=self.ev(node.args[0]))
        if f == 'abs' and len(node.args) == 1:
            a = self.ev(node.args[0])
            if a.kind == 'int':
                return D('nat', '(Int.natAbs %s)' % a.term)
            if a.kind == 'nat':
                return a
            return D('r', '(Num.abs %s)' % self.real(a, src).term)
        if f == 'int' and len(node.args) == 1:
            a = self.ev(node.args[0])
            if a.kind == 'nat':
                return a
            return D('r', '(Num.trunc %s)' % self.real(a, src).term)
        if f == 'torch.abs' and len(node.args) == 1 and not node.keywords:
            a = self.ev(node.args[0])
            if a.kind == 'img':
                return D('img', fn=lambda pos: '(Num.abs %s)' % a.fn(pos))
            return D('r', '(Num.abs %s)' % self.real(a, src).term)
        if f == 'torch.zeros_like' and len(node.args) == 1 and not node.keywords:
            a = self.ev(node.args[0])
            if a.kind != 'img':
                raise TranslateError('zeros_like of something that is not an image: ' + src)
            return D('img', fn=lambda pos: '(Num.ofNat 0)')
        if f == 'torch.sum':
            kw = self.kwargs(node, ('axis', 'dim'), src)
            if len(node.args) != 1:
                raise TranslateError('unsupported sum ' + src)
            a = self.ev(node.args[0])
            ax = kw.get('axis', kw.get('dim'))
            if a.kind == 'stack' and ax is not None and ast.unparse(ax) == '0':
                if a.size is None:
                    raise TranslateError('sum over an axis of unknown length: ' + src)
                p = self.fresh('p')
                return D('img', fn=lambda pos: '((List.range %s).foldl (fun acc %s => acc + %s) (Num.ofNat 0))' % (a.size, p, a.fn(p).fn(pos)))
            if ax is not None:
                raise TranslateError('unsupported sum ' + src)
            if a.kind == 'img' and a.total is not None:
                return D('r', a.total)
            if a.kind == 'ker':
                a = self.bind('kernel', a)
                return D('r', self.let('sum', 'α', '(gridSumR %s %s %s)' % (a.size[0], a.size[1], a.name)))
            raise TranslateError('unsupported sum ' + src)
        if f == 'generate_2d_gaussian':
            if node.keywords or len(node.args) != 2:
                raise TranslateError('generate_2d_gaussian is modelled with kernel_length and nsigma only: ' + src)
            kl, ns = self.ev(node.args[0]), self.ev(node.args[1])
            if kl.kind != 'list' or len(kl.items) != 2 or any(x.kind != 'nat' for x in kl.items):
                raise TranslateError('kernel_length is not a pair of sizes in ' + src)
            if ns.kind != 'list' or len(ns.items) != 2:
                raise TranslateError('nsigma is not a pair in ' + src)
            s = [self.real(x, src).term for x in ns.items]
            n, m = kl.items[0].term, kl.items[1].term
            self.probes.setdefault('sigma', (self.visible(), s))
            return D('ker', fn=lambda a, b: '(%s %s %s %s %s %s %s)' % (GAUSS, n, m, s[0], s[1], a, b), size=(n, m))
        if f in ('torch.nn.functional.conv2d', 'F.conv2d', 'conv2d'):
            kw = self.kwargs(node, ('padding',), src)
            if len(node.args) != 2 or 'padding' not in kw or not (isinstance(kw['padding'], ast.Constant) and kw['padding'].value == 'same'):
                raise TranslateError("conv2d is modelled as conv2d(input, kernel, padding = 'same') only: " + src)
            inp, ker = self.ev(node.args[0]), self.ev(node.args[1])
            if inp.kind != 'img' or ker.kind != 'ker':
                raise TranslateError('conv2d of (%s, %s) in %s' % (inp.kind, ker.kind, src))
            ker = self.bind('kernel', ker)
            self.probes.setdefault('kernel', (self.visible(), ker))
            y, x = self.fresh('y'), self.fresh('x')
            return D('img', fn=lambda pos: '(convSame %s %s %s (fun %s %s => %s))' % (ker.size[0], ker.size[1], ker.name, y, x, inp.fn(padd(pos, (y, x)))))
        raise TranslateError('unsupported call ' + src)

    # ------------------------------------------------------------------ statements
    def assign(self, name, v):
        self.env[name] = self.bind(name.replace('self.', ''), v)

    def exec_block(self, stmts):
        for st in stmts:
            src = ast.unparse(st)
            if isinstance(st, ast.Expr) and isinstance(st.value, ast.Constant):
                continue
            if isinstance(st, ast.Assign) and len(st.targets) == 1:
                t = st.targets[0]
                if isinstance(t, ast.Name):
                    self.check_fresh_copy(t.id, st.value)
                    self.assign(t.id, self.ev(st.value))
                    continue
                if isinstance(t, ast.Attribute) and isinstance(t.value, ast.Name) and t.value.id == 'self':
                    self.assign('self.' + t.attr, self.ev(st.value))
                    continue
                if isinstance(t, ast.Subscript):
                    self.store(t, self.ev(st.value), src)
                    continue
            if isinstance(st, ast.AugAssign) and isinstance(st.target, ast.Attribute) and ast.unparse(st.target).startswith('self.'):
                n = ast.unparse(st.target)
                self.assign(n, self.binop(type(st.op), self.name(n), self.ev(st.value), src))
                continue
            if isinstance(st, ast.For) and isinstance(st.target, ast.Name) and not st.orelse:
                self.loop(st, src)
                continue
            if isinstance(st, ast.If):
                self.exec_if(st, src)
                continue
            raise TranslateError('unsupported statement ' + src[:80])

    def check_fresh_copy(self, name, value):
        """a view of `self.targets` that is read after stores to `self.targets` must be a copy"""
        reads = any(isinstance(n, ast.Attribute) and n.attr == 'targets' for n in ast.walk(value))
        if reads and not any(isinstance(n, ast.Call) and isinstance(n.func, ast.Attribute) and n.func.attr == 'clone' for n in ast.walk(value)):
            raise TranslateError('%s is a view of self.targets (no .clone()): the stores to self.targets would change it' % name)

    def store(self, target, v, src):
        if not (ast.unparse(target.value) == 'self.targets' and isinstance(target.slice, ast.Tuple) and len(target.slice.elts) == 2):
            raise TranslateError('unsupported store ' + src[:80])
        p, c = self.ev(target.slice.elts[0]), self.ev(target.slice.elts[1])
        if p.kind != 'nat' or p.term not in self.binders or c.kind != 'chan':
            raise TranslateError('the store is not indexed by (plane loop variable, channel): ' + src[:80])
        if v.kind != 'img':
            raise TranslateError('the stored value is not an image: ' + src[:80])
        old = self.name('self.targets')
        if getattr(old, 'stored', False):
            raise TranslateError('self.targets is stored to twice')
        var = p.term

        def fn(idx):
            if idx != var:
                raise TranslateError('self.targets is read at plane %s after the store at plane %s' % (idx, var))
            return v
        new = D('cstack', fn=fn, size=old.size)
        new.stored = True
        self.env['self.targets'] = new

    def assigned_names(self, stmts):
        out = set()
        for st in stmts:
            for n in ast.walk(st):
                if isinstance(n, ast.Name) and isinstance(n.ctx, ast.Store):
                    out.add(n.id)
                if isinstance(n, ast.Attribute) and isinstance(n.ctx, ast.Store) and ast.unparse(n).startswith('self.'):
                    out.add(ast.unparse(n))
        return out

    def loop(self, st, src):
        rng = self.ev(st.iter)
        if rng.kind != 'range':
            raise TranslateError('loop over something that is not a range: ' + src[:60])
        var = st.target.id
        carried = sorted(n for n in self.assigned_names(st.body) if n in self.env and self.env[n].kind != 'poison' and n != var)
        if not carried:
            # every pass is independent of the others: the loop variable becomes a binder (or the channel)
            if rng.size.kind == 'op':
                self.env[var] = D('chan')
            elif rng.size.kind == 'nat':
                if var in self.binders:
                    raise TranslateError('two loops over ' + var)
                self.binders.append(var)
                self.env[var] = D('nat', var)
            else:
                raise TranslateError('unsupported loop range ' + src[:60])
            before = set(self.env)
            self.exec_block(st.body)
            for n in set(self.env) - before:
                if not n.startswith('self.'):
                    self.env[n] = D('poison', 'assigned inside the loop over ' + var)
            return
        if rng.size.kind != 'nat':
            raise TranslateError('a loop that carries %s over an unknown range: %s' % (carried, src[:60]))
        if len(carried) != 1 or self.env[carried[0]].kind != 'img':
            raise TranslateError('a loop must carry exactly one image (it carries %s): %s' % (carried, src[:60]))
        acc = carried[0]
        init = self.env[acc]
        accv = self.fresh(acc + '_c')
        before = dict(self.env)

        def acc_fn(pos):
            if pos != self.fold_pos:
                raise TranslateError('the accumulator %s is read at another pixel inside the loop' % acc)
            return accv
        self.env[acc] = D('img', fn=acc_fn)
        self.env[var] = D('nat', var)
        self.scopes.append([])
        self.exec_block(st.body)
        body_lets = self.scopes.pop()
        new = self.env[acc]
        self.env = before
        for n in self.assigned_names(st.body) | {var}:
            if n != acc:
                self.env[n] = D('poison', 'assigned inside the loop over ' + var)
        if new.kind != 'img':
            raise TranslateError('the accumulator %s is no longer an image after the loop body' % acc)
        size = rng.size.term

        def fold(pos):
            saved, self.fold_pos = self.fold_pos, pos
            try:
                body = scoped(body_lets, new.fn(pos))
            finally:
                self.fold_pos = saved
            return '((List.range %s).foldl (fun (%s : α) (%s : Nat) =>\n%s) %s)' % (size, accv, var, indent(body, 2), init.fn(pos))
        self.env[acc] = D('img', fn=fold)

    def exec_if(self, st, src):
        if st.orelse:
            raise TranslateError('an if with an else branch: ' + src[:60])
        test = self.ev(st.test)
        if test.kind != 'prop':
            raise TranslateError('unsupported test ' + ast.unparse(st.test))
        before = dict(self.env)
        self.scopes.append([])
        self.exec_block(st.body)
        lets = self.scopes.pop()
        after, self.env = self.env, dict(before)
        for n, new in after.items():
            old = before.get(n)
            if old is new:
                continue
            if old is None or old.kind == 'poison':
                self.env[n] = D('poison', 'assigned only under `if %s`' % ast.unparse(st.test))
                continue
            self.env[n] = self.bind(n.replace('self.', ''), self.merge(test.term, lets, new, old, n))

    def merge(self, test, lets, new, old, what):
        if new.kind == 'list' and old.kind == 'list' and len(new.items) == len(old.items):
            return D('list', items=[self.merge(test, lets, a, b, what) for a, b in zip(new.items, old.items)])
        if new.kind == 'nat' and old.kind == 'nat' and not prune(lets, [new.term]):      # `if n % 2 == 0: n += 1` on Python ints
            return D('nat', '(if %s then %s else %s)' % (test, new.term, old.term))
        if new.kind in ('r', 'nat') and old.kind in ('r', 'nat'):
            a, b = self.real(new, what), self.real(old, what)
            return D('r', '(if %s then %s else %s)' % (test, scoped(lets, a.term), b.term))
        if new.kind == 'img' and old.kind == 'img':
            return D('img', fn=lambda pos: '(if %s then\n%s\nelse %s)' % (test, indent(scoped(lets, new.fn(pos)), 2), old.fn(pos)))
        raise TranslateError('cannot merge the two values of %s (%s, %s) after `if %s`' % (what, new.kind, old.kind, test))


ATTRS = lambda: {
    'self.target_blur_size': D('nat', 'blur'), 'self.number_of_planes': D('nat', 'planes'), 'self.blur_ratio': D('r', 'blur_ratio'),
    'self.multiplier': D('r', 'multiplier'), 'self.device': D('op'), 'self.target_image': D('op'),
    'self.targets': D('cstack', size='planes',
                      fn=lambda p: D('img', fn=lambda pos: '(cache %s %s %s)' % (p, pos[0], pos[1]), total='(cacheSum %s)' % p)),
    'self.masks': D('cstack', size='planes', fn=lambda p: D('img', fn=lambda pos: '(mask %s %s %s)' % (p, pos[0], pos[1]))),
}
INPUTS = ('cache', 'cacheSum', 'mask', 'multiplier', 'planes', 'blur', 'blur_ratio')


def free_inputs(text, allowed):
    bad = sorted(set(TOK.findall(text)) & (set(INPUTS) - set(allowed)))
    if bad:
        raise TranslateError('depends on %s, which the definition has no argument for' % bad)


def defocus(cls, sfx, gauss_arity):
    mod = Module.get(LOSS)
    fn = find_function(mod.tree, 'add_defocus_blur', cls)
    if [a.arg for a in fn.args.args] != ['self']:
        raise TranslateError('%s.add_defocus_blur: parameter list changed' % cls)
    it = DInterp(ATTRS(), gauss_arity, cls)
    it.exec_block(fn.body)
    if it.scopes != [it.scopes[0]]:
        raise TranslateError('unbalanced scopes')
    out_ = it.name('self.targets')
    if out_.kind != 'cstack' or it.binders != ['i']:
        raise TranslateError('%s.add_defocus_blur: expected one plane loop variable `i` and a stored self.targets (binders %s)' % (cls, it.binders))
    res = out_.fn('i').fn(PIX)
    where = '`%s.add_defocus_blur` (%s)' % (cls, LOSS)
    defs = []
    # ---- probes: the arguments of the generate_2d_gaussian call and of the conv2d call
    if 'sigma' not in it.probes or 'kernel' not in it.probes:
        raise TranslateError('%s.add_defocus_blur: no generate_2d_gaussian / conv2d call found' % cls)
    lets, s = it.probes['sigma']
    term = '(%s, %s)' % (s[0], s[1])
    body = prune(lets, [term])
    text = '\n'.join(['  let %s : %s := %s' % l for l in body] + ['  ' + term])
    free_inputs(text, ('blur_ratio',))
    defs.append('/-- %s: the `nsigma` handed to `generate_2d_gaussian` for the pair of planes (i, j) -/\n'
                'def defocusSigma%s (blur_ratio : α) (i j : Nat) : α × α :=\n%s' % (where, sfx, text))
    lets, ker = it.probes['kernel']
    if ker.size != ('blur', 'blur'):
        raise TranslateError('%s.add_defocus_blur: the kernel is %s x %s, not target_blur_size x target_blur_size' % ((cls,) + ker.size))
    term = ker.fn('a', 'b')
    body = prune(lets, [term])
    text = '\n'.join(['  let %s : %s := %s' % l for l in body] + ['  ' + term])
    free_inputs(text, ('blur_ratio', 'blur'))
    defs.append('/-- %s: element [a, b] of the kernel handed to `conv2d` for the pair of planes (i, j) -/\n'
                'def defocusKernel%s (blur : Nat) (blur_ratio : α) (i j : Nat) (a b : Fin blur) : α :=\n%s' % (where, sfx, text))
    # ---- the stored target at the pixel
    top = prune(it.scopes[0], [res])
    text = '\n'.join(['  let %s : %s := %s' % l for l in top] + [indent(res, 2)])
    defs.append('/-- %s: `self.targets[i, ch]` at one pixel after the call.  `cache p dy dx` / `mask p dy dx` = `self.targets[p, ch]` /\n'
                '    `self.masks[p, ch]` before the call at the pixel displaced by (dy, dx) rows / columns (0 outside the image),\n'
                '    `cacheSum p` = `torch.sum(self.targets[p, ch])` -/\n'
                'def defocusTarget%s (planes blur : Nat) (blur_ratio multiplier : α) (cacheSum : Nat → α) (cache mask : Nat → Int → Int → α) (i : Nat) : α :=\n%s'
                % (where, sfx, text))
    return defs


def blur_size(cls, sfx):
    """the statements of `__init__` that mention target_blur_size"""
    mod = Module.get(LOSS)
    fn = find_function(mod.tree, '__init__', cls)
    if 'target_blur_size' not in [a.arg for a in fn.args.args]:
        raise TranslateError('%s.__init__ has no parameter target_blur_size' % cls)
    stmts = [st for st in fn.body if 'target_blur_size' in ast.unparse(st) and not (isinstance(st, ast.Expr) and isinstance(st.value, ast.Constant))]
    it = DInterp({'target_blur_size': D('nat', 'target_blur_size')}, 0, cls)
    it.exec_block(stmts)
    v = it.name('self.target_blur_size')
    if v.kind != 'nat':
        raise TranslateError('%s.__init__: self.target_blur_size is not an integer expression' % cls)
    return ('/-- `%s.__init__` (%s): `self.target_blur_size` as a function of the argument `target_blur_size` -/\n'
            'def blurSize%s (target_blur_size : Nat) : Nat :=\n  %s' % (cls, LOSS, sfx, v.term))


def generate():
    Module.cache = {}
    out = ['/- GENERATED by harness/translate/defocus.py from %s and %s – do not edit.' % (MATRIX, LOSS),
           '   One pixel of one channel; positions are relative to the pixel (rows, columns); `convSame` (OdakModel/DefocusPrelude.lean)',
           "   is one output pixel of `conv2d(input, kernel, padding = 'same')`. -/",
           'import OdakModel.DefocusPrelude', 'namespace Odak.Gen', 'variable {α : Type} [Num α]', '']
    errors = []
    arity = None
    try:
        text, arity = gaussian()
        out += [text, '']
    except (TranslateError, OSError, SyntaxError, KeyError, IndexError, AttributeError, TypeError, ValueError) as e:
        errors.append('%s (generate_2d_gaussian in %s): %s' % (GAUSS, MATRIX, e))
    for cls, sfx in (('multiplane_loss', 'M'), ('perceptual_multiplane_loss', 'P')):
        try:
            out += [blur_size(cls, sfx), '']
        except (TranslateError, OSError, SyntaxError, KeyError, IndexError, AttributeError, TypeError, ValueError) as e:
            errors.append('blurSize%s (%s.__init__ in %s): %s' % (sfx, cls, LOSS, e))
        if arity is None:
            continue
        try:
            for d in defocus(cls, sfx, arity):
                out += [d, '']
        except (TranslateError, OSError, SyntaxError, KeyError, IndexError, AttributeError, TypeError, ValueError) as e:
            errors.append('defocusTarget%s (%s.add_defocus_blur in %s): %s' % (sfx, cls, LOSS, e))
    out += ['end Odak.Gen', '']
    return '\n'.join(out), errors


if __name__ == '__main__':
    t, e = generate()
    print(t)
    print(e)
