"""Symbolic interpreter for LIST-BUILDING LOOP PROGRAMS (used by harness/translate/plygen.py and samplers_more.py; odak is never executed).

The functions it reads build their result by appending inside `for` loops:

    out = []  /  out = np.empty((0, 3))
    for i in range(a, b):                 ->   (pyRange a b).flatMap fun i =>
        x = <expression in i>                    let x_k : T := ...
        for j in range(int(n * i / m)):          (pyRange 0 (n * i / m)).flatMap fun j =>
            out.append(<expression>)                 [<expression>]
            out = np.vstack((out, point))

Every `for` becomes a `List.flatMap` over `pyRange a b` (= `List.range' a (b - a)`, empty when `b <= a` like Python's `range`) or over
the list iterated; every assignment inside becomes a `let`; several accumulators filled by the same loop nest each get their own
comprehension.  An `if` on integers whose arms only rebind names becomes `if c then x else y` for every name the arms leave different.

Values (class V, field `kind`):
  'nat'    Python int that is a count / an index (Lean `Nat` term)             's'    float (term of type α)
  'v'      3-vector `Vec3 α`                                                   'ray'  `Ray α`
  'ref'    the array element `name[i, j, k]` of a 3-axis input array, as the index triple `(i, j, k) : Nat × Nat × Nat`
  'tuple'  Python list / tuple literal (items are values); emitted as a Lean list literal when the items have one type, as a product otherwise
  'list'   a Lean `List T` term (`elem` = prototype of the elements)
  'fn1'    array of rows given as a Lean function `Nat → T` with its length (`len`, a `Nat` term): `entry[i]` is `(entry i)`
  'arr3'   3-axis input array (only its shape and element references are used)
  'acc'    a list under construction (pieces to be concatenated)
  'py' constant decided at translation time    'o' opaque (shapes' ranks, dtypes, devices)    'mod' a module alias    'cond' a `Prop` on `Nat`s
Typing of arithmetic follows Python: int op int is an int (`+ *`; `-` only inside `range(...)`, where Lean's truncated subtraction gives the same
empty range), int / int is a float (`Num.ofNat a / Num.ofNat b`), an int meeting a float is converted (`Num.ofNat`), `int(a / b)` of two
non-negative ints is the integer quotient `a / b` on `Nat`.
Anything outside this grammar raises TranslateError: the error is returned and `generate_all` keeps the accepted file."""
import ast
import re
from .pyexpr import TranslateError
from .constants import sci

RESERVED = {'at', 'from', 'in', 'fun', 'end', 'do', 'then', 'else', 'if', 'let', 'have', 'show', 'open', 'by', 'with', 'match',
            'where', 'local', 'def', 'to', 'for', 'return', 'mut', 'type', 'Type', 'deriving', 'instance', 'class', 'import', 'exit'}
IDENT = r"[^\W\d][\w.']*"


def safe(name):
    return name + '_' if name in RESERVED else name


def balanced(t):
    d = 0
    for ch in t:
        if ch in '([⟨':
            d += 1
        elif ch in ')]⟩':
            d -= 1
            if d < 0:
                return False
    return d == 0


def par(t):
    t = str(t)
    if re.fullmatch(IDENT, t) or t.isdigit():
        return t
    if t[0] in '([⟨' and t[-1] in ')]⟩' and balanced(t[1:-1]):
        return t
    return '(' + t + ')'


class V:
    def __init__(self, kind, term=None, **kw):
        self.kind, self.term = kind, term
        self.items = kw.get('items')
        self.elem = kw.get('elem')          # prototype (a V without term) of the elements of a 'list' / 'fn1' / 'acc'
        self.len = kw.get('len')            # 'fn1'
        self.shape = kw.get('shape')        # 'arr3'
        self.idx = kw.get('idx', [])        # 'arr3': indices given so far
        self.const = kw.get('const')        # 'py'
        self.pieces = kw.get('pieces')      # 'acc'
        self.name = kw.get('name')

    def __repr__(self):
        return 'V(%s, %r)' % (self.kind, self.term)


def ty(v):
    """Lean type of a value / prototype"""
    k = v.kind
    if k == 'nat':
        return 'Nat'
    if k == 's':
        return 'α'
    if k == 'v':
        return 'Vec3 α'
    if k == 'ray':
        return 'Ray α'
    if k == 'ref':
        return 'Nat × Nat × Nat'
    if k == 'list':
        return 'List %s' % par(ty(v.elem))
    if k == 'fn1':
        return 'Nat → %s' % ty(v.elem)
    if k == 'tuple':
        ts = [ty(x) for x in v.items]
        if ts and all(t == ts[0] for t in ts):
            return 'List %s' % par(ts[0])
        return ' × '.join(par(t) if ' × ' in t else t for t in ts)
    raise TranslateError('a value of kind %s has no Lean type' % k)


def term_of(v):
    """Lean term of a value"""
    if v.kind == 'tuple':
        ts = [ty(x) for x in v.items]
        inner = ', '.join(term_of(x) for x in v.items)
        if ts and all(t == ts[0] for t in ts):
            return '[%s]' % inner
        return '(%s)' % inner
    if v.kind in ('nat', 's', 'v', 'ray', 'ref', 'list', 'fn1'):
        return v.term
    raise TranslateError('a value of kind %s has no Lean term' % v.kind)


def proto(v):
    """prototype (type skeleton) of a value"""
    if v.kind == 'tuple':
        return V('tuple', items=[proto(x) for x in v.items])
    if v.kind in ('list', 'fn1'):
        return V(v.kind, elem=v.elem)
    return V(v.kind)


def with_term(p, term):
    """a value of prototype `p` that is the Lean variable / term `term`"""
    if p.kind == 'tuple':
        ts = [ty(x) for x in p.items]
        if ts and all(t == ts[0] for t in ts):          # a Lean list: the items are reached by position
            return V('list', term, elem=p.items[0])
        raise TranslateError('cannot rebind a product value')
    return V(p.kind, term, elem=p.elem)


def as_s(v, what):
    if v.kind == 's':
        return v.term
    if v.kind == 'nat':
        return '(Num.ofNat %s)' % par(v.term)
    raise TranslateError('expected a number in %s, got %s' % (what, v.kind))


def lit(x):
    if isinstance(x, bool):
        raise TranslateError('boolean used as a number')
    if isinstance(x, float) and x == int(x) and abs(x) < 2 ** 53:
        x = int(x)
    return sci(x)


class Returned(Exception):
    def __init__(self, value):
        self.value = value


class Scope:
    """one block: its lets (in order) and, per accumulator appended to in it, the pieces in order"""

    def __init__(self):
        self.lets = []           # (name, type, term)
        self.pieces = {}         # accumulator name -> [Lean list terms]


def prune(lets, roots):
    tok = re.compile(r"[A-Za-z_][A-Za-z0-9_']*")
    need = set()
    for r in roots:
        need |= set(tok.findall(r))
    keep = []
    for n, t, e in reversed(lets):
        if n in need:
            keep.append((n, t, e))
            need |= set(tok.findall(e))
    return list(reversed(keep))


def indent(text, k):
    pad = ' ' * k
    return '\n'.join(pad + l if l else l for l in text.split('\n'))


def block_term(lets, body, k=0):
    """`let`s followed by a body, as a multi-line Lean term indented by k"""
    lines = ['let %s : %s := %s' % l for l in lets] + [body]
    return indent('\n'.join(lines), k)


class Interp:
    def __init__(self, env, hooks=None):
        self.env = dict(env)
        self.counter = 0
        self.scopes = [Scope()]
        self.notes = []
        self.in_range = False
        self.hooks = hooks

    # ------------------------------------------------------------------ naming / lets
    def fresh(self, base):
        self.counter += 1
        return '%s_%d' % (safe(base), self.counter)

    def let(self, base, typ, term):
        n = self.fresh(base)
        self.scopes[-1].lets.append((n, typ, term))
        return n

    def bind(self, base, v):
        if v.kind in ('nat', 's', 'v', 'ray', 'ref', 'list'):
            if re.fullmatch(IDENT, v.term) or v.term.isdigit():
                return v
            return V(v.kind, self.let(base, ty(v), v.term), elem=v.elem)
        if v.kind == 'fn1':
            if re.fullmatch(IDENT, v.term):
                return v
            return V('fn1', self.let(base, ty(v), v.term), elem=v.elem, len=v.len)
        return v

    # ------------------------------------------------------------------ expressions
    def name(self, n):
        if n in self.env:
            v = self.env[n]
            if v.kind == 'poison':
                raise TranslateError('%s is not available here (%s)' % (n, v.term))
            return v
        raise TranslateError('unknown name ' + n)

    def func_name(self, func):
        """dotted name of a called function with module aliases resolved (`np_ply.asarray` -> `np.asarray`)"""
        parts = []
        n = func
        while isinstance(n, ast.Attribute):
            parts.append(n.attr)
            n = n.value
        if isinstance(n, ast.Name):
            root = n.id
            if root in self.env and self.env[root].kind == 'mod':
                root = self.env[root].term
            elif root in self.env:
                return None          # a method of a value
            return '.'.join([root] + parts[::-1])
        return None

    def ev(self, node):
        if isinstance(node, ast.Constant):
            c = node.value
            if c is None or isinstance(c, (bool, str)):
                return V('py', const=c)
            if isinstance(c, int):
                if c < 0:
                    raise TranslateError('negative integer literal')
                return V('nat', str(c))
            if isinstance(c, float):
                return V('s', lit(c))
            raise TranslateError('unsupported constant ' + ast.unparse(node))
        if isinstance(node, ast.Name):
            return self.name(node.id)
        if isinstance(node, ast.Attribute):
            src = ast.unparse(node)
            f = self.func_name(node)
            if f in ('np.pi', 'math.pi', 'numpy.pi'):
                return V('s', 'Num.pi')
            if f in ('np.__name__', 'numpy.__name__'):
                return V('py', const='numpy')
            base = self.ev(node.value)
            if node.attr == 'shape':
                if base.kind == 'arr3':
                    return V('tuple', items=[V('nat', s) for s in base.shape])
                if base.kind == 'fn1':
                    return V('tuple', items=[V('nat', base.len), V('nat', '3')])
                return V('o')
            r = self.hooks.attribute(self, node, base) if self.hooks else None
            if r is not None:
                return r
            raise TranslateError('unsupported attribute ' + src)
        if isinstance(node, ast.UnaryOp) and isinstance(node.op, ast.USub):
            a = self.ev(node.operand)
            if a.kind == 's':
                return V('s', '(-%s)' % a.term)
            raise TranslateError('unsupported negation ' + ast.unparse(node))
        if isinstance(node, ast.BinOp):
            return self.binop(node)
        if isinstance(node, ast.Compare):
            return self.compare(node)
        if isinstance(node, (ast.List, ast.Tuple)):
            return V('tuple', items=[self.ev(e) for e in node.elts])
        if isinstance(node, ast.Subscript):
            return self.subscript(node)
        if isinstance(node, ast.Call):
            return self.call(node)
        raise TranslateError('unsupported expression ' + ast.unparse(node))

    def binop(self, node):
        src = ast.unparse(node)
        a, b = self.ev(node.left), self.ev(node.right)
        op = node.op
        if a.kind == 'nat' and b.kind == 'nat':
            if isinstance(op, ast.Add):
                return V('nat', '%s + %s' % (par(a.term), par(b.term)))
            if isinstance(op, ast.Mult):
                return V('nat', '%s * %s' % (par(a.term), par(b.term)))
            if isinstance(op, ast.Sub):
                if not self.in_range:
                    raise TranslateError('integer subtraction outside a range bound: ' + src)
                return V('nat', '%s - %s' % (par(a.term), par(b.term)))
            if isinstance(op, ast.Div):
                return V('s', '((Num.ofNat %s) / (Num.ofNat %s))' % (par(a.term), par(b.term)), items=[a, b])
            if isinstance(op, ast.FloorDiv):
                return V('nat', '%s / %s' % (par(a.term), par(b.term)))
            raise TranslateError('unsupported integer operator in ' + src)
        if a.kind in ('nat', 's') and b.kind in ('nat', 's'):
            for t, o in ((ast.Add, '+'), (ast.Sub, '-'), (ast.Mult, '*'), (ast.Div, '/')):
                if isinstance(op, t):
                    return V('s', '(%s %s %s)' % (as_s(a, src), o, as_s(b, src)))
        raise TranslateError('unsupported operands (%s, %s) in %s' % (a.kind, b.kind, src))

    def compare(self, node):
        src = ast.unparse(node)
        if len(node.ops) != 1:
            raise TranslateError('chained comparison ' + src)
        a, b = self.ev(node.left), self.ev(node.comparators[0])
        op = node.ops[0]
        if a.kind == 'o' or b.kind == 'o':
            return V('o')
        if a.kind == 'py' and b.kind == 'py':
            if isinstance(op, ast.Eq):
                return V('py', const=a.const == b.const)
            if isinstance(op, ast.NotEq):
                return V('py', const=a.const != b.const)
        if a.kind == 'nat' and b.kind == 'nat':
            x, y = par(a.term), par(b.term)
            for t, txt in ((ast.Gt, '%s < %s' % (y, x)), (ast.Lt, '%s < %s' % (x, y)), (ast.GtE, '%s ≤ %s' % (y, x)),
                           (ast.LtE, '%s ≤ %s' % (x, y)), (ast.Eq, '%s = %s' % (x, y)), (ast.NotEq, '%s ≠ %s' % (x, y))):
                if isinstance(op, t):
                    return V('cond', txt)
        raise TranslateError('unsupported comparison ' + src)

    def const_index(self, node):
        if isinstance(node, ast.Constant) and isinstance(node.value, int) and not isinstance(node.value, bool) and node.value >= 0:
            return node.value
        return None

    def subscript(self, node):
        src = ast.unparse(node)
        base = self.ev(node.value)
        sl = node.slice
        r = self.hooks.subscript(self, node, base) if self.hooks else None
        if r is not None:
            return r
        if base.kind == 'o':
            return base
        elts = sl.elts if isinstance(sl, ast.Tuple) else [sl]
        if base.kind == 'tuple':
            k = self.const_index(sl)
            if k is None or k >= len(base.items):
                raise TranslateError('unsupported index of a Python list in ' + src)
            return base.items[k]
        if base.kind == 'arr3':
            idx = list(base.idx)
            for e in elts:
                v = self.ev(e)
                if v.kind != 'nat':
                    raise TranslateError('unsupported index of the array %s in %s' % (base.name, src))
                idx.append(v.term)
            if len(idx) > 3:
                raise TranslateError('too many indices in ' + src)
            if len(idx) == 3:
                return V('ref', '(%s, %s, %s)' % tuple(idx))
            return V('arr3', name=base.name, shape=base.shape, idx=idx)
        if base.kind == 'fn1':
            full = lambda e: isinstance(e, ast.Slice) and e.lower is None and e.upper is None and e.step is None
            if len(elts) == 2 and full(elts[1]):
                elts = elts[:1]
            if len(elts) != 1:
                raise TranslateError('unsupported index of rows in ' + src)
            v = self.ev(elts[0])
            if v.kind == 'nat':
                return with_term(base.elem, '(%s %s)' % (base.term, par(v.term)))
            if v.kind == 'list' and v.elem.kind == 'nat':        # fancy indexing with an index list
                return V('list', '(%s.map fun k => %s k)' % (par(v.term), base.term), elem=base.elem)
            raise TranslateError('unsupported index of rows in ' + src)
        if base.kind == 'list':
            k = self.const_index(sl)
            if k is None:
                raise TranslateError('unsupported index of a list in ' + src)
            if base.elem.kind == 'nat':
                return V('nat', '(%s.getD %d 0)' % (par(base.term), k))
            raise TranslateError('unsupported index of a list in ' + src)
        raise TranslateError('unsupported subscript ' + src)

    def rng(self, node):
        """`range(...)` -> (lo, hi) Nat terms"""
        if not (isinstance(node, ast.Call) and isinstance(node.func, ast.Name) and node.func.id == 'range' and not node.keywords
                and 1 <= len(node.args) <= 2):
            return None
        self.in_range = True
        try:
            vals = [self.ev(a) for a in node.args]
        finally:
            self.in_range = False
        if any(v.kind != 'nat' for v in vals):
            raise TranslateError('range over something that is not an integer: ' + ast.unparse(node))
        return ('0', vals[0].term) if len(vals) == 1 else (vals[0].term, vals[1].term)

    def call(self, node):
        src = ast.unparse(node)
        f = self.func_name(node.func)
        r = self.hooks.call(self, node, f) if self.hooks else None
        if r is not None:
            return r
        kws = {k.arg: k.value for k in node.keywords}
        # ---- methods of values
        if f is None and isinstance(node.func, ast.Attribute):
            recv = self.ev(node.func.value)
            m = node.func.attr
            if m in ('reshape', 'copy', 'tolist', 'astype'):
                return recv
            raise TranslateError('unsupported method ' + src)
        if f == 'len' and len(node.args) == 1:
            if isinstance(node.args[0], ast.Attribute) and node.args[0].attr == 'shape':
                return V('o')                  # the rank of an input array: layout
            a = self.ev(node.args[0])
            if a.kind == 'tuple':
                return V('nat', str(len(a.items)))
            return V('o')
        if f == 'int' and len(node.args) == 1:
            inner = node.args[0]
            a = self.ev(inner)
            if a.kind == 'nat':
                return a
            if a.kind == 's' and a.items and isinstance(inner, ast.BinOp) and isinstance(inner.op, ast.Div):
                # int(a / b) of two non-negative ints: truncation of the float quotient = the integer quotient
                self.notes.append('`int(a / b)` of two non-negative ints is the integer quotient (exact while a, b < 2^53 and the quotient is not within '
                                  'rounding of the next integer)')
                return V('nat', '%s / %s' % (par(a.items[0].term), par(a.items[1].term)))
            raise TranslateError('unsupported int(...) in ' + src)
        if f == 'float' and len(node.args) == 1:
            a = self.ev(node.args[0])
            if a.kind in ('s', 'ref'):
                return a
            if a.kind == 'nat':
                return V('s', as_s(a, src))
            raise TranslateError('unsupported float(...) in ' + src)
        args = [self.ev(a) for a in node.args]
        if f in ('np.cos', 'np.sin', 'np.sqrt', 'math.cos', 'math.sin', 'math.sqrt'):
            fn = 'Num.' + f.split('.')[1]
            a = args[0]
            if a.kind in ('s', 'nat'):
                return V('s', '(%s %s)' % (fn, par(as_s(a, src))))
            if a.kind == 'list' and a.elem.kind == 's':
                return V('list', '(%s.map fun x => %s x)' % (par(a.term), fn), elem=V('s'))
            raise TranslateError('unsupported argument of %s' % src)
        if f in ('np.array', 'np.asarray', 'np.vstack') and len(args) == 1:
            a = args[0]
            if a.kind == 'tuple' and len(a.items) == 3 and all(x.kind in ('s', 'nat') for x in a.items) and any(x.kind == 's' for x in a.items):
                return V('v', '(⟨%s, %s, %s⟩ : Vec3 α)' % tuple(as_s(x, src) for x in a.items))
            if a.kind == 'acc':
                return self.finalize(node.args[0])
            return a
        if f == 'np.empty' and args and args[0].kind == 'tuple' and [x.term for x in args[0].items] == ['0', '3']:
            return V('acc', pieces=[], elem=V('v'))
        if f in ('np.amax', 'np.max', 'max') and len(args) == 1 and args[0].kind == 'tuple' and all(x.kind == 'nat' for x in args[0].items):
            t = args[0].items[0].term
            for x in args[0].items[1:]:
                t = 'max %s %s' % (par(t), par(x.term))
            return V('nat', t)
        if f == 'np.repeat' and len(args) == 2 and args[0].kind == 'fn1' and args[1].kind == 'nat' and \
                set(kws) == {'axis'} and ast.unparse(kws['axis']) == '0':
            a, k = args
            return V('fn1', '(fun i => %s (i / %s))' % (a.term, par(k.term)), elem=a.elem, len='%s * %s' % (par(a.len), par(k.term)))
        raise TranslateError('unsupported call ' + src)

    # ------------------------------------------------------------------ accumulators
    def finalize(self, node):
        """an accumulator that is read: concatenate its pieces, bind the list"""
        if not isinstance(node, ast.Name):
            raise TranslateError('unsupported use of a list under construction: ' + ast.unparse(node))
        a = self.env[node.id]
        if a.kind != 'acc':
            return a
        if a.elem is None:
            raise TranslateError('the list %s is read before anything was appended to it' % node.id)
        term = ' ++ '.join(a.pieces) if a.pieces else '[]'
        v = V('list', self.let(node.id, 'List %s' % par(ty(a.elem)), term), elem=a.elem)
        self.env[node.id] = v
        return v

    def append(self, name, val):
        a = self.env.get(name)
        if a is None or a.kind != 'acc':
            raise TranslateError('%s is not a list under construction' % name)
        val = self.hooks.appended(self, name, val) if self.hooks else val
        p = proto(val)
        if a.elem is None:
            a.elem = p
        elif ty(a.elem) != ty(p):
            raise TranslateError('items of different types appended to %s: %s and %s' % (name, ty(a.elem), ty(p)))
        self.scopes[-1].pieces.setdefault(name, []).append('[%s]' % term_of(val))

    # ------------------------------------------------------------------ statements
    def exec_block(self, stmts):
        for k, st in enumerate(stmts):
            if isinstance(st, ast.Expr) and isinstance(st.value, ast.Constant):
                continue
            if isinstance(st, (ast.Import, ast.ImportFrom)):
                self.do_import(st)
                continue
            if self.hooks and self.hooks.statement(self, st):
                continue
            if isinstance(st, ast.Return):
                v = self.ev(st.value) if st.value is not None else V('py', const=None)
                if isinstance(st.value, ast.Name) and v.kind == 'acc':
                    v = self.finalize(st.value)
                raise Returned(v)
            if isinstance(st, ast.Expr) and isinstance(st.value, ast.Call) and isinstance(st.value.func, ast.Attribute) \
                    and st.value.func.attr == 'append' and isinstance(st.value.func.value, ast.Name) and len(st.value.args) == 1:
                self.append(st.value.func.value.id, self.ev(st.value.args[0]))
                continue
            if isinstance(st, ast.Assign) and len(st.targets) == 1 and isinstance(st.targets[0], ast.Name):
                self.assign(st.targets[0].id, st.value)
                continue
            if isinstance(st, ast.For):
                self.exec_for(st)
                continue
            if isinstance(st, ast.If):
                self.exec_if(st)
                continue
            raise TranslateError('unsupported statement ' + ast.unparse(st).split('\n')[0][:80])

    def do_import(self, st):
        if isinstance(st, ast.Import):
            for a in st.names:
                self.env[a.asname or a.name] = V('mod', {'numpy': 'np'}.get(a.name, a.name))
            return
        raise TranslateError('unsupported import ' + ast.unparse(st))

    def assign(self, name, node):
        # x = np.vstack((x, item)) is an append
        if isinstance(node, ast.Call) and self.func_name(node.func) == 'np.vstack' and len(node.args) == 1 and \
                isinstance(node.args[0], ast.Tuple) and len(node.args[0].elts) == 2 and isinstance(node.args[0].elts[0], ast.Name) and \
                node.args[0].elts[0].id == name and name in self.env and self.env[name].kind == 'acc':
            self.append(name, self.ev(node.args[0].elts[1]))
            return
        if isinstance(node, ast.List) and not node.elts:
            self.env[name] = V('acc', pieces=[], elem=None)
            self.acc_owner(name)
            return
        if isinstance(node, ast.Name) and node.id in self.env and self.env[node.id].kind == 'mod':
            self.env[name] = self.env[node.id]
            return
        if isinstance(node, ast.Name) and node.id not in self.env and node.id in ('np', 'numpy', 'math'):      # `np_ply = np`
            self.env[name] = V('mod', {'numpy': 'np'}.get(node.id, node.id))
            return
        v = self.ev(node)
        if v.kind == 'acc':
            self.acc_owner(name)
            self.env[name] = v
            return
        self.env[name] = self.bind(name, v)

    def acc_owner(self, name):
        if len(self.scopes) > 1:
            raise TranslateError('the list %s is created inside a loop' % name)

    def appended_names(self, stmts):
        out = set()
        for st in stmts:
            for n in ast.walk(st):
                if isinstance(n, ast.Call) and isinstance(n.func, ast.Attribute) and n.func.attr == 'append' and isinstance(n.func.value, ast.Name):
                    out.add(n.func.value.id)
                if isinstance(n, ast.Assign) and len(n.targets) == 1 and isinstance(n.targets[0], ast.Name) and isinstance(n.value, ast.Call) \
                        and self.func_name(n.value.func) == 'np.vstack':
                    out.add(n.targets[0].id)
        return out

    def exec_for(self, st):
        if st.orelse or not isinstance(st.target, ast.Name):
            raise TranslateError('unsupported for loop ' + ast.unparse(st).split('\n')[0])
        var = safe(st.target.id)
        r = self.rng(st.iter)
        if r is not None:
            it = '(pyRange %s %s)' % (par(r[0]), par(r[1]))
            loopval = V('nat', var)
        else:
            seq = self.ev(st.iter)
            if isinstance(st.iter, ast.Name) and seq.kind == 'acc':
                seq = self.finalize(st.iter)
            if seq.kind != 'list':
                raise TranslateError('unsupported iteration over ' + ast.unparse(st.iter))
            it = par(seq.term)
            loopval = with_term(seq.elem, var)
        accs = self.appended_names(st.body)
        saved = dict(self.env)
        self.env[st.target.id] = loopval
        self.scopes.append(Scope())
        try:
            self.exec_block(st.body)
        except Returned:
            raise TranslateError('return inside a loop')
        inner = self.scopes.pop()
        # names (re)bound in the body do not survive the loop
        for n in list(self.env):
            if n not in saved or (self.env[n] is not saved[n] and self.env[n].kind != 'acc'):
                saved[n] = V('poison', 'assigned inside the loop over ' + st.target.id)
        for n, v in self.env.items():
            if v.kind == 'acc' and n in saved:
                saved[n] = v
        self.env = saved
        for a in sorted(accs):
            ps = inner.pieces.get(a)
            if not ps:
                continue
            body = ' ++ '.join(ps)
            lets = prune(inner.lets, [body])
            text = '(%s.flatMap fun %s =>\n%s)' % (it, var, block_term(lets, body, 2))
            if len(self.scopes) > 1:
                self.scopes[-1].pieces.setdefault(a, []).append(text)
            else:
                self.env[a].pieces.append(text)

    def exec_if(self, st):
        t = self.ev(st.test)
        if t.kind == 'py' and isinstance(t.const, bool):
            self.exec_block(st.body if t.const else st.orelse)
            return
        if t.kind == 'o':
            if all(self.is_layout(s) for s in st.body + st.orelse):
                return
            raise TranslateError('a test on the layout guards more than layout statements: ' + ast.unparse(st.test))
        if t.kind == 'cond':
            base = dict(self.env)
            outs = []
            for arm in (st.body, st.orelse):
                self.env = dict(base)
                self.exec_block(arm)
                outs.append(self.env)
            merged = dict(base)
            for n in sorted(set(outs[0]) | set(outs[1])):
                a, b = outs[0].get(n), outs[1].get(n)
                if a is b:
                    if a is not None:
                        merged[n] = a
                    continue
                if a is None or b is None or a.kind != b.kind or a.kind not in ('nat', 's', 'v', 'ray', 'fn1', 'list') or ty(a) != ty(b):
                    raise TranslateError('the arms of `if %s` leave %s with different kinds of values' % (ast.unparse(st.test), n))
                term = '(if %s then %s else %s)' % (t.term, a.term, b.term)
                if a.kind == 'fn1':
                    ln = a.len if a.len == b.len else '(if %s then %s else %s)' % (t.term, a.len, b.len)
                    merged[n] = V('fn1', self.let(n, ty(a), term), elem=a.elem, len=ln)
                else:
                    merged[n] = V(a.kind, self.let(n, ty(a), term), elem=a.elem)
            self.env = merged
            return
        raise TranslateError('unsupported test ' + ast.unparse(st.test))

    def is_layout(self, st):
        """`x = x.reshape(...)`"""
        return isinstance(st, ast.Assign) and len(st.targets) == 1 and isinstance(st.targets[0], ast.Name) and \
            isinstance(st.value, ast.Call) and isinstance(st.value.func, ast.Attribute) and st.value.func.attr == 'reshape' and \
            isinstance(st.value.func.value, ast.Name) and st.value.func.value.id == st.targets[0].id


class Hooks:
    """extension points of a translator module; every method returns None / False when it does not apply"""

    def call(self, it, node, f):
        return None

    def subscript(self, it, node, base):
        return None

    def attribute(self, it, node, base):
        return None

    def statement(self, it, st):
        return False

    def appended(self, it, name, val):
        return val


def definition(name, binders, ret_ty, lets, result, doc):
    lets = prune(lets, [result])
    lines = ['/-- %s -/' % doc, 'def %s %s : %s :=' % (name, ' '.join(b for b in binders if b), ret_ty)]
    body = block_term(lets, result, 2)
    return '\n'.join(lines) + '\n' + body
