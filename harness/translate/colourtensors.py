"""Regenerates Generated/ColourTensors.lean: every conversion of odak/learn/perception/color_conversion.py translated statement by
statement at the TENSOR level (odak is never executed): each Python statement becomes one Lean `let` over the tensor vocabulary of
lean/OdakModel/TensorPrelude.lean (`Tensor α` = shape + element access).  Nothing is interpreted here - `unsqueeze`, `permute`,
`transpose`, `reshape`, `flatten`, slicing, slice assignment, `matmul`, `sum`, `max` / `min`, `unbind`, `stack`, `cat`, `gather`,
`where`, broadcasting arithmetic are written down with the arguments the source gives them; what they MEAN is the hand-written Lean
semantics, and that the result is "the per-pixel function at every pixel, same position, same batch index" is a Lean theorem per
accepted layout (OdakProofs/Lemmas/GenColourTensors.lean).  So a reshape that mixes batch images, a transpose(0, -1) instead of
permute(2, 0, 1), a dropped unsqueeze, exchanged hue offsets or a shifted sextant index change the generated text and break a theorem.

Kinds of values:  T tensor of floats, TB tensor of booleans, TN tensor of indices (second output of max / min), F float scalar,
I Python int literal (value known), N natural number (a size), S shape (list of sizes), TUP tuple, O opaque (device),
UNFLAT an `torch.nn.Unflatten` object.
Anything outside the grammar raises TranslateError: the error is returned and `generate_all` keeps the accepted file."""
import ast
import os
from .pyexpr import TranslateError, find_function
from .constants import sci

REPO = os.environ.get('ODAK_REPO', '/repo')
FILE = 'ColourTensors.lean'
SRC = 'odak/learn/perception/color_conversion.py'

IDENT_METHODS = ('to', 'double', 'float', 'clone', 'detach', 'contiguous', 'cpu')
LEAN_WORDS = {'at', 'from', 'fun', 'end', 'in', 'do', 'then', 'else', 'if', 'open', 'by', 'show', 'have', 'let', 'where', 'with', 'match',
              'def', 'theorem', 'instance', 'class', 'structure', 'namespace', 'section', 'variable', 'import', 'export', 'local',
              'Type', 'Prop', 'Sort', 'fun', 'λ', 'forall', 'exists', 'calc', 'deriving', 'mutual', 'private', 'protected', 'partial',
              'unsafe', 'macro', 'syntax', 'notation', 'infix', 'prefix', 'postfix', 'set_option', 'using', 'this', 'nomatch', 'return'}
TYPES = {'T': 'Tensor α', 'TB': 'Tensor Bool', 'TN': 'Tensor Nat', 'F': 'α', 'N': 'Nat', 'S': 'List Nat'}


class V:
    def __init__(self, kind, term=None, value=None, items=None):
        self.kind, self.term, self.value, self.items = kind, term, value, items

    def __repr__(self):
        return 'V(%s, %r)' % (self.kind, self.term)


def lname(py):
    return py + '_' if py in LEAN_WORDS else py


def intlit(v):
    return '(%d)' % v if v < 0 else '%d' % v


class Fn:
    def __init__(self, fn, is_method):
        self.fn, self.is_method = fn, is_method
        self.env = {}
        self.lets = []            # (name, kind, term)
        self.params = []          # (lean name, lean type)
        self.self_attrs = []      # attribute names of self used as tensors
        self.uses_pinv = False
        self.defaults = []        # (param, lean term)
        self.tmp = 0

    # ---------------------------------------------------------------- helpers
    def let(self, name, v):
        if v.kind in TYPES:
            self.lets.append((lname(name), TYPES[v.kind], v.term))
            nv = V(v.kind, lname(name), value=v.value)
        else:
            nv = v
        self.env[name] = nv
        return nv

    def fresh(self, v, base='tmp'):
        self.tmp += 1
        return self.let('%s_%d' % (base, self.tmp), v)

    def as_tensor(self, v, what):
        if v.kind == 'T':
            return v.term
        if v.kind in ('F', 'I'):
            return '(Tensor.scalar %s)' % self.as_float(v, what)
        raise TranslateError('%s: a %s where a tensor or number is expected' % (what, v.kind))

    def as_float(self, v, what):
        if v.kind == 'F':
            return v.term
        if v.kind == 'I':
            return sci(v.value)
        raise TranslateError('%s: a %s where a number is expected' % (what, v.kind))

    def as_nat(self, v, what):
        if v.kind == 'N':
            return v.term
        if v.kind == 'I' and v.value >= 0:
            return '%d' % v.value
        raise TranslateError('%s: a %s where a size is expected' % (what, v.kind))

    def int_const(self, node, what):
        v = self.ev(node)
        if v.kind != 'I':
            raise TranslateError('%s: %s is not an integer literal' % (what, ast.unparse(node)))
        return v.value

    def kw(self, node, names, pos=None):
        """keyword argument by any of `names`, else positional `pos`"""
        for k in node.keywords:
            if k.arg in names:
                return k.value
        if pos is not None and pos < len(node.args):
            return node.args[pos]
        return None

    # ---------------------------------------------------------------- expressions
    def ev(self, node):
        if isinstance(node, ast.Constant):
            if isinstance(node.value, bool) or node.value is None or isinstance(node.value, str):
                return V('O')
            if isinstance(node.value, int):
                return V('I', value=node.value)
            if isinstance(node.value, float):
                return V('F', sci(node.value))
            raise TranslateError('unsupported constant ' + ast.unparse(node))
        if isinstance(node, ast.Name):
            if node.id in self.env:
                return self.env[node.id]
            raise TranslateError('unknown name ' + node.id)
        if isinstance(node, ast.Attribute):
            src = ast.unparse(node)
            if src in ('math.pi', 'torch.pi', 'np.pi', 'np_cpu.pi'):
                return V('F', 'Num.pi')
            if isinstance(node.value, ast.Name) and node.value.id == 'self' and self.is_method:
                if node.attr == 'device':
                    return V('O')
                if node.attr not in self.self_attrs:
                    self.self_attrs.append(node.attr)
                return V('T', lname(node.attr))
            base = self.ev(node.value)
            if base.kind in ('T', 'TB', 'TN'):
                if node.attr == 'shape':
                    return V('S', '%s.shape' % base.term)
                if node.attr == 'device':
                    return V('O')
                if node.attr in ('T', 'mT') and base.kind == 'T':
                    return V('T', '(Tensor.transpose %s (-2) (-1))' % base.term)
            raise TranslateError('unsupported attribute ' + src)
        if isinstance(node, ast.UnaryOp) and isinstance(node.op, ast.USub):
            a = self.ev(node.operand)
            if a.kind == 'I':
                return V('I', value=-a.value)
            if a.kind == 'F':
                return V('F', '(-%s)' % a.term)
            if a.kind == 'T':
                return V('T', '(Tensor.neg %s)' % a.term)
            raise TranslateError('unsupported negation ' + ast.unparse(node))
        if isinstance(node, ast.BinOp):
            return self.binop(node)
        if isinstance(node, ast.Compare):
            return self.compare(node)
        if isinstance(node, ast.Subscript):
            return self.subscript(node)
        if isinstance(node, ast.Call):
            return self.call(node)
        if isinstance(node, (ast.Tuple, ast.List)):
            return V('TUP', items=[self.ev(e) for e in node.elts])
        raise TranslateError('unsupported expression ' + ast.unparse(node))

    def binop(self, node):
        what = ast.unparse(node)
        a = self.ev(node.left)
        if isinstance(node.op, ast.Pow):
            if isinstance(node.right, ast.Constant) and isinstance(node.right.value, int) and not isinstance(node.right.value, bool) \
                    and 1 <= node.right.value <= 4:
                n = node.right.value
                if a.kind == 'T':
                    t = a.term
                    for _ in range(n - 1):
                        t = '(Tensor.mul %s %s)' % (t, a.term)
                    return V('T', t)
                if a.kind in ('F', 'I'):
                    return V('F', '(' + ' * '.join([self.as_float(a, what)] * n) + ')')
                raise TranslateError('unsupported power ' + what)
            b = self.ev(node.right)
            if a.kind == 'T' or b.kind == 'T':
                return V('T', '(Tensor.pow %s %s)' % (self.as_tensor(a, what), self.as_tensor(b, what)))
            return V('F', '(Num.powPos %s %s)' % (self.as_float(a, what), self.as_float(b, what)))
        b = self.ev(node.right)
        ops = {ast.Add: ('+', 'add'), ast.Sub: ('-', 'sub'), ast.Mult: ('*', 'mul'), ast.Div: ('/', 'div'), ast.Mod: ('%', 'fmod')}
        for t, (sym, name) in ops.items():
            if isinstance(node.op, t):
                break
        else:
            raise TranslateError('unsupported operator in ' + what)
        if a.kind == 'T' or b.kind == 'T':
            return V('T', '(Tensor.%s %s %s)' % (name, self.as_tensor(a, what), self.as_tensor(b, what)))
        if a.kind in ('N', 'I') and b.kind in ('N', 'I') and 'N' in (a.kind, b.kind) and sym in ('+', '*'):
            return V('N', '(%s %s %s)' % (self.as_nat(a, what), sym, self.as_nat(b, what)))
        if a.kind == 'I' and b.kind == 'I' and sym in ('+', '-', '*'):
            return V('I', value={'+': a.value + b.value, '-': a.value - b.value, '*': a.value * b.value}[sym])
        if a.kind in ('F', 'I') and b.kind in ('F', 'I'):
            if sym == '%':
                return V('F', '(Num.fmod %s %s)' % (self.as_float(a, what), self.as_float(b, what)))
            return V('F', '(%s %s %s)' % (self.as_float(a, what), sym, self.as_float(b, what)))
        raise TranslateError('unsupported operands in ' + what)

    def compare(self, node):
        what = ast.unparse(node)
        if len(node.ops) != 1:
            raise TranslateError('chained comparison ' + what)
        a, b = self.ev(node.left), self.ev(node.comparators[0])
        op = node.ops[0]
        if a.kind == 'T' or b.kind == 'T':
            names = {ast.Gt: 'gt', ast.Lt: 'lt', ast.GtE: 'ge', ast.LtE: 'le', ast.Eq: 'eq'}
            for t, n in names.items():
                if isinstance(op, t):
                    return V('TB', '(Tensor.%s %s %s)' % (n, self.as_tensor(a, what), self.as_tensor(b, what)))
            raise TranslateError('unsupported tensor comparison ' + what)
        if a.kind in ('N', 'I') and b.kind in ('N', 'I'):
            syms = {ast.Eq: '=', ast.NotEq: '≠', ast.Lt: '<', ast.LtE: '≤', ast.Gt: '>', ast.GtE: '≥'}
            for t, s in syms.items():
                if isinstance(op, t):
                    return V('P', '(%s %s %s)' % (self.as_nat(a, what), s, self.as_nat(b, what)))
        raise TranslateError('unsupported comparison ' + what)

    # ---- subscripts
    def index_plan(self, sl, what):
        """list of (axis as Python would count it from the left or the right, element) for the elements that are not full slices,
        ordered from the right; the axis of every element is given for the moment that element is applied (elements to its right first)"""
        elts = list(sl.elts) if isinstance(sl, ast.Tuple) else [sl]
        ell = [i for i, e in enumerate(elts) if isinstance(e, ast.Constant) and e.value is Ellipsis]
        if len(ell) > 1:
            raise TranslateError('two ellipses in ' + what)
        plan = []
        removed_right = 0
        for pos in range(len(elts) - 1, -1, -1):
            e = elts[pos]
            if ell and pos == ell[0]:
                continue
            axis = pos if (not ell or pos < ell[0]) else -(len(elts) - pos) + removed_right
            if isinstance(e, ast.Slice):
                if e.step is not None:
                    raise TranslateError('strided slice in ' + what)
                if e.lower is None and e.upper is None:
                    continue
                lo = 0 if e.lower is None else self.int_const(e.lower, what)
                if e.upper is None or lo < 0:
                    raise TranslateError('unsupported slice bounds in ' + what)
                hi = self.int_const(e.upper, what)
                if hi < lo:
                    raise TranslateError('unsupported slice bounds in ' + what)
                plan.append((axis, 'narrow', lo, hi))
            else:
                k = self.int_const(e, what)
                plan.append((axis, 'select', k, None))
                removed_right += 1
        return plan

    def subscript(self, node):
        what = ast.unparse(node)
        base = self.ev(node.value)
        if base.kind == 'S':
            k = self.int_const(node.slice, what)
            if k >= 0:
                return V('N', '(Tensor.getAt %s %d)' % (base.term, k))
            return V('N', '(Tensor.getAt %s (Tensor.nd (%d) (List.length %s)))' % (base.term, k, base.term))
        if base.kind == 'T':
            t = base.term
            for axis, op, x, y in self.index_plan(node.slice, what):
                if op == 'select':
                    t = '(Tensor.select %s %s %s)' % (t, intlit(axis), intlit(x))
                else:
                    t = '(Tensor.narrow %s %s %d %d)' % (t, intlit(axis), x, y)
            return V('T', t)
        if base.kind == 'TUP':
            return base.items[self.int_const(node.slice, what)]
        raise TranslateError('unsupported subscript ' + what)

    # ---- tensor literals
    def literal(self, node, what):
        """nested list literal -> (shape, flat list of float terms)"""
        if isinstance(node, (ast.List, ast.Tuple)):
            parts = [self.literal(e, what) for e in node.elts]
            if not parts or any(p[0] != parts[0][0] for p in parts):
                raise TranslateError('ragged tensor literal ' + what)
            return [len(parts)] + parts[0][0], [x for p in parts for x in p[1]]
        return [], [self.as_float(self.ev(node), what)]

    def shape_args(self, args, what):
        """arguments of reshape / view / zeros: sizes, or one shape"""
        if len(args) == 1:
            v = self.ev(args[0])
            if v.kind == 'S':
                return ('S', v.term)
            if v.kind == 'TUP':
                return ('L', v.items)
            return ('L', [v])
        return ('L', [self.ev(a) for a in args])

    def tensor_list(self, node, what):
        v = self.ev(node)
        if v.kind != 'TUP' or not v.items:
            raise TranslateError('%s: a list of tensors is expected' % what)
        return '[' + ', '.join(self.as_tensor(x, what) for x in v.items) + ']'

    # ---- calls
    def call(self, node):
        what = ast.unparse(node)
        f = ast.unparse(node.func)
        if f == 'len' and len(node.args) == 1:
            v = self.ev(node.args[0])
            if v.kind == 'S':
                return V('N', '(List.length %s)' % v.term)
            raise TranslateError('unsupported len ' + what)
        if f in ('torch.tensor', 'torch.as_tensor'):
            shape, flat = self.literal(node.args[0], what)
            if not shape:
                return V('T', '(Tensor.scalar %s)' % flat[0])
            return V('T', '(Tensor.ofFlat [%s] [%s])' % (', '.join(map(str, shape)), ', '.join(flat)))
        if f in ('torch.zeros', 'torch.ones'):
            k, s = self.shape_args(node.args, what)
            sh = s if k == 'S' else '[' + ', '.join(self.as_nat(x, what) for x in s) + ']'
            return V('T', '(Tensor.full %s (Num.ofNat %d))' % (sh, 0 if f.endswith('zeros') else 1))
        if f in ('torch.zeros_like', 'torch.ones_like'):
            a = self.ev(node.args[0])
            if a.kind != 'T':
                raise TranslateError('unsupported ' + what)
            return V('T', '(Tensor.%s %s)' % ('zerosLike' if f.endswith('zeros_like') else 'onesLike', a.term))
        if f == 'torch.where' and len(node.args) == 3:
            c, a, b = (self.ev(x) for x in node.args)
            if c.kind != 'TB':
                raise TranslateError('condition of torch.where is not a comparison: ' + what)
            return V('T', '(Tensor.where_ %s %s %s)' % (c.term, self.as_tensor(a, what), self.as_tensor(b, what)))
        if f == 'torch.pow' and len(node.args) == 2:
            return self.binop(ast.BinOp(left=node.args[0], op=ast.Pow(), right=node.args[1]))
        if f in ('torch.matmul', 'torch.mm', 'torch.bmm') and len(node.args) == 2:
            a, b = self.ev(node.args[0]), self.ev(node.args[1])
            if a.kind != 'T' or b.kind != 'T':
                raise TranslateError('unsupported matmul ' + what)
            return V('T', '(Tensor.matmul %s %s)' % (a.term, b.term))
        if f == 'torch.floor' and len(node.args) == 1:
            return V('T', '(Tensor.floor %s)' % self.as_tensor(self.ev(node.args[0]), what))
        if f in ('torch.stack', 'torch.cat'):
            d = self.kw(node, ('dim', 'axis'), 1)
            dim = 0 if d is None else self.int_const(d, what)
            return V('T', '(Tensor.%s %s %s)' % (f.split('.')[1], self.tensor_list(node.args[0], what), intlit(dim)))
        if f == 'torch.unbind':
            d = self.kw(node, ('dim',), 1)
            a = self.ev(node.args[0])
            if a.kind != 'T':
                raise TranslateError('unsupported ' + what)
            return V('UNBIND', a.term, value=0 if d is None else self.int_const(d, what))
        if f == 'torch.gather':
            a = self.ev(node.args[0])
            d = self.int_const(self.kw(node, ('dim',), 1), what)
            ix = self.ev(self.kw(node, ('index',), 2))
            if a.kind != 'T' or ix.kind not in ('TN', 'T'):
                raise TranslateError('unsupported gather ' + what)
            return V('T', '(Tensor.%s %s %s %s)' % ('gatherN' if ix.kind == 'TN' else 'gatherF', a.term, intlit(d), ix.term))
        if f in ('torch.sum', 'torch.flatten', 'torch.transpose', 'torch.permute', 'torch.reshape', 'torch.squeeze', 'torch.unsqueeze',
                 'torch.pinverse', 'torch.linalg.pinv', 'torch.clamp', 'torch.max', 'torch.min') and node.args:
            # function form of a method: rewrite `torch.f(x, ...)` as `x.f(...)`
            meth = {'torch.linalg.pinv': 'pinverse'}.get(f, f.split('.')[-1])
            return self.method(ast.Call(func=ast.Attribute(value=node.args[0], attr=meth), args=node.args[1:], keywords=node.keywords), what)
        if f == 'torch.nn.Unflatten' and len(node.args) == 2:
            d = self.int_const(node.args[0], what)
            sizes = self.ev(node.args[1])
            if sizes.kind != 'TUP':
                raise TranslateError('unsupported ' + what)
            return V('UNFLAT', value=d, items=[self.as_nat(x, what) for x in sizes.items])
        if isinstance(node.func, ast.Name) and node.func.id in self.env and self.env[node.func.id].kind == 'UNFLAT' and len(node.args) == 1:
            u = self.env[node.func.id]
            a = self.ev(node.args[0])
            if a.kind != 'T':
                raise TranslateError('unsupported ' + what)
            return V('T', '(Tensor.unflatten %s %s [%s])' % (a.term, intlit(u.value), ', '.join(u.items)))
        if isinstance(node.func, ast.Attribute):
            return self.method(node, what)
        raise TranslateError('unsupported call ' + what)

    def method(self, node, what):
        m = node.func.attr
        a = self.ev(node.func.value)
        if a.kind == 'S' and m == '__len__':
            return V('N', '(List.length %s)' % a.term)
        if a.kind not in ('T', 'TN', 'TB'):
            raise TranslateError('unsupported method call ' + what)
        t = a.term
        if m in IDENT_METHODS:
            return a
        if m == 'size':
            if not node.args:
                return V('S', '%s.shape' % t)
            return V('N', '(Tensor.dim %s %s)' % (t, intlit(self.int_const(node.args[0], what))))
        if m == 'dim' and not node.args:
            return V('N', '(List.length %s.shape)' % t)
        if a.kind == 'TN':
            if m in ('unsqueeze', 'squeeze'):
                return V('TN', '(Tensor.%s %s %s)' % (m, t, intlit(self.int_const(node.args[0], what))))
            raise TranslateError('unsupported operation on an index tensor: ' + what)
        if a.kind != 'T':
            raise TranslateError('unsupported method call ' + what)
        if m in ('unsqueeze', 'squeeze'):
            d = self.kw(node, ('dim',), 0)
            if d is None:
                raise TranslateError('squeeze without an axis: ' + what)
            return V('T', '(Tensor.%s %s %s)' % (m, t, intlit(self.int_const(d, what))))
        if m == 'permute':
            args = node.args[0].elts if len(node.args) == 1 and isinstance(node.args[0], (ast.Tuple, ast.List)) else node.args
            return V('T', '(Tensor.permute %s [%s])' % (t, ', '.join(intlit(self.int_const(x, what)) for x in args)))
        if m in ('transpose', 'swapaxes', 'swapdims') and len(node.args) == 2:
            return V('T', '(Tensor.transpose %s %s %s)' % (t, intlit(self.int_const(node.args[0], what)), intlit(self.int_const(node.args[1], what))))
        if m == 't' and not node.args:
            return V('T', '(Tensor.transpose %s 0 1)' % t)
        if m in ('reshape', 'view'):
            k, s = self.shape_args(node.args, what)
            if k == 'S':
                return V('T', '(Tensor.reshape %s %s)' % (t, s))
            neg = [i for i, x in enumerate(s) if x.kind == 'I' and x.value < 0]
            if len(neg) > 1 or (neg and s[neg[0]].value != -1):
                raise TranslateError('unsupported reshape ' + what)
            if neg:
                pre = ', '.join(self.as_nat(x, what) for x in s[:neg[0]])
                post = ', '.join(self.as_nat(x, what) for x in s[neg[0] + 1:])
                return V('T', '(Tensor.reshapeInfer %s [%s] [%s])' % (t, pre, post))
            return V('T', '(Tensor.reshape %s [%s])' % (t, ', '.join(self.as_nat(x, what) for x in s)))
        if m == 'flatten':
            sd, ed = self.kw(node, ('start_dim',), 0), self.kw(node, ('end_dim',), 1)
            return V('T', '(Tensor.flatten %s %s %s)' % (t, intlit(0 if sd is None else self.int_const(sd, what)),
                                                        intlit(-1 if ed is None else self.int_const(ed, what))))
        if m == 'clamp':
            lo = self.kw(node, ('min',), 0)
            hi = self.kw(node, ('max',), 1)
            if lo is None or hi is not None:
                raise TranslateError('unsupported clamp ' + what)
            return V('T', '(Tensor.clampMin %s %s)' % (t, self.as_tensor(self.ev(lo), what)))
        if m in ('max', 'min'):
            d = self.kw(node, ('dim', 'axis'), 0)
            if d is None:
                raise TranslateError('%s without an axis: %s' % (m, what))
            dim = intlit(self.int_const(d, what))
            base = self.fresh(a, 'arg') if not t.replace('_', '').isalnum() else a
            return V('TUP', items=[V('T', '(Tensor.%sDim %s %s)' % (m, base.term, dim)), V('TN', '(Tensor.arg%sDim %s %s)' % (m, base.term, dim))])
        if m == 'sum':
            d = self.kw(node, ('dim', 'axis'), 0)
            if d is None:
                raise TranslateError('sum without an axis: ' + what)
            return V('T', '(Tensor.sumDim %s %s)' % (t, intlit(self.int_const(d, what))))
        if m == 'long' and not node.args:
            return V('T', '(Tensor.long %s)' % t)
        if m == 'floor' and not node.args:
            return V('T', '(Tensor.floor %s)' % t)
        if m in ('pinverse', 'pinv'):
            self.uses_pinv = True
            return V('T', '(pinv %s)' % t)
        raise TranslateError('unsupported method call ' + what)

    # ---------------------------------------------------------------- statements
    def assign(self, target, value_node, what):
        if isinstance(target, ast.Name):
            v = self.ev(value_node)
            if v.kind == 'UNBIND':
                raise TranslateError('unbind assigned to one name: ' + what)
            self.let(target.id, v)
            return
        if isinstance(target, ast.Tuple) and all(isinstance(e, ast.Name) for e in target.elts):
            v = self.ev(value_node)
            if v.kind == 'UNBIND':
                src = self.fresh(V('T', v.term), 'unbound')
                for k, e in enumerate(target.elts):
                    self.let(e.id, V('T', '(Tensor.select %s %s %d)' % (src.term, intlit(v.value), k)))
                return
            if v.kind == 'TUP' and len(v.items) == len(target.elts):
                for e, x in zip(target.elts, v.items):
                    self.let(e.id, x)
                return
            raise TranslateError('unsupported unpacking ' + what)
        if isinstance(target, ast.Subscript) and isinstance(target.value, ast.Name) and target.value.id in self.env:
            base = self.env[target.value.id]
            if base.kind != 'T':
                raise TranslateError('unsupported store ' + what)
            plan = self.index_plan(target.slice, what)
            if len(plan) != 1 or plan[0][1] != 'select':
                raise TranslateError('unsupported store ' + what)
            axis, _, k, _ = plan[0]
            v = self.ev(value_node)
            self.let(target.value.id, V('T', '(Tensor.setSelect %s %s %s %s)' % (base.term, intlit(axis), intlit(k), self.as_tensor(v, what))))
            return
        raise TranslateError('unsupported assignment ' + what)

    def branch_assigns(self, body, what):
        """{name: value node} of a branch that only assigns distinct names"""
        out = {}
        for st in body:
            if isinstance(st, ast.Assign) and len(st.targets) == 1 and isinstance(st.targets[0], ast.Name) and st.targets[0].id not in out:
                out[st.targets[0].id] = st.value
            else:
                raise TranslateError('unsupported statement inside a conditional: ' + what)
        return out

    def run(self):
        args = self.fn.args
        names = [a.arg for a in args.args]
        if self.is_method:
            names = names[1:]
        off = len(args.args) - len(args.defaults)
        for i, a in enumerate(args.args):
            if self.is_method and i == 0:
                continue
            if i >= off:
                d = self.ev(args.defaults[i - off])
                if d.kind not in ('F', 'I'):
                    raise TranslateError('unsupported default of ' + a.arg)
                self.defaults.append((a.arg, self.as_float(d, a.arg)))
                self.params.append((lname(a.arg), 'α'))
                self.env[a.arg] = V('F', lname(a.arg))
            else:
                self.params.append((lname(a.arg), 'Tensor α'))
                self.env[a.arg] = V('T', lname(a.arg))
        for st in self.fn.body:
            what = ast.unparse(st)[:90]
            if isinstance(st, ast.Expr) and isinstance(st.value, ast.Constant):
                continue
            if isinstance(st, ast.Return):
                v = self.ev(st.value)
                if v.kind != 'T':
                    raise TranslateError('the returned value is not a tensor: ' + what)
                return v.term
            if isinstance(st, ast.Assign) and len(st.targets) == 1:
                self.assign(st.targets[0], st.value, what)
                continue
            if isinstance(st, ast.If):
                c = self.ev(st.test)
                if c.kind != 'P':
                    raise TranslateError('unsupported condition ' + what)
                yes, no = self.branch_assigns(st.body, what), self.branch_assigns(st.orelse, what)
                vals = {}
                for n in list(yes) + [n for n in no if n not in yes]:
                    for br in (yes, no):
                        if n not in br and n not in self.env:
                            raise TranslateError('%s is assigned in one branch only: %s' % (n, what))
                    a = self.ev(yes[n]) if n in yes else self.env[n]
                    b = self.ev(no[n]) if n in no else self.env[n]
                    if a.kind != b.kind or a.kind not in TYPES:
                        raise TranslateError('branches of different kinds: ' + what)
                    vals[n] = V(a.kind, '(if %s then %s else %s)' % (c.term, a.term, b.term))
                for n, v in vals.items():
                    self.let(n, v)
                continue
            raise TranslateError('unsupported statement ' + what)
        raise TranslateError('no return statement')


JOBS = [('rgb_2_ycrcb', None), ('ycrcb_2_rgb', None), ('rgb_to_linear_rgb', None), ('linear_rgb_to_rgb', None),
        ('linear_rgb_to_xyz', None), ('xyz_to_linear_rgb', None), ('rgb_to_hsv', None), ('hsv_to_rgb', None),
        ('srgb_to_lab', None), ('lab_to_srgb', None),
        ('primaries_to_lms', 'display_color_hvs'), ('lms_to_primaries', 'display_color_hvs'), ('second_to_third_stage', 'display_color_hvs')]


def generate():
    errors = []
    out = ['/- GENERATED by harness/translate/colourtensors.py from %s – do not edit. -/' % SRC,
           'import OdakModel.TensorPrelude', 'namespace Odak.GenT', 'open Odak', 'variable {α : Type} [Num α]', '']
    try:
        with open(os.path.join(REPO, SRC)) as f:
            tree = ast.parse(f.read())
    except (OSError, SyntaxError) as e:
        return '\n'.join(out + ['end Odak.GenT', '']), ['%s: %s' % (SRC, e)]
    for pyname, cls in JOBS:
        try:
            fn = find_function(tree, pyname, cls)
            it = Fn(fn, cls is not None)
            res = it.run()
            params = []
            if it.uses_pinv:
                params.append('(pinv : Tensor α → Tensor α)')
            params += ['(%s : Tensor α)' % lname(a) for a in it.self_attrs]
            params += ['(%s : %s)' % p for p in it.params]
            for p, term in it.defaults:
                out.append('/-- default of the parameter `%s` of `%s` -/' % (p, pyname))
                out.append('def %s_%s : α := %s' % (pyname, p, term))
            out.append('/-- `%s%s`, statement by statement -/' % (cls + '.' if cls else '', pyname))
            out.append('def %s %s : Tensor α :=' % (pyname, ' '.join(params)))
            for n, ty, e in it.lets:
                out.append('  let %s : %s := %s' % (n, ty, e))
            out.append('  ' + res)
            out.append('')
        except (TranslateError, KeyError, IndexError, AttributeError, TypeError) as e:
            errors.append('%s: %s' % (pyname, e))
    out += ['end Odak.GenT', '']
    return '\n'.join(out), errors


if __name__ == '__main__':
    t, e = generate()
    print(t)
    print(e)
