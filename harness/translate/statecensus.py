"""Regenerates Generated/StateCensus.lean: every place in odak/ where state can PERSIST between two calls of the library.

 moduleState   (file, name, kind): module-level bindings to containers / call results (`_cache = {}`), memoising decorators (`lru_cache`, `cache`,
               anything whose name contains cache / memo), `global` / `nonlocal` statements, attributes stored on functions or modules
               (`f.table = ...`), mutable class-level attributes (shared by all instances)
 instanceState (file:class, attribute, method): attributes of `self` that a method OTHER than `__init__` (and the `init_*` helpers it calls) stores -
               the state an object carries from one call to the next

Props/C20.lean states that both tables are exactly the REVIEWED ones (each entry there carries its reason).  C20's consequent - "a second call with the
same arguments returns the same result" for all call sequences - is proved from the effect analysis for argument-borne state; these tables close the other
door: a new cache (module-level dict, lru_cache, a new attribute written by `__call__`) changes the table and breaks the theorem, and the check then has to
find a concrete history on which the result differs (probes (i)-(vi) of the C20 harness) or fall back to the accepted table tied by those probes."""
import ast
import os

REPO = os.environ.get('ODAK_REPO', '/repo')
FILE = 'StateCensus.lean'
MUTABLE_CALLS = ('dict', 'list', 'set', 'defaultdict', 'OrderedDict', 'deque', 'Queue', 'queue.Queue', 'collections.defaultdict', 'collections.OrderedDict',
                 'collections.deque', 'WeakKeyDictionary', 'weakref.WeakKeyDictionary', 'WeakValueDictionary', 'weakref.WeakValueDictionary')


MUTATORS = ('append', 'extend', 'insert', 'pop', 'popitem', 'remove', 'clear', 'update', 'setdefault', 'add', 'discard', 'sort', 'reverse', 'put',
            'appendleft', 'popleft', 'resize', 'fill', 'itemset', 'setflags')


def lean_str(s):
    return '"' + s.replace('\\', '\\\\').replace('"', '\\"') + '"'


def is_stateful_value(v):
    """a module / class level value that can be changed later without rebinding the name"""
    if isinstance(v, (ast.Dict, ast.List, ast.Set, ast.ListComp, ast.DictComp, ast.SetComp)):
        return True
    if isinstance(v, ast.Call):
        return True          # any call result (a container, an object, a tensor): reviewed one by one
    return False


def value_kind(v):
    if isinstance(v, ast.Call):
        name = ast.unparse(v.func)
        return 'call:' + name
    return type(v).__name__.lower()


def init_family(cls):
    """`__init__` and the methods it calls on self, transitively (construction-time helpers such as init_kernels)"""
    methods = {n.name: n for n in cls.body if isinstance(n, (ast.FunctionDef, ast.AsyncFunctionDef))}
    fam, todo = set(), ['__init__']
    while todo:
        m = todo.pop()
        if m in fam or m not in methods:
            continue
        fam.add(m)
        for node in ast.walk(methods[m]):
            if isinstance(node, ast.Call) and isinstance(node.func, ast.Attribute) and isinstance(node.func.value, ast.Name) \
                    and node.func.value.id == 'self' and node.func.attr in methods:
                todo.append(node.func.attr)
    return fam


def self_stores(fn):
    """attributes of self assigned (also augmented / subscript-assigned / deleted) inside one method"""
    out = set()
    for node in ast.walk(fn):
        targets = []
        if isinstance(node, ast.Assign):
            targets = node.targets
        elif isinstance(node, (ast.AugAssign, ast.AnnAssign)):
            targets = [node.target]
        elif isinstance(node, ast.Delete):
            targets = node.targets
        elif isinstance(node, (ast.For, ast.AsyncFor)):
            targets = [node.target]
        elif isinstance(node, ast.With):
            targets = [i.optional_vars for i in node.items if i.optional_vars is not None]
        elif isinstance(node, ast.Call) and isinstance(node.func, ast.Name) and node.func.id == 'setattr' and node.args \
                and isinstance(node.args[0], ast.Name) and node.args[0].id == 'self':
            out.add('<setattr>')
        if isinstance(node, ast.Call) and isinstance(node.func, ast.Attribute) and (node.func.attr in MUTATORS or
                                                                                   (node.func.attr.endswith('_') and not node.func.attr.startswith('_'))):
            sub = node.func.value          # self.cache.append(x), self.buffer.copy_(y), self.table[k].update(...)
            while isinstance(sub, (ast.Attribute, ast.Subscript)):
                if isinstance(sub, ast.Attribute) and isinstance(sub.value, ast.Name) and sub.value.id == 'self':
                    out.add(sub.attr)
                    break
                sub = sub.value
        for t in targets:
            for el in (t.elts if isinstance(t, (ast.Tuple, ast.List)) else [t]):
                sub = el.value if isinstance(el, ast.Starred) else el
                while isinstance(sub, (ast.Attribute, ast.Subscript)):          # the spine of the target only: `x[self.k] = 1` reads self.k
                    if isinstance(sub, ast.Attribute) and isinstance(sub.value, ast.Name) and sub.value.id == 'self':
                        out.add(sub.attr)
                        break
                    sub = sub.value
    return out


def scan(tree, rel):
    mod, inst = [], []
    fn_names = {n.name for n in tree.body if isinstance(n, (ast.FunctionDef, ast.AsyncFunctionDef))}
    imported = set()
    for n in tree.body:
        if isinstance(n, ast.Import):
            imported |= {(a.asname or a.name).split('.')[0] for a in n.names}
        elif isinstance(n, ast.ImportFrom):
            imported |= {a.asname or a.name for a in n.names}
    for node in tree.body:
        if isinstance(node, (ast.Assign, ast.AnnAssign)) and node.value is not None and is_stateful_value(node.value):
            for t in (node.targets if isinstance(node, ast.Assign) else [node.target]):
                mod.append((rel, ast.unparse(t), 'module-level ' + value_kind(node.value)))
    for node in ast.walk(tree):
        if isinstance(node, (ast.FunctionDef, ast.AsyncFunctionDef)):
            for d in node.decorator_list:
                s = ast.unparse(d)
                if 'cache' in s.lower() or 'memo' in s.lower():
                    mod.append((rel, node.name, 'decorator ' + s))
        if isinstance(node, ast.Global):
            mod.append((rel, ','.join(node.names), 'global statement'))
        if isinstance(node, ast.Nonlocal):
            mod.append((rel, ','.join(node.names), 'nonlocal statement'))
        if isinstance(node, (ast.Assign, ast.AugAssign)):
            for t in (node.targets if isinstance(node, ast.Assign) else [node.target]):
                base = t
                while isinstance(base, (ast.Attribute, ast.Subscript)):
                    parent = base
                    base = base.value
                    if isinstance(base, ast.Name) and isinstance(parent, ast.Attribute) and (base.id in fn_names or base.id in imported) \
                            and base.id not in ('self', 'cls'):
                        mod.append((rel, ast.unparse(t), 'attribute stored on a function or module'))
                        break
        if isinstance(node, ast.ClassDef):
            for st in node.body:
                if isinstance(st, (ast.Assign, ast.AnnAssign)) and st.value is not None and is_stateful_value(st.value):
                    for t in (st.targets if isinstance(st, ast.Assign) else [st.target]):
                        mod.append((rel, node.name + '.' + ast.unparse(t), 'class-level ' + value_kind(st.value)))
            fam = init_family(node)
            for st in node.body:
                if isinstance(st, (ast.FunctionDef, ast.AsyncFunctionDef)) and st.name not in fam:
                    for a in sorted(self_stores(st)):
                        inst.append((rel + ':' + node.name, a, st.name))
    return mod, inst


def generate():
    errors, mod, inst = [], [], []
    for root, dirs, files in os.walk(os.path.join(REPO, 'odak')):
        dirs.sort()
        for f in sorted(files):
            if not f.endswith('.py'):
                continue
            path = os.path.join(root, f)
            rel = os.path.relpath(path, os.path.join(REPO, 'odak'))[:-3].replace(os.sep, '.')
            try:
                m, i = scan(ast.parse(open(path).read()), rel)
            except (OSError, SyntaxError) as e:
                errors.append('%s: %s' % (rel, e))
                continue
            mod += m
            inst += i
    # stores on imported third-party modules (Blender scene settings: `bpy.context.scene... = ...`) are configuration of that library, one row per root
    ext = {}
    keep = []
    for r in mod:
        if r[2] == 'attribute stored on a function or module' and r[1].split('.')[0].split('[')[0] in ('bpy', 'matplotlib', 'plt', 'mpl'):
            key = (r[0], r[1].split('.')[0])
            ext[key] = ext.get(key, 0) + 1
        else:
            keep.append(r)
    mod = keep + [(f, root + '.*', 'attributes stored on an imported third-party module (%d)' % n) for (f, root), n in ext.items()]
    mod, inst = sorted(set(mod)), sorted(set(inst))
    out = ['/- GENERATED by harness/translate/statecensus.py – do not edit. -/', 'namespace Odak.Gen', '',
           '/-- (file, name, kind): where state can persist between calls at module / class / function level -/',
           'def moduleState : List (String × String × String) := [']
    out.append(',\n'.join('  (%s, %s, %s)' % tuple(map(lean_str, r)) for r in mod))
    out += [']', '', '/-- (file:class, attribute, method): attributes of self stored by a method outside the construction family (`__init__` and the methods it calls) -/',
            'def instanceState : List (String × String × String) := [']
    out.append(',\n'.join('  (%s, %s, %s)' % tuple(map(lean_str, r)) for r in inst))
    out += [']', '', 'end Odak.Gen', '']
    return '\n'.join(out), errors


if __name__ == '__main__':
    t, e = generate()
    print(t)
    print(e)
