"""Run every translator; write Generated/*.lean only when the text changed (so lake does not rebuild for nothing)."""
import os
from ..lib.core import LEAN

GEN = os.path.join(LEAN, 'OdakModel', 'Generated')
HEADER = 'set_option linter.unusedVariables false\n'


def write_if_changed(name, text):
    path = os.path.join(GEN, name)
    old = None
    if os.path.exists(path):
        with open(path) as f:
            old = f.read()
    if old != text:
        with open(path, 'w') as f:
            f.write(text)
        return True
    return False


def run():
    errors = []
    from . import index_exprs
    jobs = [('IndexExprs.lean', index_exprs.generate)]
    for mod in ('constants', 'rotmodes', 'loops', 'colour', 'caches', 'codec', 'effects'):
        try:
            m = __import__('harness.translate.' + mod, fromlist=['generate'])
            jobs.append((m.FILE, m.generate))
        except ImportError:
            pass
    for name, gen in jobs:
        try:
            text, errs = gen()
        except Exception as e:  # a translator crash is a translator error, not a violation
            errors.append('%s: translator crashed: %r' % (name, e))
            continue
        errors += ['%s: %s' % (name, e) for e in errs]
        files = text if isinstance(text, dict) else {name: text}
        for fname, ftext in files.items():
            lines = ftext.split('\n')
            k = max([i for i, l in enumerate(lines) if l.startswith('import ')] + [-1]) + 1
            write_if_changed(fname, '\n'.join(lines[:k] + [HEADER.rstrip('\n')] + lines[k:]))
        if isinstance(text, dict):      # remove stale chunk files of an earlier, longer table
            for old in os.listdir(GEN):
                if old.startswith('EffectsChunk') and old not in files:
                    os.remove(os.path.join(GEN, old))
    return errors


if __name__ == '__main__':
    print(run())
