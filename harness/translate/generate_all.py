"""Run every translator.  Generated/*.lean are rewritten only when the text changed (so lake does not rebuild for nothing).

A translator that cannot extract something from the current source does NOT write a partial or placeholder model: the file it is
responsible for keeps its present content (the committed / last accepted model of that part of the code) and the error is returned.
The theorems are then about that kept model and the tie to the source is the correspondence check of the run (see run.py)."""
import os
import re
from ..lib.core import LEAN

GEN = os.path.join(LEAN, 'OdakModel', 'Generated')
HEADER = 'set_option linter.unusedVariables false\n'


def write_if_changed(name, text):
    path = os.path.join(GEN, name)
    old = None
    if os.path.exists(path):
        with open(path) as f:
            old = f.read()
    if old != text:
        with open(path, 'w') as f:
            f.write(text)
        return True
    return False


def snapshot():
    out = {}
    if os.path.isdir(GEN):
        for n in sorted(os.listdir(GEN)):
            if n.endswith('.lean'):
                with open(os.path.join(GEN, n)) as f:
                    out[n] = f.read()
    return out


def restore(snap):
    """put back a snapshot; returns the names whose content changed"""
    changed = []
    for n, t in snap.items():
        if write_if_changed(n, t):
            changed.append(n)
    for n in os.listdir(GEN):
        if n.endswith('.lean') and n not in snap:
            os.remove(os.path.join(GEN, n))
            changed.append(n)
    return changed


def run():
    """returns the list of translator errors ('<File>.lean: <what>'); files with errors are left as they are"""
    errors = []
    from . import index_exprs
    jobs = [('IndexExprs.lean', index_exprs.generate)]
    for mod in ('constants', 'rotmodes', 'loops', 'colour', 'caches', 'codec', 'effects', 'wavekernels', 'geometry', 'callsites',
                'samplers', 'quantisers', 'slicers', 'foveation', 'losses', 'pipelines', 'gradbreakers', 'geombatch', 'defocus', 'spheresearch',
                'pipelines_more', 'colourtensors', 'padcrop', 'imagecodec', 'statemachines', 'statsmaps', 'raycreate', 'raycreatebatch', 'holograms', 'statecensus', 'cylinder', 'samplers_more', 'plygen', 'propobject', 'lossobjects', 'meshobject', 'optattrs'):
        try:
            m = __import__('harness.translate.' + mod, fromlist=['generate'])
            jobs.append((m.FILE, m.generate))
        except ImportError:
            pass
    for name, gen in jobs:
        try:
            text, errs = gen()
        except Exception as e:  # a translator crash is a translator error, not a violation
            errors.append('%s: translator crashed: %r' % (name, e))
            continue
        errors += ['%s: %s' % (name, e) for e in errs]
        if errs and not getattr(gen, 'partial_ok', False):
            continue        # keep the present file
        files = text if isinstance(text, dict) else {name: text}
        for fname, ftext in files.items():
            lines = ftext.split('\n')
            k = max([i for i, l in enumerate(lines) if l.startswith('import ')] + [-1]) + 1
            write_if_changed(fname, '\n'.join(lines[:k] + [HEADER.rstrip('\n')] + lines[k:]))
        if isinstance(text, dict):      # remove stale chunk files of an earlier, longer table
            for old in os.listdir(GEN):
                if old.startswith('EffectsChunk') and old not in files:
                    os.remove(os.path.join(GEN, old))
    return errors


if __name__ == '__main__':
    print(run())
