"""Regenerates Generated/LossesGen.lean: the reduction structure of the shipped loss formulas of

    odak/learn/tools/loss.py                          total_variation_loss, multi_scale_total_variation_loss, histogram_loss,
                                                      wrapped_mean_squared_error, weber_contrast, michelson_contrast, radial_basis_function
    odak/learn/wave/loss.py                           multiplane_loss.__call__, phase_gradient.forward, speckle_contrast.forward
    odak/learn/perception/image_quality_losses.py     PSNR.forward

by symbolic interpretation of the Python `ast` (odak is never executed).

A tensor is a nested list (`T1 α … T4 α` of OdakModel/LossPrelude.lean), the way OdakModel/Losses.lean is written: elementwise operations
are `Tn.map_r` / `Tn.zip_r`, `x.sum()` / `x.mean()` are `Tn.sum_r` / `Tn.mean_r`, a shifted slice `x[..., 1:, :]` is `Tn.at_k List.tail x`,
`x[..., :-1, :]` is `Tn.at_k List.dropLast x`, `x.shape[k]` is `Tn.dim_k x` (a `Nat`), `x.unsqueeze(0)` is `[x]`.  `torch.nn.MSELoss` /
`L1Loss` objects are the model's `mse` / `l1`.  Tests on the rank (`len(frame.shape) == 2`) and on string parameters (`reduction == 'mean'`)
are decided at translation time from the rank / value the job fixes.  `F.conv2d` is not unfolded: the two regularisers are translated per
window (see `speckle` / `phase_gradient` below).  Anything outside the grammar is a TranslateError: the error is returned and
`generate_all` keeps the accepted file."""
import ast
import os
import re
from .pyexpr import TranslateError, find_function
from .constants import sci, default_of

REPO = os.environ.get('ODAK_REPO', '/repo')
FILE = 'LossesGen.lean'
F_TOOLS = 'odak/learn/tools/loss.py'
F_WAVE = 'odak/learn/wave/loss.py'
F_IQ = 'odak/learn/perception/image_quality_losses.py'
LIBS = ('torch', 'math', 'np', 'numpy', 'F', 'nn')
CATCH = (TranslateError, OSError, SyntaxError, KeyError, IndexError, AttributeError, TypeError, ValueError)
_trees = {}


def tree(rel):
    if rel not in _trees:
        with open(os.path.join(REPO, rel)) as f:
            _trees[rel] = ast.parse(f.read())
    return _trees[rel]


def lit(x):
    if isinstance(x, bool):
        raise TranslateError('boolean used as a number')
    if isinstance(x, float) and x == int(x) and abs(x) < 2 ** 53:
        x = int(x)
    return sci(x)


def ty(rank):
    return 'α' if rank == 0 else 'T%d α' % rank


class Ten:
    """tensor of rank `rank` (0 = scalar); unit[k] = axis k is known to have size 1"""
    def __init__(self, rank, term, unit=None, const=None):
        self.rank, self.term, self.const = rank, term, const
        self.unit = list(unit) if unit is not None else [False] * rank


class Nat:
    def __init__(self, term, const=None):
        self.term, self.const = term, const


class Py:
    def __init__(self, const=None, opaque=False):
        self.const, self.opaque = const, opaque


class Lst:
    def __init__(self, items):
        self.items = items


class LossObj:
    def __init__(self, fn):
        self.fn = fn            # 'mse' | 'l1'


class Down:
    """torch.nn.Upsample(scale_factor = 0.5, mode = 'nearest')"""


class Shape:
    def __init__(self, ten):
        self.ten = ten


def loss_ctor(node):
    """torch.nn.MSELoss(...) / nn.L1Loss(...) -> 'mse' / 'l1' (reduction 'mean' only), else None"""
    if not isinstance(node, ast.Call):
        return None
    name = ast.unparse(node.func).rpartition('.')[2]
    if name not in ('MSELoss', 'L1Loss') or node.args:
        return None
    for k in node.keywords:
        if k.arg != 'reduction':
            raise TranslateError('unsupported loss argument ' + ast.unparse(node))
        v = ast.unparse(k.value)
        if v not in ("'mean'", '"mean"', 'self.reduction', 'reduction'):
            raise TranslateError('unsupported reduction ' + v)
    return 'mse' if name == 'MSELoss' else 'l1'


class Interp:
    def __init__(self, env, registry, attrs=None, hooks=None):
        self.env, self.registry = dict(env), registry
        self.attrs = attrs or {}             # unparsed source text -> value (self.x, F.conv2d(...) patterns)
        self.hooks = hooks or {}             # method name -> python callable(interp, node) for `self.method(...)`
        self.lets, self.counter = [], 0
        self.alias = {}                      # let-bound name -> the name it is a plain copy of

    def root(self, term):
        return self.alias.get(term, term)

    def fresh(self, base):
        self.counter += 1
        return '%s_%d' % (base, self.counter)

    def bind(self, base, v):
        if isinstance(v, Ten):
            n = self.fresh(base)
            self.lets.append('let %s : %s := %s' % (n, ty(v.rank), v.term))
            if re.fullmatch(r"[A-Za-z_][A-Za-z0-9_']*", v.term):
                self.alias[n] = self.root(v.term)
            return Ten(v.rank, n, v.unit, v.const)
        if isinstance(v, Nat) and v.const is None:
            n = self.fresh(base)
            self.lets.append('let %s : Nat := %s' % (n, v.term))
            return Nat(n)
        return v

    def scal(self, v, what):
        if isinstance(v, Ten) and v.rank == 0:
            return v.term
        if isinstance(v, Nat):
            return '(Num.ofNat %s)' % v.term
        raise TranslateError('expected a number in %s' % what)

    def elementwise(self, a, b, sym, src):
        f = '(fun a b => a %s b)' % sym
        if isinstance(a, Nat) and isinstance(b, Nat):
            if sym in '+*':
                c = None
                if a.const is not None and b.const is not None:
                    c = a.const + b.const if sym == '+' else a.const * b.const
                return Nat('(%s %s %s)' % (a.term, sym, b.term), c)
            if sym == '-':
                return Nat('(%s - %s)' % (a.term, b.term))
        if isinstance(a, Nat):
            a = Ten(0, '(Num.ofNat %s)' % a.term)
        if isinstance(b, Nat):
            b = Ten(0, '(Num.ofNat %s)' % b.term)
        if not (isinstance(a, Ten) and isinstance(b, Ten)):
            raise TranslateError('unsupported operands in ' + src)
        if a.rank == b.rank:
            if a.rank == 0:
                return Ten(0, '(%s %s %s)' % (a.term, sym, b.term))
            return Ten(a.rank, '(Tn.zip%d %s %s %s)' % (a.rank, f, a.term, b.term), [x and y for x, y in zip(a.unit, b.unit)])
        if b.rank == 0:
            return Ten(a.rank, '(Tn.map%d (fun a => a %s %s) %s)' % (a.rank, sym, b.term, a.term), a.unit)
        if a.rank == 0:
            return Ten(b.rank, '(Tn.map%d (fun b => %s %s b) %s)' % (b.rank, a.term, sym, b.term), b.unit)
        raise TranslateError('operands of different ranks in ' + src)

    def mapf(self, fn, v, src):
        if isinstance(v, Nat):
            v = Ten(0, '(Num.ofNat %s)' % v.term)
        if not isinstance(v, Ten):
            raise TranslateError('expected a tensor in ' + src)
        if v.rank == 0:
            return Ten(0, '(%s %s)' % (fn, v.term))
        return Ten(v.rank, '(Tn.map%d %s %s)' % (v.rank, fn, v.term), v.unit)

    def power(self, a, e, src):
        if not (isinstance(e, Ten) and e.const is not None):
            raise TranslateError('unsupported exponent in ' + src)
        if e.const == 2:
            if isinstance(a, Nat):
                return Nat('(%s * %s)' % (a.term, a.term))
            return self.mapf('Num.sq', a, src)
        if e.const == 0.5:
            return self.mapf('Num.sqrt', a, src)
        raise TranslateError('unsupported exponent in ' + src)

    def reduce(self, v, kind, src):
        if not isinstance(v, Ten) or v.rank == 0:
            raise TranslateError('reduction of something that is not a tensor in ' + src)
        return Ten(0, '(Tn.%s%d %s)' % (kind, v.rank, v.term))

    # ------------------------------------------------------------------ expressions
    def ev(self, node):
        src = ast.unparse(node)
        if src in self.attrs:
            return self.attrs[src]
        if isinstance(node, ast.Constant):
            c = node.value
            if isinstance(c, bool) or c is None or isinstance(c, str):
                return Py(c)
            if isinstance(c, int) and c >= 0:
                return Ten(0, lit(c), const=c)
            if isinstance(c, (int, float)):
                return Ten(0, lit(c), const=c)
            raise TranslateError('unsupported constant ' + src)
        if isinstance(node, ast.Name):
            if node.id in self.env:
                return self.env[node.id]
            raise TranslateError('unknown name ' + node.id)
        if isinstance(node, ast.Attribute):
            base_src = ast.unparse(node.value)
            if isinstance(node.value, ast.Name) and node.value.id in LIBS and node.value.id not in self.env:
                return Py(opaque=True)
            base = self.ev(node.value)
            if node.attr == 'shape' and isinstance(base, Ten):
                return Shape(base)
            if node.attr == 'device':
                return Py(opaque=True)
            raise TranslateError('unsupported attribute ' + src)
        if isinstance(node, (ast.Tuple, ast.List)):
            return Lst([self.ev(e) for e in node.elts])
        if isinstance(node, ast.Subscript):
            return self.subscript(self.ev(node.value), node.slice, src)
        if isinstance(node, ast.UnaryOp) and isinstance(node.op, ast.USub):
            a = self.ev(node.operand)
            if isinstance(a, Ten) and a.const is not None:
                return Ten(0, '(-%s)' % a.term, const=-a.const)
            return self.mapf('(fun a => -a)', a, src) if isinstance(a, Ten) and a.rank else Ten(0, '(-%s)' % self.scal(a, src))
        if isinstance(node, ast.BinOp):
            a, b = self.ev(node.left), self.ev(node.right)
            if isinstance(node.op, ast.Pow):
                return self.power(a, b, src)
            sym = {ast.Add: '+', ast.Sub: '-', ast.Mult: '*', ast.Div: '/'}.get(type(node.op))
            if sym is None:
                raise TranslateError('unsupported operator in ' + src)
            return self.elementwise(a, b, sym, src)
        if isinstance(node, ast.Compare) and len(node.ops) == 1:
            a, b = self.ev(node.left), self.ev(node.comparators[0])
            op = type(node.ops[0])
            if isinstance(a, Py) and isinstance(b, Py) and not a.opaque and not b.opaque and op in (ast.Eq, ast.NotEq):
                return Py((a.const == b.const) == (op is ast.Eq))
            if isinstance(a, Nat) and a.const is not None and isinstance(b, Ten) and b.const is not None and op in (ast.Eq, ast.NotEq):
                return Py((a.const == b.const) == (op is ast.Eq))
            if isinstance(a, Nat) and isinstance(b, Ten) and isinstance(b.const, int) and op in (ast.Eq, ast.NotEq):
                return ('natcmp', '%s %s %d' % (a.term, '=' if op is ast.Eq else '≠', b.const))
            raise TranslateError('unsupported comparison ' + src)
        if isinstance(node, ast.Call):
            return self.call(node, src)
        raise TranslateError('unsupported expression ' + src)

    def subscript(self, base, sl, src):
        if isinstance(base, Shape):
            if isinstance(sl, ast.Constant) and isinstance(sl.value, int) and 0 <= sl.value < base.ten.rank:
                if base.ten.unit[sl.value]:
                    return Nat('1', 1)
                return Nat('(Tn.dim%d %s)' % (sl.value, base.ten.term))
            if isinstance(sl, ast.UnaryOp) and isinstance(sl.operand, ast.Constant) and 1 <= sl.operand.value <= base.ten.rank:
                k = base.ten.rank - sl.operand.value
                return Nat('1', 1) if base.ten.unit[k] else Nat('(Tn.dim%d %s)' % (k, base.ten.term))
            raise TranslateError('unsupported shape index ' + src)
        if isinstance(base, Lst):
            if isinstance(sl, ast.Constant) and isinstance(sl.value, int) and -len(base.items) <= sl.value < len(base.items):
                return base.items[sl.value]
            raise TranslateError('unsupported list index ' + src)
        if isinstance(base, Ten) and base.rank:
            elts = list(sl.elts) if isinstance(sl, ast.Tuple) else [sl]
            if len(elts) > base.rank:
                raise TranslateError('too many indices in ' + src)
            term = base.term
            for k, e in enumerate(elts):
                if not isinstance(e, ast.Slice) or e.step is not None:
                    raise TranslateError('unsupported index in ' + src)
                lo, hi = e.lower, e.upper
                if lo is None and hi is None:
                    continue
                if hi is None and isinstance(lo, ast.Constant) and lo.value == 1:
                    op = 'List.tail'
                elif lo is None and isinstance(hi, ast.UnaryOp) and isinstance(hi.op, ast.USub) and isinstance(hi.operand, ast.Constant) \
                        and hi.operand.value == 1:
                    op = 'List.dropLast'
                elif lo is not None and hi is not None:
                    a, b = self.ev(lo), self.ev(hi)
                    if not (isinstance(a, Nat) and isinstance(b, Nat)):
                        raise TranslateError('slice bounds are not integers in ' + src)
                    op = '(Tn.slice %s %s)' % (a.term, b.term)
                else:
                    raise TranslateError('unsupported slice in ' + src)
                term = '(Tn.at%d %s %s)' % (k, op, term)
            return Ten(base.rank, term, [False if not (isinstance(e, ast.Slice) and e.lower is None and e.upper is None) else u
                                        for e, u in zip(elts + [ast.Slice()] * (base.rank - len(elts)), base.unit)])
        raise TranslateError('unsupported subscript ' + src)

    def call(self, node, src):
        f = ast.unparse(node.func)
        lib, _, short = f.rpartition('.')
        root = f.split('.')[0]
        kws = {k.arg: k.value for k in node.keywords}
        if loss_ctor(node):
            return LossObj(loss_ctor(node))
        if short == 'Upsample' and root in LIBS:
            if ast.unparse(kws.get('scale_factor', ast.Constant(None))) == '0.5' and ast.unparse(kws.get('mode', ast.Constant(None))) in ("'nearest'", '"nearest"') \
                    and not node.args and len(kws) == 2:
                return Down()
            raise TranslateError('unsupported Upsample ' + src)
        if f == 'len' and len(node.args) == 1:
            a = self.ev(node.args[0])
            if isinstance(a, Shape):
                return Nat(str(a.ten.rank), a.ten.rank)
            raise TranslateError('unsupported len ' + src)
        if f == 'isinstance' and src == 'isinstance(plane_id, type(None))':
            return ('dynamic',)
        if isinstance(node.func, ast.Name) and node.func.id in self.env:
            obj = self.env[node.func.id]
            return self.apply(obj, [self.ev(a) for a in node.args], src)
        if isinstance(node.func, ast.Attribute) and root == 'self':
            if f in self.attrs:
                return self.apply(self.attrs[f], [self.ev(a) for a in node.args], src)
            if short in self.hooks and lib == 'self':
                return self.hooks[short](self, node)
            raise TranslateError('unsupported method ' + src)
        if isinstance(node.func, ast.Attribute) and root not in LIBS or (root in self.env):
            recv = self.ev(node.func.value)
            m = node.func.attr
            if m in ('to', 'float', 'double', 'clone', 'detach', 'contiguous'):
                return recv
            if m == 'unsqueeze' and isinstance(recv, Ten) and len(node.args) == 1 and ast.unparse(node.args[0]) == '0' and recv.rank < 4:
                return Ten(recv.rank + 1, '[%s]' % recv.term, [True] + recv.unit)
            if m == 'squeeze' and isinstance(recv, Ten) and len(node.args) == 1 and ast.unparse(node.args[0]) == '0' and recv.rank >= 1:
                if not recv.unit[0]:
                    raise TranslateError('squeeze of an axis that is not known to have size 1 in ' + src)
                dflt = '[]' if recv.rank > 1 else lit(0)
                return Ten(recv.rank - 1, '(%s.headD %s)' % (recv.term, dflt), recv.unit[1:])
            if m == 'reshape' and isinstance(recv, Ten) and recv.rank == 2 and len(node.args) == 1 \
                    and ast.unparse(node.args[0]).replace(' ', '') == '(1,1,%s.shape[0],%s.shape[1])' % ((ast.unparse(node.func.value),) * 2):
                return Ten(4, '[[%s]]' % recv.term, [True, True] + recv.unit)
            if m in ('sum', 'mean') and not node.args and not node.keywords:
                return self.reduce(recv, m, src)
            if m == 'flatten' and isinstance(recv, Ten) and recv.rank >= 1 and not node.args:
                return recv if recv.rank == 1 else Ten(1, '(Tn.flat%d %s)' % (recv.rank, recv.term))
            raise TranslateError('unsupported method ' + src)
        if root in LIBS:
            simple = {'sin': 'Num.sin', 'cos': 'Num.cos', 'exp': 'Num.exp', 'sqrt': 'Num.sqrt', 'abs': 'Num.abs', 'log10': 'Num.log10',
                      'log': 'Num.log'}
            if short in simple and len(node.args) == 1 and not node.keywords:
                return self.mapf(simple[short], self.ev(node.args[0]), src)
            if short == 'pow' and len(node.args) == 2:
                return self.power(self.ev(node.args[0]), self.ev(node.args[1]), src)
            if short in ('mean', 'sum') and len(node.args) == 1:
                a = self.ev(node.args[0])
                d = kws.get('dim') or kws.get('axis')
                if d is None and not kws:
                    return self.reduce(a, short, src)
                if short == 'mean' and d is not None and ast.unparse(d).replace(' ', '') in ('(2,3)', '[2,3]') and isinstance(a, Ten) and a.rank == 4 and len(kws) == 1:
                    return Ten(2, '(Tn.meanLast2 %s)' % a.term, a.unit[:2])
                raise TranslateError('unsupported reduction ' + src)
            if short == 'zeros_like' and len(node.args) == 1 and not node.keywords:
                return self.mapf('(fun _ => %s)' % lit(0), self.ev(node.args[0]), src)
            raise TranslateError('unsupported call ' + src)
        if isinstance(node.func, ast.Name) and (f, None) in self.registry:
            args = [self.ev(a) for a in node.args]
            if node.keywords or len(args) != 1 or not isinstance(args[0], Ten):
                raise TranslateError('unsupported argument list in ' + src)
            key = (f, args[0].rank)
            if key not in self.registry:
                raise TranslateError('%s is not translated for rank %d' % key)
            return Ten(0, '(%s %s)' % (self.registry[key], args[0].term))
        raise TranslateError('unsupported call ' + src)

    def apply(self, obj, args, src):
        if isinstance(obj, LossObj):
            if len(args) == 2 and all(isinstance(a, Ten) and a.rank == 1 for a in args):
                return Ten(0, '(%s %s %s)' % (obj.fn, args[0].term, args[1].term))
            raise TranslateError('loss object applied to something that is not a pair of flattened tensors in ' + src)
        if isinstance(obj, Down):
            if len(args) == 1 and isinstance(args[0], Ten) and args[0].rank == 4:
                return Ten(4, '(Tn.down2 %s)' % args[0].term, args[0].unit[:2] + [False, False])
            raise TranslateError('Upsample applied to something that is not a [N, C, H, W] tensor in ' + src)
        raise TranslateError('call of something that is not callable in ' + src)

    # ------------------------------------------------------------------ statements
    def run(self, body):
        for st in body:
            src = ast.unparse(st)
            if isinstance(st, ast.Expr) and isinstance(st.value, ast.Constant):
                continue
            if isinstance(st, ast.Return):
                if st.value is None:
                    raise TranslateError('bare return')
                return self.ev(st.value)
            if isinstance(st, ast.Raise):
                raise TranslateError('the translated path raises: ' + src[:60])
            if isinstance(st, ast.Assign) and len(st.targets) == 1 and isinstance(st.targets[0], ast.Name):
                self.env[st.targets[0].id] = self.bind(st.targets[0].id, self.ev(st.value))
                continue
            if isinstance(st, ast.AugAssign) and isinstance(st.target, ast.Name) and isinstance(st.op, ast.Add):
                v = self.elementwise(self.ev(st.target), self.ev(st.value), '+', src)
                self.env[st.target.id] = self.bind(st.target.id, v)
                continue
            if isinstance(st, ast.If):
                r = self.branch(st)
                if r is not None:
                    return r
                continue
            if isinstance(st, ast.For):
                self.loop(st, src)
                continue
            raise TranslateError('unsupported statement ' + src[:80])
        return None

    def branch(self, st):
        c = self.ev(st.test)
        if isinstance(c, Py) and isinstance(c.const, bool):
            return self.run(st.body if c.const else st.orelse)
        if isinstance(c, tuple) and c[0] in ('dynamic', 'natcmp'):
            base = dict(self.env)
            envs = []
            for body in (st.body, st.orelse):
                self.env = dict(base)
                if self.run(body) is not None:
                    raise TranslateError('return inside a dynamic branch')
                envs.append(self.env)
            self.env = dict(base)
            for name in sorted(set(envs[0]) | set(envs[1])):
                a, b = envs[0].get(name), envs[1].get(name)
                if a is b:
                    continue
                if not (isinstance(a, Ten) and isinstance(b, Ten) and a.rank == b.rank):
                    raise TranslateError('variable %s differs between the branches in a way that is not translated' % name)
                if self.root(a.term) == self.root(b.term):
                    self.env[name] = a
                elif c[0] == 'natcmp':
                    self.env[name] = self.bind(name, Ten(a.rank, '(if %s then %s else %s)' % (c[1], a.term, b.term), [x and y for x, y in zip(a.unit, b.unit)]))
                else:
                    raise TranslateError('variable %s depends on a test that is not translated' % name)
            return None
        raise TranslateError('condition is not decided at translation time: ' + ast.unparse(st.test))

    def loop(self, st, src):
        """`for i in range(n): …` over a `Nat` n: a left fold over `List.range n`; the state is every variable the body assigns"""
        if not (isinstance(st.target, ast.Name) and isinstance(st.iter, ast.Call) and ast.unparse(st.iter.func) == 'range' and len(st.iter.args) == 1
                and not st.orelse):
            raise TranslateError('unsupported loop ' + src[:60])
        n = self.ev(st.iter.args[0])
        if not isinstance(n, Nat):
            raise TranslateError('loop bound is not an integer in ' + src[:60])
        assigned = []
        for x in ast.walk(st):
            t = None
            if isinstance(x, ast.Assign) and len(x.targets) == 1 and isinstance(x.targets[0], ast.Name):
                t = x.targets[0].id
            elif isinstance(x, ast.AugAssign) and isinstance(x.target, ast.Name):
                t = x.target.id
            if t is not None and t not in assigned:
                assigned.append(t)
        state = [v for v in assigned if v in self.env]
        if len(state) != len(assigned) or not all(isinstance(self.env[v], Ten) for v in state) or not state:
            raise TranslateError('loop body assigns a variable that has no value before the loop: ' + src[:60])
        init = [self.env[v] for v in state]
        sty = ' × '.join('(%s)' % ty(v.rank) if v.rank else 'α' for v in init)
        outer_lets, self.lets = self.lets, []
        saved_env = dict(self.env)
        proj = (lambda k: 'st' if len(state) == 1 else 'st.' + '.'.join(['2'] * k + (['1'] if k < len(state) - 1 else [])))
        for k, v in enumerate(state):
            self.env[v] = Ten(init[k].rank, v, [False] * init[k].rank if init[k].rank else None)
            self.lets.append('let %s : %s := %s' % (v, ty(init[k].rank), proj(k)))
        self.env[st.target.id] = Nat(st.target.id)
        if self.run(st.body) is not None:
            raise TranslateError('return inside a loop')
        res = [self.env[v] for v in state]
        if not all(isinstance(r, Ten) and r.rank == i.rank for r, i in zip(res, init)):
            raise TranslateError('loop state changes its rank: ' + src[:60])
        body = self.lets + ['(' + ', '.join(r.term for r in res) + ')' if len(res) > 1 else res[0].term]
        self.lets, self.env = outer_lets, saved_env
        name = self.fresh('loop')
        text = '((List.range %s).foldl (fun (st : %s) (%s : Nat) =>\n' % (n.term, sty, st.target.id)
        text += '\n'.join('    ' + l for l in body) + ')\n    (' + ', '.join(i.term for i in init) + '))' if len(init) > 1 else \
            '\n'.join('    ' + l for l in body) + ')\n    ' + init[0].term + ')'
        self.lets.append('let %s : %s := %s' % (name, sty, text))
        for k, v in enumerate(state):
            self.env[v] = self.bind(v, Ten(init[k].rank, name if len(state) == 1 else name + '.' + '.'.join(['2'] * k + (['1'] if k < len(state) - 1 else [])),
                                           None))


# ---------------------------------------------------------------------------------------------------------------------

def emit(name, binders, rtype, it, res, doc):
    lines = ['/-- %s -/' % doc, 'def %s %s : %s :=' % (name, binders, rtype)]
    lines += ['  ' + l for let in it.lets for l in let.split('\n')] + ['  ' + res]
    return '\n'.join(lines)


def simple_job(rel, py, lean, params, rank_out, registry, cls=None, attrs=None, doc=''):
    """params: (python name, kind, lean name); kind: ('ten', r) | 's' | 'nat' | ('const', value) | ('nats', n)"""
    fn = find_function(tree(rel), py, cls)
    names = [a.arg for a in fn.args.args if a.arg != 'self']
    if names != [p[0] for p in params]:
        raise TranslateError('%s: the parameter list is %s, the translator expects %s' % (py, names, [p[0] for p in params]))
    env, binders = {}, []
    for pname, kind, ln in params:
        if isinstance(kind, tuple) and kind[0] == 'ten':
            env[pname] = Ten(kind[1], ln)
            binders.append('(%s : %s)' % (ln, ty(kind[1])))
        elif kind == 's':
            env[pname] = Ten(0, ln)
            binders.append('(%s : α)' % ln)
        elif kind == 'nat':
            env[pname] = Nat(ln)
            binders.append('(%s : Nat)' % ln)
        elif isinstance(kind, tuple) and kind[0] == 'const':
            env[pname] = Py(kind[1])
        elif isinstance(kind, tuple) and kind[0] == 'nats':
            env[pname] = Lst([Nat('%s%d' % (ln, k)) for k in range(kind[1])])
            binders.append('(%s : Nat)' % ' '.join('%s%d' % (ln, k) for k in range(kind[1])))
    it = Interp(env, registry, attrs=attrs)
    res = it.run(fn.body)
    if not (isinstance(res, Ten) and res.rank == rank_out):
        raise TranslateError('%s: the result is not a tensor of rank %d' % (py, rank_out))
    where = '`%s%s` (%s)' % ((cls + '.') if cls else '', py, rel)
    return emit(lean, ' '.join(binders), ty(rank_out), it, res.term, where + doc)


def multiplane(registry):
    t = tree(F_WAVE)
    init = find_function(t, '__init__', 'multiplane_loss')
    fn = None
    for st in ast.walk(init):
        if isinstance(st, ast.Assign) and ast.unparse(st.targets[0]) == 'self.loss_function':
            fn = loss_ctor(st.value)
    if fn is None:
        raise TranslateError('multiplane_loss.__init__: self.loss_function is not an MSELoss / L1Loss object')
    if default_of(init, 'reduction') != 'mean':
        raise TranslateError('multiplane_loss: the default reduction is not the mean')
    w = [x for x in ast.walk(init) if isinstance(x, ast.Assign) and ast.unparse(x.targets[0]) == 'self.weights']
    if len(w) != 1 or ast.unparse(w[0].value) != 'weights':
        raise TranslateError('multiplane_loss.__init__: self.weights is not the weights argument')
    # `mask = self.masks` (the whole bank) and `mask = self.masks[plane_id, :]` are both "the mask" of the Lean definition
    attrs = {'self.weights': Lst([Ten(0, 'w0'), Ten(0, 'w1'), Ten(0, 'w2')]), 'self.loss_function': LossObj(fn),
             'self.masks': Ten(1, 'mask'), 'self.masks[plane_id, :]': Ten(1, 'mask')}
    call = find_function(t, '__call__', 'multiplane_loss')
    if [a.arg for a in call.args.args] != ['self', 'image', 'target', 'plane_id']:
        raise TranslateError('multiplane_loss.__call__: unexpected parameter list')
    it = Interp({'image': Ten(1, 'image'), 'target': Ten(1, 'target'), 'plane_id': Py(opaque=True)}, registry, attrs=attrs)
    res = it.run(call.body)
    if not (isinstance(res, Ten) and res.rank == 0):
        raise TranslateError('multiplane_loss.__call__: the result is not a scalar')
    return emit('multiplaneLossG', '(w0 w1 w2 : α) (image target mask : T1 α)', 'α', it, res.term,
                '`multiplane_loss.__call__` (%s); `self.loss_function` is `%s`; `mask` is `self.masks` or `self.masks[plane_id, :]`' % (F_WAVE, fn))


def module_loss_default(cls):
    init = find_function(tree(F_WAVE), '__init__', cls)
    args, defaults = init.args.args, init.args.defaults
    for a, d in zip(args[len(args) - len(defaults):], defaults):
        if a.arg == 'loss':
            fn = loss_ctor(d)
            if fn:
                break
    else:
        raise TranslateError('%s.__init__: no default loss' % cls)
    if not any(isinstance(s, ast.Assign) and ast.unparse(s) == 'self.loss = loss' for s in ast.walk(init)):
        raise TranslateError('%s.__init__: self.loss is not the loss argument' % cls)
    return fn, init


def speckle(registry):
    fn, init = module_loss_default('speckle_contrast')
    k = [s for s in ast.walk(init) if isinstance(s, ast.Assign) and ast.unparse(s.targets[0]) == 'self.kernel']
    if not k or ast.unparse(k[0].value).replace(' ', '') != 'torch.ones((1,1,self.kernel_size,self.kernel_size))/self.kernel_size**2':
        raise TranslateError('speckle_contrast.__init__: the kernel is not the box filter ones / kernel_size ** 2')
    conv = find_function(tree(F_WAVE), 'functional_conv2d', 'speckle_contrast')
    attrs = {'F.conv2d(intensity, self.kernel, stride=self.step_size)': Ten(0, 'mu'),
             'F.conv2d(torch.pow(intensity, 2), self.kernel, stride=self.step_size)': Ten(0, 'm2')}
    it = Interp({'intensity': Py(opaque=True)}, registry, attrs=attrs)
    res = it.run(conv.body)
    if not (isinstance(res, Ten) and res.rank == 0):
        raise TranslateError('speckle_contrast.functional_conv2d: not a per-window formula of the window mean and the window mean of squares')
    out = [emit('speckleWindowG', '(mu m2 : α)', 'α', it, res.term,
                '`speckle_contrast.functional_conv2d` (%s) at ONE window: `mu` = box-filtered intensity, `m2` = box-filtered squared intensity' % F_WAVE)]
    fwd = find_function(tree(F_WAVE), 'forward', 'speckle_contrast')
    it = Interp({'intensity': Ten(2, 'intensity')}, registry, attrs={'self.loss': LossObj(fn)},
                hooks={'functional_conv2d': lambda i, node: Ten(1, 'c')})
    res = it.run(fwd.body)
    if not (isinstance(res, Ten) and res.rank == 0):
        raise TranslateError('speckle_contrast.forward: the result is not a scalar')
    lets = [l for l in it.lets if not l.startswith('let intensity')]
    it.lets = lets
    out.append(emit('speckleLossG', '(c : T1 α)', 'α', it, res.term,
                    '`speckle_contrast.forward` (%s): `c` = the speckle contrast of every window, flattened; `self.loss` is `%s`' % (F_WAVE, fn)))
    return '\n\n'.join(out)


def phase_gradient(registry):
    fn, init = module_loss_default('phase_gradient')
    kern = None
    for s in ast.walk(init):
        if isinstance(s, ast.Assign) and ast.unparse(s.targets[0]) == 'self.kernel' and isinstance(s.value, ast.BinOp) and isinstance(s.value.op, ast.Div):
            lhs, rhs = s.value.left, s.value.right
            if isinstance(lhs, ast.Call) and ast.unparse(lhs.func) == 'torch.tensor' and isinstance(rhs, ast.Constant):
                v = ast.literal_eval(lhs.args[0])
                while isinstance(v, list) and len(v) == 1 and isinstance(v[0], list) and isinstance(v[0][0], list):
                    v = v[0]
                kern = (v, rhs.value)
    if kern is None:
        raise TranslateError('phase_gradient.__init__: the default kernel literal was not found')
    rows = '[' + ', '.join('[' + ', '.join('(%s / %s)' % (lit(x), lit(kern[1])) for x in r) + ']' for r in kern[0]) + ']'
    conv = find_function(tree(F_WAVE), 'functional_conv2d', 'phase_gradient')
    body = [s for s in conv.body if not (isinstance(s, ast.Expr) and isinstance(s.value, ast.Constant))]
    want = 'edge_detect = F.conv2d(phase, self.kernel, padding=self.kernel.shape[-1] // 2)'
    if len(body) != 2 or ast.unparse(body[0]) != want or ast.unparse(body[1]) != 'return edge_detect':
        raise TranslateError('phase_gradient.functional_conv2d is not `F.conv2d(phase, self.kernel, padding = half the kernel size)`')
    out = ['/-- the default kernel of `phase_gradient` (%s) -/\ndef phaseGradientKernelG : T2 α :=\n  %s' % (F_WAVE, rows),
           '/-- `phase_gradient.functional_conv2d` at ONE position: the correlation of the kernel with the window `win` around it -/\n'
           'def phaseGradientWindowG (win : T2 α) : α :=\n  Tn.sum2 (Tn.zip2 (fun a b => a * b) phaseGradientKernelG win)']
    fwd = find_function(tree(F_WAVE), 'forward', 'phase_gradient')
    it = Interp({'phase': Ten(2, 'phase')}, registry, attrs={'self.loss': LossObj(fn)},
                hooks={'functional_conv2d': lambda i, node: Ten(1, 'edge')})
    res = it.run(fwd.body)
    if not (isinstance(res, Ten) and res.rank == 0):
        raise TranslateError('phase_gradient.forward: the result is not a scalar')
    it.lets = [l for l in it.lets if not l.startswith('let phase')]
    out.append(emit('phaseGradientLossG', '(edge : T1 α)', 'α', it, res.term,
                    '`phase_gradient.forward` (%s): `edge` = the kernel response at every position, flattened; `self.loss` is `%s`' % (F_WAVE, fn)))
    return '\n\n'.join(out)


def histogram(registry):
    """`histogram_loss`: per channel `torch.histc` of the flattened channel, then the MSE of the two [channels, bins] tables"""
    fn = find_function(tree(F_TOOLS), 'histogram_loss')
    if [a.arg for a in fn.args.args] != ['frame', 'ground_truth', 'bins', 'limits']:
        raise TranslateError('histogram_loss: unexpected parameter list')
    loss_var = tables = None
    loop = None
    for st in fn.body:
        if isinstance(st, ast.Assign) and loss_ctor(st.value):
            loss_var = (st.targets[0].id, loss_ctor(st.value))
        if isinstance(st, ast.For):
            loop = st
    ret = fn.body[-1]
    if loss_var is None or loop is None or ast.unparse(loop.iter) != 'range(frame.shape[1])' or not isinstance(loop.target, ast.Name):
        raise TranslateError('histogram_loss: loss object / channel loop not found')
    iv = loop.target.id
    rows = {}
    for st in loop.body:
        ok = isinstance(st, ast.Assign) and isinstance(st.targets[0], ast.Subscript) and ast.unparse(st.targets[0].slice) == iv \
            and isinstance(st.value, ast.Call) and ast.unparse(st.value.func) == 'torch.histc'
        if not ok:
            raise TranslateError('histogram_loss: unsupported statement in the channel loop: ' + ast.unparse(st)[:60])
        c = st.value
        kws = {k.arg: ast.unparse(k.value) for k in c.keywords}
        if kws != {'bins': 'bins', 'min': 'limits[0]', 'max': 'limits[1]'} or len(c.args) != 1:
            raise TranslateError('histogram_loss: unexpected histc arguments ' + ast.unparse(c)[:80])
        a = ast.unparse(c.args[0])
        src = a[:-len('[:, %s].flatten()' % iv)]
        if a != '%s[:, %s].flatten()' % (src, iv) or src not in ('frame', 'ground_truth'):
            raise TranslateError('histogram_loss: histc of something that is not one flattened channel: ' + a)
        rows[ast.unparse(st.targets[0].value)] = src
    assign = [s for s in fn.body if isinstance(s, ast.Assign) and isinstance(s.value, ast.Call) and ast.unparse(s.value.func) == loss_var[0]]
    if len(assign) != 1 or not isinstance(ret, ast.Return) or ast.unparse(ret.value) != assign[0].targets[0].id:
        raise TranslateError('histogram_loss: the result is not the loss object applied once')
    args = [ast.unparse(a) for a in assign[0].value.args]
    if len(args) != 2 or any(a not in rows for a in args) or [rows[a] for a in args] != ['frame', 'ground_truth']:
        raise TranslateError('histogram_loss: the loss is not applied to (histogram of frame, histogram of ground_truth)')
    for nm in args:
        z = [s for s in fn.body if isinstance(s, ast.Assign) and ast.unparse(s.targets[0]) == nm]
        if len(z) != 1 or not ast.unparse(z[0].value).startswith('torch.zeros(%s.shape[1], bins)' % rows[nm]):
            raise TranslateError('histogram_loss: %s is not a [channels, bins] table of zeros' % nm)
    text = ['/-- `histogram_loss` (%s) of `[N, C, H, W]` tensors: per channel the `torch.histc` counts of the flattened channel, then `%s` of the two'
            ' flattened `[C, bins]` tables -/' % (F_TOOLS, loss_var[1]),
            'def histogramTableG (x : T4 α) (bins : Nat) (lo hi : α) : T2 α :=',
            '  (List.range (Tn.dim1 x)).map fun i => histc (Tn.flat3 (x.map fun n => n.getD i [])) bins lo hi',
            'def histogramLossG (frame ground_truth : T4 α) (bins : Nat) (lo hi : α) : α :=',
            '  %s (Tn.flat2 (histogramTableG frame bins lo hi)) (Tn.flat2 (histogramTableG ground_truth bins lo hi))' % loss_var[1]]
    return '\n'.join(text)


def generate():
    _trees.clear()
    out = ['/- GENERATED by harness/translate/losses.py from %s, %s and %s – do not edit. -/' % (F_TOOLS, F_WAVE, F_IQ),
           'import OdakModel.LossPrelude', 'namespace Odak.Gen', 'variable {α : Type} [Num α]', '']
    errors = []
    registry = {}
    T = lambda r: ('ten', r)
    jobs = [
        ('total_variation_loss/2', lambda: simple_job(F_TOOLS, 'total_variation_loss', 'totalVariationLossG', [('frame', T(2), 'frame')], 0, registry,
                                                      doc=' of a single `[m x n]` frame given as its list of rows')),
        ('total_variation_loss/4', lambda: simple_job(F_TOOLS, 'total_variation_loss', 'totalVariationLoss4G', [('frame', T(4), 'frame')], 0, registry,
                                                      doc=' of a `[N, C, H, W]` frame')),
        ('multi_scale_total_variation_loss', lambda: simple_job(F_TOOLS, 'multi_scale_total_variation_loss', 'multiScaleTotalVariationLossG',
                                                                [('frame', T(4), 'frame'), ('levels', 'nat', 'levels')], 0, registry,
                                                                doc=' of a `[N, C, H, W]` frame')),
        ('radial_basis_function', lambda: simple_job(F_TOOLS, 'radial_basis_function', 'radialBasisG', [('value', 's', 'value'), ('epsilon', 's', 'epsilon')],
                                                     0, registry, doc=', per element')),
        ('histogram_loss', lambda: histogram(registry)),
        ('weber_contrast', lambda: simple_job(F_TOOLS, 'weber_contrast', 'weberContrastG', [('image', T(2), 'image'), ('roi_high', ('nats', 4), 'h'),
                                                                                            ('roi_low', ('nats', 4), 'l')], 1, registry,
                                              doc=' of a single `[m x n]` image: one value (a list of length 1)')),
        ('michelson_contrast', lambda: simple_job(F_TOOLS, 'michelson_contrast', 'michelsonContrastG', [('image', T(2), 'image'), ('roi_high', ('nats', 4), 'h'),
                                                                                                    ('roi_low', ('nats', 4), 'l')], 1, registry,
                                                  doc=' of a single `[m x n]` image: one value (a list of length 1)')),
        ('wrapped_mean_squared_error/mean', lambda: simple_job(F_TOOLS, 'wrapped_mean_squared_error', 'wrappedMseMeanG',
                                                               [('image', T(1), 'image'), ('ground_truth', T(1), 'ground_truth'), ('reduction', ('const', 'mean'), '')],
                                                               0, registry, doc=" with reduction = 'mean', on flattened tensors")),
        ('wrapped_mean_squared_error/sum', lambda: simple_job(F_TOOLS, 'wrapped_mean_squared_error', 'wrappedMseSumG',
                                                              [('image', T(1), 'image'), ('ground_truth', T(1), 'ground_truth'), ('reduction', ('const', 'sum'), '')],
                                                              0, registry, doc=" with reduction = 'sum', on flattened tensors")),
        ('multiplane_loss.__call__', lambda: multiplane(registry)),
        ('phase_gradient', lambda: phase_gradient(registry)),
        ('speckle_contrast', lambda: speckle(registry)),
        ('PSNR.forward', lambda: simple_job(F_IQ, 'forward', 'psnrG', [('predictions', T(1), 'predictions'), ('targets', T(1), 'targets'),
                                                                      ('peak_value', 's', 'peak')], 0, registry, cls='PSNR', doc=', on flattened tensors')),
    ]
    for name, f in jobs:
        try:
            out += [f(), '']
            if name == 'total_variation_loss/2':
                registry[('total_variation_loss', 2)] = 'totalVariationLossG'
                registry[('total_variation_loss', None)] = True
            if name == 'total_variation_loss/4':
                registry[('total_variation_loss', 4)] = 'totalVariationLoss4G'
        except CATCH as e:
            errors.append('%s: %s' % (name, e))
    out += ['end Odak.Gen', '']
    return '\n'.join(out), errors


if __name__ == '__main__':
    t, e = generate()
    print(t)
    print(e)
