"""Regenerates Generated/RayCreateBatch.lean: `create_ray_from_angles` of odak/raytracing/ray.py for an `[m x 3]` array of start points,
with the batch axis explicit.  The translator is harness/translate/raycreate.py (see there); this module only gives the second
generated file its own entry in generate_all, so that each of the two files is written - or kept - as a whole."""
from . import raycreate

FILE = raycreate.FILE_BATCH


def generate():
    return raycreate.generate_file(FILE)
