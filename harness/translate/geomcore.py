"""Symbolic interpreter used by harness/translate/geometry.py.

Values (tagged tuples, immutable; a store creates a new value):
  ('s', term)            scalar Lean term of type α
  ('v', Vec)             3-vector
  ('ray', Vec, Vec)      [2 x 3] array: start point, direction (a surface normal has the same layout)
  ('tri', [Vec]*3)       [3 x 3] array: three corners
  ('list', [values])     Python list / tuple
  ('b', term)            Bool term
  ('o',)                 opaque: shapes, lengths, devices (only used for layout)
  ('none',)              None
  ('pybool', bool)       a test decided at translation time (`type(x) == type(None)`)
  ('fn', lean)           a function-valued parameter (surface function)
  ('surf',)              the packed surface parameters handed through to the surface function
Batch dimensions are broadcasting only: full slices and `None` in a subscript, `.T`, reshape/unsqueeze/... are layout."""
import ast
import copy
import re
from .pyexpr import TranslateError
from .constants import sci

LAYOUT_METHODS = ('reshape', 'view', 'unsqueeze', 'squeeze', 'to', 'double', 'float', 'clone', 'detach', 'contiguous', 'repeat',
                  'copy', 'expand')
FRESH_METHODS = ('clone', 'copy')
IDENT_FUNCS = ('np.asarray', 'np.copy', 'np.array', 'torch.as_tensor', 'torch.tensor', 'np.float64', 'torch.clone')
FRESH_FUNCS = ('np.copy', 'np.array', 'torch.tensor', 'torch.clone')
OPAQUE_FUNCS = ('len', 'int', 'np.int64', 'np.amax', 'torch.amax', 'max', 'np.array', 'torch.tensor', 'np.max', 'isinstance')
IGNORED_KW = ('device', 'dtype', 'requires_grad')
RESERVED = {'at', 'from', 'in', 'fun', 'end', 'do', 'then', 'else', 'if', 'let', 'have', 'show', 'open', 'by', 'with', 'match',
            'where', 'local', 'def', 'to', 'for', 'return', 'mut', 'type', 'Type', 'deriving', 'instance', 'class', 'import'}
ZERO = '(Num.ofNat 0)'
NAN = 'Num.nan'


MODULES = ('np', 'numpy', 'torch', 'math')


def is_module_func(func):
    """`np.linalg.norm`, `torch.zeros`: a dotted path rooted at a module name (as opposed to a method of a value)"""
    n = func
    while isinstance(n, ast.Attribute):
        n = n.value
    return isinstance(n, ast.Name) and n.id in MODULES


class UnknownName(TranslateError):
    pass


def safe(name):
    return name + '_' if name in RESERVED else name


def par(t):
    return t if re.fullmatch(r"[A-Za-z_][A-Za-z0-9_.']*", t) or (t.startswith('(') and t.endswith(')') and balanced(t[1:-1])) \
        else '(' + t + ')'


def balanced(t):
    d = 0
    for ch in t:
        if ch in '(⟨':
            d += 1
        elif ch in ')⟩':
            d -= 1
            if d < 0:
                return False
    return d == 0


class Vec:
    def __init__(self, term=None, comps=None, prod=None):
        self.term, self.comps, self.prod = term, comps, prod       # prod = (Vec, Vec): this is their elementwise product

    def c(self, k):
        return self.comps[k] if self.comps is not None else '%s.%s' % (par(self.term), 'xyz'[k])

    def t(self):
        if self.term is not None:
            return self.term
        if self.prod is not None:
            return '(Vec3.hmul %s %s)' % (par(self.prod[0].t()), par(self.prod[1].t()))
        return '(⟨%s, %s, %s⟩ : Vec3 α)' % tuple(self.comps)

    def atomic(self):
        return self.term is not None and re.fullmatch(r"[A-Za-z_][A-Za-z0-9_.']*", self.term) is not None


ZVEC = lambda: Vec(comps=[ZERO, ZERO, ZERO])


def ray_term(v):
    o, d = v[1], v[2]
    if o.term and d.term and o.term.endswith('.o') and d.term.endswith('.d') and o.term[:-2] == d.term[:-2]:
        return o.term[:-2]
    return '(⟨%s, %s⟩ : Ray α)' % (o.t(), d.t())


def show(v):
    """canonical text of a value (used to compare the two arms of a layout branch)"""
    k = v[0]
    if k in ('s', 'b', 'fn'):
        return k + ':' + v[1]
    if k == 'v':
        return 'v:' + v[1].t()
    if k == 'ray':
        return 'ray:' + v[1].t() + '|' + v[2].t()
    if k == 'tri':
        return 'tri:' + '|'.join(x.t() for x in v[1])
    if k == 'list':
        return 'list:[' + ','.join(show(x) for x in v[1]) + ']'
    if k == 'pybool':
        return 'pybool:%s' % v[1]
    return k


class Returned(Exception):
    def __init__(self, value):
        self.value = value


class Interp:
    """`registry`: python function name -> (lean name, [param kinds], result kind) of already generated definitions"""

    def __init__(self, env, registry=None, frozen=()):
        self.env = dict(env)
        self.registry = registry or {}
        self.frozen = set(frozen)
        self.lets = []                # (lean name, lean type, lean expr)
        self.counter = 0
        self.alias = {}               # name -> alias group id (shared storage)
        self.nalias = 0
        self.notes = []

    def fork(self):
        f = copy.copy(self)
        f.env = dict(self.env)
        f.lets = list(self.lets)
        f.alias = dict(self.alias)
        f.notes = list(self.notes)
        return f

    def adopt(self, f):
        self.env, self.lets, self.counter, self.alias, self.nalias, self.notes = f.env, f.lets, f.counter, f.alias, f.nalias, f.notes

    # ------------------------------------------------------------------ naming
    def fresh(self, base):
        self.counter += 1
        return '%s_%d' % (base, self.counter)

    def let(self, base, typ, expr):
        n = self.fresh(base)
        self.lets.append((n, typ, expr))
        return n

    def bind(self, base, val):
        k = val[0]
        if k == 's':
            return ('s', self.let(base, 'α', val[1]))
        if k == 'b':
            return ('b', self.let(base, 'Bool', val[1]))
        if k == 'v':
            if val[1].atomic():
                return val
            return ('v', Vec(term=self.let(base, 'Vec3 α', val[1].t())))
        if k == 'ray':
            if val[1].atomic() and val[2].atomic():
                return val
            n = self.let(base, 'Ray α', ray_term(val))
            return ('ray', Vec(term=n + '.o'), Vec(term=n + '.d'))
        if k == 'tri':
            return ('tri', [self.bind('%s%d' % (base, i), ('v', x))[1] for i, x in enumerate(val[1])])
        if k == 'list':
            return ('list', [self.bind('%s%d' % (base, i), x) for i, x in enumerate(val[1])])
        return val

    # ------------------------------------------------------------------ arithmetic
    def scalar(self, v, what):
        if v[0] != 's':
            raise TranslateError('expected a scalar in ' + what + ', got ' + v[0])
        return v[1]

    def arith(self, op, a, b, src):
        ka, kb = a[0], b[0]
        if ka == 'o' or kb == 'o':
            return ('o',)
        if ka == 's' and kb == 's':
            return ('s', '(%s %s %s)' % (a[1], op, b[1]))
        if ka == 'v' and kb == 'v':
            if op in '+-':
                return ('v', Vec(term='(%s %s %s)' % (a[1].t(), op, b[1].t())))
            if op == '*':
                return ('v', Vec(comps=['(%s * %s)' % (a[1].c(i), b[1].c(i)) for i in range(3)], prod=(a[1], b[1])))
            return ('v', Vec(comps=['(%s / %s)' % (a[1].c(i), b[1].c(i)) for i in range(3)]))
        if ka == 's' and kb == 'v':
            if op == '*':
                return ('v', Vec(term='(Vec3.smul %s %s)' % (par(a[1]), par(b[1].t()))))
            return ('v', Vec(comps=['(%s %s %s)' % (a[1], op, b[1].c(i)) for i in range(3)]))
        if ka == 'v' and kb == 's':
            if op == '*':       # IEEE multiplication is commutative: v * s is s * v component by component
                return ('v', Vec(term='(Vec3.smul %s %s)' % (par(b[1]), par(a[1].t()))))
            if op == '/':
                return ('v', Vec(term='(Vec3.sdiv %s %s)' % (par(a[1].t()), par(b[1]))))
            return ('v', Vec(comps=['(%s %s %s)' % (a[1].c(i), op, b[1]) for i in range(3)]))
        raise TranslateError('unsupported operands (%s %s %s) in %s' % (ka, op, kb, src))

    def power(self, a, node):
        if isinstance(node, ast.Constant) and isinstance(node.value, int) and not isinstance(node.value, bool) and 1 <= node.value <= 4:
            n = node.value
            if a[0] == 's':
                return ('s', '(' + ' * '.join([a[1]] * n) + ')')
            if a[0] == 'v':
                return ('v', Vec(comps=['(' + ' * '.join([a[1].c(i)] * n) + ')' for i in range(3)], prod=(a[1], a[1]) if n == 2 else None))
        if isinstance(node, ast.Constant) and node.value == 0.5:
            if a[0] == 's':
                return ('s', '(Num.sqrt %s)' % par(a[1]))
            if a[0] == 'v':
                return ('v', Vec(comps=['(Num.sqrt %s)' % par(a[1].c(i)) for i in range(3)]))
        raise TranslateError('unsupported power ' + ast.unparse(node))

    def compare(self, node):
        if len(node.ops) != 1:
            raise TranslateError('chained comparison ' + ast.unparse(node))
        # type(x) == type(None)
        src = ast.unparse(node)
        m = re.fullmatch(r'type\((\w+)\) == type\(None\)', src)
        if m:
            return ('pybool', self.name(m.group(1))[0] == 'none')
        if isinstance(node.ops[0], (ast.Is, ast.IsNot)) and ast.unparse(node.comparators[0]) == 'None':
            isnone = self.ev(node.left)[0] == 'none'
            return ('pybool', isnone if isinstance(node.ops[0], ast.Is) else not isnone)
        l, r = self.ev(node.left), self.ev(node.comparators[0])
        op = node.ops[0]
        if l[0] == 'o' or r[0] == 'o':
            return ('o',)
        if l[0] == 'b' and isinstance(r, tuple) and r[0] == 'pybool' and isinstance(op, ast.Eq):
            return l if r[1] else ('b', '(!%s)' % l[1])
        if l[0] == 's' and r[0] == 's':
            x, y = l[1], r[1]
            if isinstance(op, ast.Gt):
                return ('b', '(decide (%s < %s))' % (y, x))
            if isinstance(op, ast.Lt):
                return ('b', '(decide (%s < %s))' % (x, y))
            if isinstance(op, ast.GtE):
                return ('b', '(decide (%s ≤ %s))' % (y, x))
            if isinstance(op, ast.LtE):
                return ('b', '(decide (%s ≤ %s))' % (x, y))
            if isinstance(op, ast.Eq):
                return ('b', '(decide (%s ≤ %s ∧ %s ≤ %s))' % (x, y, y, x), ('eq', x, y))
        raise TranslateError('unsupported comparison ' + src)

    # ------------------------------------------------------------------ expressions
    def name(self, n):
        if n in self.env:
            v = self.env[n]
            if v[0] == 'poison':
                raise UnknownName('%s is not available here (%s)' % (n, v[1]))
            return v
        raise UnknownName('unknown name ' + n)

    def ev(self, node):
        if isinstance(node, ast.Constant):
            if node.value is None:
                return ('none',)
            if isinstance(node.value, bool):
                return ('pybool', node.value)
            if isinstance(node.value, (int, float)):
                return ('s', sci(node.value))
            raise TranslateError('unsupported constant ' + ast.unparse(node))
        if isinstance(node, ast.Name):
            return self.name(node.id)
        if isinstance(node, ast.Attribute):
            src = ast.unparse(node)
            if src in ('np.nan', 'math.nan', 'torch.nan', 'numpy.nan'):
                return ('s', NAN)
            if src in ('math.pi', 'torch.pi', 'np.pi'):
                return ('s', 'Num.pi')
            if node.attr in ('shape', 'device', 'dtype', 'ndim'):
                return ('o',)
            if node.attr == 'T':
                return self.ev(node.value)
            raise TranslateError('unsupported attribute ' + src)
        if isinstance(node, ast.UnaryOp):
            a = self.ev(node.operand)
            if isinstance(node.op, ast.USub):
                if a[0] == 's':
                    return ('s', '(-%s)' % a[1])
                if a[0] == 'v':
                    return ('v', Vec(term='(-%s)' % a[1].t()))
            if isinstance(node.op, ast.Not):
                if a[0] == 'o':
                    return a
                if a[0] == 'b':
                    return ('b', '(!%s)' % a[1])
                if a[0] == 'pybool':
                    return ('pybool', not a[1])
            raise TranslateError('unsupported unary ' + ast.unparse(node))
        if isinstance(node, ast.BinOp):
            if isinstance(node.op, ast.Pow):
                return self.power(self.ev(node.left), node.right)
            a, b = self.ev(node.left), self.ev(node.right)
            if isinstance(node.op, ast.BitAnd) and a[0] == 'b' and b[0] == 'b':
                return ('b', '(%s && %s)' % (a[1], b[1]))
            for t, o in ((ast.Add, '+'), (ast.Sub, '-'), (ast.Mult, '*'), (ast.Div, '/')):
                if isinstance(node.op, t):
                    return self.arith(o, a, b, ast.unparse(node))
            raise TranslateError('unsupported operator in ' + ast.unparse(node))
        if isinstance(node, ast.BoolOp):
            vals = [self.ev(x) for x in node.values]
            if any(v[0] == 'o' for v in vals):
                return ('o',)
            if all(v[0] == 'b' for v in vals):
                j = ' && ' if isinstance(node.op, ast.And) else ' || '
                return ('b', '(' + j.join(v[1] for v in vals) + ')')
            raise TranslateError('unsupported boolean expression ' + ast.unparse(node))
        if isinstance(node, ast.Compare):
            return self.compare(node)
        if isinstance(node, ast.IfExp):
            t = self.ev(node.test)
            if t[0] == 'pybool':
                return self.ev(node.body if t[1] else node.orelse)
            if t[0] == 'o':
                a, b = self.ev(node.body), self.ev(node.orelse)
                if show(a) != show(b):
                    raise TranslateError('the arms of a layout conditional differ: ' + ast.unparse(node))
                return a
            raise TranslateError('unsupported conditional expression ' + ast.unparse(node))
        if isinstance(node, (ast.List, ast.Tuple)):
            vals = [self.ev(e) for e in node.elts]
            if vals and all(v[0] == 'o' for v in vals):
                return ('o',)
            return ('list', vals)
        if isinstance(node, ast.Subscript):
            return self.subscript(self.ev(node.value), node.slice, ast.unparse(node))
        if isinstance(node, ast.Call):
            return self.call(node)
        raise TranslateError('unsupported expression ' + ast.unparse(node))

    @staticmethod
    def indices(sl, src):
        """integer indices of a subscript; full slices and None are layout"""
        out = []
        for e in (sl.elts if isinstance(sl, ast.Tuple) else [sl]):
            if isinstance(e, ast.Slice) and e.lower is None and e.upper is None and e.step is None:
                continue
            if isinstance(e, ast.Constant) and e.value is None:
                continue
            if isinstance(e, ast.Constant) and isinstance(e.value, int) and not isinstance(e.value, bool) and e.value >= 0:
                out.append(e.value)
                continue
            if isinstance(e, ast.Slice) and e.step is None and isinstance(e.lower, ast.Constant) and isinstance(e.upper, ast.Constant):
                out.append((e.lower.value, e.upper.value))
                continue
            raise TranslateError('unsupported index in ' + src)
        return out

    def index(self, v, idx, src):
        for i in idx:
            if v[0] == 'o':
                return v
            if isinstance(i, tuple):
                if v[0] == 'list' and all(x[0] == 's' for x in v[1][i[0]:i[1]]) and i[1] - i[0] == 3:
                    v = ('v', Vec(comps=[x[1] for x in v[1][i[0]:i[1]]]))
                    continue
                raise TranslateError('unsupported slice in ' + src)
            if v[0] == 'ray' and i < 2:
                v = ('v', v[1 + i])
            elif v[0] == 'tri' and i < 3:
                v = ('v', v[1][i])
            elif v[0] == 'v' and i < 3:
                v = ('s', v[1].c(i))
            elif v[0] == 'list' and i < len(v[1]):
                v = v[1][i]
            else:
                raise TranslateError('index %d of a %s in %s' % (i, v[0], src))
        return v

    def subscript(self, base, sl, src):
        if base[0] == 'o':
            return base
        return self.index(base, self.indices(sl, src), src)

    def vec_of(self, v, what):
        if v[0] != 'v':
            raise TranslateError('expected a 3-vector in ' + what + ', got ' + v[0])
        return v[1]

    def dotp(self, a, b, src):
        return ('s', '(Vec3.dot %s %s)' % (par(self.vec_of(a, src).t()), par(self.vec_of(b, src).t())))

    def total(self, a, src):
        """sum of all elements of a 3-vector"""
        v = self.vec_of(a, src)
        if v.prod is not None:
            return ('s', '(Vec3.dot %s %s)' % (par(v.prod[0].t()), par(v.prod[1].t())))
        return ('s', '(Vec3.compSum %s)' % par(v.t()))

    def zeros(self, node):
        dims = []
        args = node.args[0].elts if node.args and isinstance(node.args[0], ast.Tuple) else node.args
        for a in args:
            dims.append(a.value if isinstance(a, ast.Constant) and isinstance(a.value, int) else None)
        if dims[-2:] == [2, 3]:
            return ('ray', ZVEC(), ZVEC())
        if dims[-1:] == [3]:
            return ('v', ZVEC())
        raise TranslateError('zeros of an unknown layout: ' + ast.unparse(node))

    def like(self, v, term, src):
        if v[0] == 's':
            return ('s', term)
        if v[0] == 'v':
            return ('v', Vec(comps=[term] * 3))
        if v[0] == 'ray':
            return ('ray', Vec(comps=[term] * 3), Vec(comps=[term] * 3))
        raise TranslateError('unsupported *_like of a %s in %s' % (v[0], src))

    def call(self, node):
        src = ast.unparse(node)
        f = ast.unparse(node.func)
        kws = {k.arg: k.value for k in node.keywords if k.arg not in IGNORED_KW}
        if f == 'float' and len(node.args) == 1 and isinstance(node.args[0], ast.Constant) and node.args[0].value == 'nan':
            return ('s', NAN)
        # ---- methods
        if isinstance(node.func, ast.Attribute) and not is_module_func(node.func):
            recv = node.func.value
            m = node.func.attr
            if m in ('size', 'dim', 'numel'):
                return ('o',)
            if m in LAYOUT_METHODS:
                return self.ev(recv)
            if m in ('abs',):
                return self.apply1('Num.abs', self.ev(recv), src)
            raise TranslateError('unsupported method ' + src)
        # ---- generated definitions and function-valued parameters
        if isinstance(node.func, ast.Name) and node.func.id in self.env and self.env[node.func.id][0] == 'fn':
            args = [self.ev(a) for a in node.args]
            if len(args) == 2 and args[0][0] == 'v' and args[1][0] == 'surf':
                return ('s', '(%s %s)' % (self.env[node.func.id][1], par(args[0][1].t())))
            raise TranslateError('unsupported call of a function parameter ' + src)
        if isinstance(node.func, ast.Name) and node.func.id in self.registry:
            return self.call_generated(node, src)
        if f == 'isinstance':
            return ('o',)
        args = [self.ev(a) for a in node.args]
        if f in OPAQUE_FUNCS and (f in ('len', 'isinstance') or any(a[0] == 'o' for a in args)):
            return ('o',)
        if f in IDENT_FUNCS and len(args) == 1:
            return args[0]
        if f in ('np.reshape', 'torch.reshape', 'np.squeeze', 'torch.squeeze', 'torch.unsqueeze', 'np.expand_dims'):
            return args[0]
        if f in ('np.subtract', 'torch.subtract', 'torch.sub') and len(args) == 2:
            return self.arith('-', args[0], args[1], src)
        if f in ('np.add', 'torch.add') and len(args) == 2:
            return self.arith('+', args[0], args[1], src)
        if f in ('np.multiply', 'torch.mul', 'torch.multiply') and len(args) == 2:
            return self.arith('*', args[0], args[1], src)
        if f in ('np.cross', 'torch.cross', 'torch.linalg.cross') and len(args) == 2:
            return ('v', Vec(term='(Vec3.cross %s %s)' % (par(self.vec_of(args[0], src).t()), par(self.vec_of(args[1], src).t()))))
        if f in ('np.dot', 'torch.dot', 'torch.mm', 'torch.matmul', 'np.matmul', 'np.inner', 'torch.inner') and len(args) == 2:
            return self.dotp(args[0], args[1], src)
        if f in ('np.linalg.norm', 'torch.linalg.norm', 'torch.norm'):
            extra = {k: ast.unparse(v) for k, v in kws.items() if k not in ('axis', 'dim', 'keepdims', 'keepdim')}
            if extra and extra != {'p': '2'}:
                raise TranslateError('unsupported norm ' + src)
            return ('s', '(Vec3.norm %s)' % par(self.vec_of(args[0], src).t()))
        if f in ('np.sum', 'torch.sum'):
            return self.total(args[0], src)
        if f in ('np.mean', 'torch.mean'):
            ax = kws.get('axis', kws.get('dim'))
            if args[0][0] == 'tri' and ax is not None and ast.unparse(ax) in ('1', '-2'):
                p = args[0][1]
                return ('v', Vec(term='(Vec3.sdiv ((%s + %s) + %s) (Num.ofNat 3))' % (p[0].t(), p[1].t(), p[2].t())))
            raise TranslateError('unsupported mean ' + src)
        if f in ('np.sqrt', 'torch.sqrt', 'math.sqrt'):
            return self.apply1('Num.sqrt', args[0], src)
        if f in ('np.abs', 'torch.abs', 'abs', 'np.absolute', 'math.fabs'):
            return self.apply1('Num.abs', args[0], src)
        if f in ('np.isnan', 'torch.isnan', 'math.isnan'):
            return ('b', '(Num.isNaN %s)' % par(self.scalar(args[0], src)))
        if f in ('np.max', 'np.amax', 'torch.max', 'torch.amax', 'np.min') and len(args) == 1 and args[0][0] == 's':
            return args[0]          # the extremum over the batch axis of one ray's value
        if f in ('np.zeros', 'torch.zeros'):
            return self.zeros(node)
        if f in ('np.zeros_like', 'torch.zeros_like'):
            return self.like(args[0], ZERO, src)
        if f in ('np.ones_like', 'torch.ones_like'):
            return self.like(args[0], '(Num.ofNat 1)', src)
        if f in ('np.ones', 'torch.ones') and all(a[0] == 'o' for a in args):
            return ('s', '(Num.ofNat 1)')        # one entry per ray
        if f in ('torch.full_like', 'np.full_like') and len(args) == 2 and args[1][0] == 's':
            return self.like(args[0], args[1][1], src)
        if f in ('torch.where', 'np.where') and len(args) == 3:
            c, a, b = args
            if c[0] == 'b' and a[0] == 's' and b[0] == 's':
                return ('s', '(Num.select %s %s %s)' % (c[1], par(a[1]), par(b[1])))
            raise TranslateError('unsupported where ' + src)
        if f in ('torch.nan_to_num', 'np.nan_to_num'):
            targets = {k: ast.unparse(v) for k, v in kws.items()}
            if set(targets) == {'nan', 'posinf', 'neginf'} and all(t in ("float('nan')", 'np.nan', 'torch.nan') for t in targets.values()):
                self.notes.append('nan_to_num(nan, +inf, -inf -> nan) is the identity up to the kind of non-finite value')
                return args[0]
            raise TranslateError('nan_to_num with finite replacement values: ' + src)
        raise TranslateError('unsupported call ' + src)

    def apply1(self, fn, a, src):
        if a[0] == 's':
            return ('s', '(%s %s)' % (fn, par(a[1])))
        if a[0] == 'v':
            return ('v', Vec(comps=['(%s %s)' % (fn, par(a[1].c(i))) for i in range(3)]))
        raise TranslateError('unsupported argument of %s in %s' % (fn, src))

    def call_generated(self, node, src):
        lean, kinds, res = self.registry[node.func.id]
        args = [self.ev(a) for a in node.args]
        if node.keywords:
            raise TranslateError('keyword arguments in ' + src)
        if len(args) > len(kinds):
            raise TranslateError('too many arguments in ' + src)
        terms = []
        for k, a in zip(kinds, args):
            if k == 'fn' and a[0] == 'fn':
                terms.append(a[1])
            elif k == 'surf' and a[0] == 'surf':
                continue
            elif k == 's' and a[0] == 's':
                terms.append(par(a[1]))
            elif k == 'v' and a[0] == 'v':
                terms.append(par(a[1].t()))
            elif k == 'ray' and a[0] == 'ray':
                terms.append(par(ray_term(a)))
            elif k == 'tri' and a[0] == 'tri':
                terms += [par(x.t()) for x in a[1]]
            else:
                raise TranslateError('argument kind %s where %s is expected in %s' % (a[0], k, src))
        # parameters left to their default (only None defaults are accepted by the callee's translation)
        term = '%s %s' % (lean, ' '.join(terms))
        if res == 's':
            return ('s', '(' + term + ')')
        if res == 'b':
            return ('b', '(' + term + ')')
        if res == 'v':
            return ('v', Vec(term='(' + term + ')'))
        if res == 'ray':
            n = self.let(node.func.id, 'Ray α', term)
            return ('ray', Vec(term=n + '.o'), Vec(term=n + '.d'))
        if res == 'hit':
            n = self.let(node.func.id, 'Hit α', term)
            return ('list', [('ray', Vec(term=n + '.point'), Vec(term=n + '.normal')), ('s', n + '.distance')])
        raise TranslateError('unsupported result kind ' + res)

    # ------------------------------------------------------------------ statements
    def touch(self, name, fresh):
        if fresh or name not in self.alias:
            self.nalias += 1
            self.alias[name] = self.nalias

    def assign_name(self, name, node):
        if name in self.frozen:
            return
        try:
            val = self.ev(node)
        except UnknownName as e:
            self.env[name] = ('poison', str(e))
            return
        # storage sharing: a plain name or a view shares storage with its source
        srcname = None
        n = node
        fresh = False
        while True:
            if isinstance(n, ast.Name):
                srcname = n.id
                break
            if isinstance(n, ast.Call) and isinstance(n.func, ast.Attribute) and n.func.attr in LAYOUT_METHODS \
                    and not is_module_func(n.func):
                fresh = fresh or n.func.attr in FRESH_METHODS
                n = n.func.value
                continue
            if isinstance(n, ast.Call) and ast.unparse(n.func) in IDENT_FUNCS and len(n.args) == 1:
                fresh = fresh or ast.unparse(n.func) in FRESH_FUNCS
                n = n.args[0]
                continue
            break
        if srcname is not None and not fresh and srcname in self.alias and val[0] in ('v', 'ray', 'tri', 'list'):
            self.alias[name] = self.alias[srcname]
        else:
            self.touch(name, True)
        self.env[name] = self.bind(name, val)

    def store(self, target, valnode):
        """`name[...] = value`"""
        if not isinstance(target.value, ast.Name):
            raise TranslateError('unsupported store ' + ast.unparse(target))
        name = target.value.id
        src = ast.unparse(target)
        try:
            base = self.name(name)
            val = self.ev(valnode)
            mask = None
            if isinstance(target.slice, (ast.Compare, ast.Name)):
                mask = self.ev(target.slice)
        except UnknownName as e:
            self.env[name] = ('poison', str(e))
            return
        # every other name that shares the storage can no longer be read
        g = self.alias.get(name)
        for other, og in list(self.alias.items()):
            if other != name and g is not None and og == g and other in self.env:
                self.env[other] = ('poison', 'modified in place through ' + name)
        if mask is not None:
            if mask[0] != 'b' or base[0] != 's' or val[0] != 's':
                raise TranslateError('unsupported masked store ' + src)
            # x[x == c] = v  is kept as a masked store of one element
            if len(mask) > 2 and mask[2][0] == 'eq' and mask[2][1] == base[1]:
                new = ('s', '(Num.maskEq %s %s %s)' % (par(base[1]), par(mask[2][2]), par(val[1])))
            else:
                new = ('s', '(if %s = true then %s else %s)' % (mask[1], val[1], base[1]))
            self.env[name] = self.bind(name, new)
            return
        idx = self.indices(target.slice, src)
        if any(isinstance(i, tuple) for i in idx):
            raise TranslateError('unsupported slice store ' + src)
        self.env[name] = self.put(name, base, idx, val, src)

    def put(self, name, base, idx, val, src):
        if not idx:
            if base[0] != val[0] and not (base[0] in ('v', 'ray') and val[0] == base[0]):
                raise TranslateError('store of a %s over a %s in %s' % (val[0], base[0], src))
            return self.bind(name, val)
        i, rest = idx[0], idx[1:]
        if base[0] == 'ray' and i < 2:
            parts = [('v', base[1]), ('v', base[2])]
            parts[i] = self.put('%s%d' % (name, i), parts[i], rest, val, src)
            if parts[i][0] != 'v':
                raise TranslateError('store of a %s into a row of a ray in %s' % (parts[i][0], src))
            return ('ray', parts[0][1], parts[1][1])
        if base[0] == 'v' and i < 3 and not rest:
            if val[0] != 's':
                raise TranslateError('store of a %s into a vector component in %s' % (val[0], src))
            comps = [base[1].c(k) for k in range(3)]
            comps[i] = self.bind('%s%d' % (name, i), val)[1]
            return ('v', Vec(comps=comps))
        if base[0] == 'list' and i < len(base[1]):
            items = list(base[1])
            items[i] = self.put('%s%d' % (name, i), items[i], rest, val, src) if rest else self.bind('%s%d' % (name, i), val)
            return ('list', items)
        raise TranslateError('unsupported store ' + src)

    def is_layout_stmt(self, st):
        """`x = x.reshape(...)` and friends: a rebinding of an existing name to a view of itself"""
        if isinstance(st, ast.Assign) and len(st.targets) == 1 and isinstance(st.targets[0], ast.Name):
            n = st.value
            while isinstance(n, ast.Call):
                if isinstance(n.func, ast.Attribute) and n.func.attr in LAYOUT_METHODS and not is_module_func(n.func):
                    n = n.func.value
                elif ast.unparse(n.func) in ('np.reshape', 'torch.reshape') and n.args:
                    n = n.args[0]
                else:
                    return False
            return isinstance(n, ast.Name) and n.id == st.targets[0].id
        return False

    def exec_block(self, stmts):
        """runs the statements; raises Returned(value) at a return"""
        for k, st in enumerate(stmts):
            if isinstance(st, ast.Expr):
                if isinstance(st.value, ast.Constant):
                    continue
                raise TranslateError('unsupported expression statement ' + ast.unparse(st)[:60])
            if isinstance(st, ast.Return):
                raise Returned(self.ev(st.value) if st.value is not None else ('none',))
            if isinstance(st, ast.Assign) and len(st.targets) == 1:
                t = st.targets[0]
                if isinstance(t, ast.Name):
                    self.assign_name(t.id, st.value)
                    continue
                if isinstance(t, ast.Subscript):
                    self.store(t, st.value)
                    continue
                if isinstance(t, ast.Tuple) and all(isinstance(e, ast.Name) for e in t.elts):
                    try:
                        v = self.ev(st.value)
                    except UnknownName as e:
                        for e2 in t.elts:
                            self.env[e2.id] = ('poison', str(e))
                        continue
                    if v[0] != 'list' or len(v[1]) != len(t.elts):
                        raise TranslateError('unsupported unpacking ' + ast.unparse(st)[:80])
                    for e2, x in zip(t.elts, v[1]):
                        if e2.id not in self.frozen:
                            self.touch(e2.id, True)
                            self.env[e2.id] = self.bind(e2.id, x)
                    continue
            if isinstance(st, ast.AugAssign) and isinstance(st.target, ast.Name):
                self.assign_name(st.target.id, ast.BinOp(left=ast.Name(id=st.target.id, ctx=ast.Load()), op=st.op, right=st.value))
                continue
            if isinstance(st, ast.If):
                self.exec_if(st, stmts[k + 1:])
                return
            raise TranslateError('unsupported statement ' + ast.unparse(st)[:80])

    def exec_if(self, st, rest):
        try:
            t = self.ev(st.test)
        except UnknownName as e:
            # a test on something this slice does not know: only acceptable when both arms are layout
            if all(self.is_layout_stmt(s) for s in st.body + st.orelse):
                return self.exec_block(rest)
            raise
        if t[0] == 'pybool':
            return self.exec_block((st.body if t[1] else st.orelse) + rest)
        if t[0] == 'o':
            if all(self.is_layout_stmt(s) for s in st.body + st.orelse):
                return self.exec_block(rest)
            # both arms, each followed by the rest of the function, must compute the same thing
            outcomes = []
            for arm in (st.body, st.orelse):
                f = self.fork()
                try:
                    f.exec_block(arm + rest)
                    outcomes.append((f, None, None))
                except Returned as r:
                    outcomes.append((f, r.value, None))
                except UnknownName as e:
                    outcomes.append((f, None, e))
            ok = [o for o in outcomes if o[2] is None]
            if not ok:
                raise outcomes[0][2]
            if len(ok) == 2:
                a, b = ok
                if (a[1] is None) != (b[1] is None) or (a[1] is not None and show(a[1]) != show(b[1])):
                    raise TranslateError('the arms of the layout test `%s` compute different things' % ast.unparse(st.test))
                if a[1] is None and {k: show(v) for k, v in a[0].env.items() if v[0] != 'poison'} != \
                        {k: show(v) for k, v in b[0].env.items() if v[0] != 'poison'}:
                    raise TranslateError('the arms of the layout test `%s` leave different values' % ast.unparse(st.test))
            f, rv, _ = ok[0]
            self.adopt(f)
            if rv is not None:
                raise Returned(rv)
            return
        if t[0] == 'b':
            res = []
            for arm in (st.body, st.orelse):
                f = self.fork()
                f.counter = self.counter
                try:
                    f.exec_block(arm + rest)
                    raise TranslateError('data-dependent branch `%s` without a return on every path' % ast.unparse(st.test))
                except Returned as r:
                    res.append((f, r.value))
            (fa, a), (fb, b) = res
            if fa.lets[len(self.lets):] or fb.lets[len(self.lets):]:
                raise TranslateError('computation inside the data-dependent branch `%s`' % ast.unparse(st.test))
            if a == ('pybool', True) and b == ('pybool', False):
                raise Returned(t)
            if a == ('pybool', False) and b == ('pybool', True):
                raise Returned(('b', '(!%s)' % t[1]))
            if a[0] == 's' and b[0] == 's':
                raise Returned(('s', '(if %s = true then %s else %s)' % (t[1], a[1], b[1])))
            raise TranslateError('unsupported results of the data-dependent branch `%s`' % ast.unparse(st.test))
        raise TranslateError('unsupported test ' + ast.unparse(st.test))


def prune(lets, roots):
    """keep the lets the result terms depend on (in order)"""
    names = [n for n, _, _ in lets]
    tok = re.compile(r"[A-Za-z_][A-Za-z0-9_']*")
    need = set()
    for r in roots:
        need |= set(tok.findall(r))
    keep = []
    for n, t, e in reversed(lets):
        if n in need:
            keep.append((n, t, e))
            need |= set(tok.findall(e))
    return list(reversed(keep))
