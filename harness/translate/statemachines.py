"""Regenerates Generated/StateMachines.lean: the STATE MACHINES of the gaze-contingent losses as executable step functions, from

    odak/learn/perception/radially_varying_blur.py     RadiallyVaryingBlur.blur (the level-of-detail cache; the mip chain is one opaque call)
    odak/learn/perception/blur_loss.py                 BlurLoss.blur_image, BlurLoss.__call__
    odak/learn/perception/metameric_loss.py            MetamericLoss.__call__, metameric_loss_stats; calc_statsmaps and visualise_loss_map as
                                                       effect summaries; the per-pixel fovea / periphery mask formula of calc_statsmaps
    odak/learn/perception/metameric_loss_uniform.py    MetamericLossUniform.__call__, metameric_loss_stats; calc_statsmaps as an effect summary
    odak/learn/perception/metamer_mse_loss.py          MetamerMSELoss.__call__, gen_metamer (the pyramid synthesis is one opaque call)

by symbolic interpretation of the Python `ast` (odak is never executed).

A method becomes a Lean `do` block in the `Option` monad, statement by statement (`none` = the source raises):

    self.x = e                 self_ := { self_ with x := some e };  log_ := log_ ++ ["x"]
    self.x (read)              let v ← self_.x          (an attribute that is unset / None raises when it is used as a value)
    self.x is None             self_.x.isNone
    self.x != e                nullable attribute (assigned None somewhere): `self_.x ≠ some e`;  otherwise the read binds first
    a or b or c                short-circuit chain: the reads of `b` happen only when `a` is false
    if / else, for a, b in zip(..), return, raise, +=, /=         the same constructs of the `do` notation
    self.m(..)                 the regenerated step function of `m`;   self.obj.m(..)  the step function of the sub-object's class, on the
                               sub-object's state, which is stored back (log entries prefixed with `obj.`)

State = the attributes the modelled methods store (every field an `Option`; `none` = unset or None), configuration = attributes assigned in
`__init__` from constructor arguments.  The heavy numerics are fields of `GazeOps` (uninterpreted): WHICH of them is called under WHICH
condition, with WHICH arguments (current call or stored attribute), what is stored and in which order is read from the source.  A method
that is not interpreted statement by statement is SUMMARISED from its effect signature (attributes read / written, parameters used - all
recomputed from the source and checked against the signature of the uninterpreted function that stands for it); a contiguous block of pure
numerics inside an interpreted method is an OPAQUE REGION, replaced by one uninterpreted call whose arguments are checked to be exactly
the names the block reads.  Anything outside this grammar is a TranslateError: the error is returned and `generate_all` keeps the
accepted file."""
import ast
import os
from .pyexpr import TranslateError, find_function
from .constants import sci

REPO = os.environ.get('ODAK_REPO', '/repo')
FILE = 'StateMachines.lean'
P = 'odak/learn/perception/'
CATCH = (TranslateError, OSError, SyntaxError, KeyError, IndexError, AttributeError, TypeError, ValueError)
TP = 'T G R Shape Sub'
_trees = {}


def tree(rel):
    if rel not in _trees:
        with open(os.path.join(REPO, rel)) as f:
            _trees[rel] = ast.parse(f.read())
    return _trees[rel]


# ------------------------------------------------------------------------------------------------------------------ kinds
# 'T' tensor · 'G' gaze (list of floats) · 'R' Python float · 'Nat' · 'Str' · 'Bool' · 'Shape' (torch.Size) · 'Unit'
# ('pair', a, b) · ('list', a) · ('obj', Class) state of a sub-object · ('opt', a) a local that may be unbound

def lty(k):
    if isinstance(k, tuple):
        if k[0] == 'pair':
            return '(%s × %s)' % (lty(k[1]), lty(k[2]))
        if k[0] == 'list':
            return '(List %s)' % lty(k[1])
        if k[0] == 'obj':
            return '(%sSelf %s)' % (k[1], TP)
        if k[0] == 'opt':
            return 'Option %s' % lty(k[1])
    return {'T': 'T', 'G': 'G', 'R': 'R', 'Nat': 'Nat', 'Str': 'String', 'Bool': 'Bool', 'Shape': 'Shape', 'Unit': 'Unit'}[k]


# parameters and attributes are typed by name; an attribute that is not listed gets the kind of the first value stored into it
NAME_KINDS = {'image': 'T', 'target': 'T', 'gaze': 'G', 'centre': 'G', 'alpha': 'R', 'real_image_width': 'R', 'real_viewing_distance': 'R',
              'mode': 'Str', 'equi': 'Bool', 'image_colorspace': 'Str', 'visualise_loss': 'Bool', 'statsmap_a': ('list', 'T'),
              'statsmap_b': ('list', 'T'), 'image_stats': ('list', 'T'), 'pooling_size': 'Nat'}
ATTR_KINDS = {'target': 'T', 'target_gaze': 'G', 'target_stats': ('list', 'T'), 'target_metamer': 'T', 'fovea_mask': 'T', 'lod_map': 'T',
              'lod_fraction': 'T', 'noise': 'T', 'size': ('pair', 'Nat', 'Nat'), 'n_channels': 'Nat', 'loss_map': 'T'}

# the uninterpreted numerics: field of `GazeOps` -> (Lean type, what it stands for)
OPS = [
    ('height', 'T → Nat', '`x.size(-2)`'), ('width', 'T → Nat', '`x.size(-1)`'), ('channels', 'T → Nat', '`x.size(1)`'),
    ('shape', 'T → Shape', '`x.shape` / `x.size()`'),
    ('allEq', 'T → T → Bool', '`torch.all(torch.eq(a, b))`'), ('same', 'T → T → Bool', '`a is b` (object identity)'),
    ('inputsOk', 'T → T → Bool', '`check_loss_inputs(name, image, target)` does not raise'),
    ('pad', 'T → Nat → T', '`pad_image_for_pyramid(x, n_pyramid_levels)`'),
    ('ycrcb', 'T → T', '`rgb_2_ycrcb`'), ('rgb', 'T → T', '`ycrcb_2_rgb`'),
    ('zeros', 'Shape → T', '`torch.zeros(shape)`'), ('randLike', 'T → T', '`torch.manual_seed(0); torch.rand_like(x)`'),
    ('lit', 'String → R', 'a float literal of the source, by its text'),
    ('scalar', 'R → T', 'a Python float used as a tensor operand'), ('nat', 'Nat → T', 'a Python int used as a tensor operand'),
    ('add', 'T → T → T', '`a + b`'), ('sub', 'T → T → T', '`a - b`'), ('mul', 'T → T → T', '`a * b`'), ('div', 'T → T → T', '`a / b`'),
    ('mse', 'T → T → T', '`torch.nn.MSELoss()(a, b)`'), ('fmod', 'T → R → T', '`torch.fmod(x, c)`'),
    ('repeatChannels', 'T → Nat → T', '`x[None, None, ...].repeat(1, n, 1, 1)`'),
    ('lodPlain', 'G → (Nat × Nat) → R → R → R → String → T', '`make_pooling_size_map_lod(centre, (h, w), alpha, width, distance, mode)`'),
    ('lodEqui', 'G → (Nat × Nat) → R → String → T', '`make_equi_pooling_size_map_lod(centre, (h, w), alpha, mode)`'),
    ('radialMap', '(Nat × Nat) → G → T', '`make_radial_map([h, w], gaze)`'),
    ('renderBlur', 'T → T → T → T', 'the mip chain, per-level masks and blending of `RadiallyVaryingBlur.blur` (regenerated per pixel in FoveationGen.lean): image, lod_map, lod_fraction'),
    ('statsCore', 'MetamericLossCfg R → Sub → T → G → R → R → R → String → Sub × List T × T',
     '`MetamericLoss.calc_statsmaps`: (its sub-caches after the call, the returned statistics, `self.fovea_mask`)'),
    ('visualise', 'List T → List T → T', '`self.loss_map` of `visualise_loss_map(image_stats)` given `self.target_stats`'),
    ('uniformStatsCore', 'MetamericLossUniformCfg R → Sub → T → Nat → Sub × List T', '`MetamericLossUniform.calc_statsmaps`: (its sub-cache after the call, the returned statistics)'),
    ('synthMetamer', 'MetamericLossCfg R → Sub → List T → List T → T → T → Shape → T',
     'the noise-pyramid matching and reconstruction of `gen_metamer`: configuration and pyramid maker of the inner MetamericLoss, target means, target deviations, noise image, padded image, original size'),
]


class Region:
    """contiguous top-level statements of a method replaced by one uninterpreted call"""
    def __init__(self, start, result, op, args):
        self.start, self.result, self.op, self.args = start, result, op, args


class Summary:
    """a method represented by its effect signature: `op` applied to (cfg, sub, used parameters) yields (sub, return value, named attributes)"""
    def __init__(self, op, params, ret, named, sub, reads=()):
        self.op, self.params, self.ret, self.named, self.sub, self.reads = op, params, ret, named, sub, list(reads)


SPECS = [
    dict(cls='RadiallyVaryingBlur', file=P + 'radially_varying_blur.py', methods=['blur'], summaries={}, inner={},
         regions={'blur': [Region('mipmap = [image]', 'output', 'renderBlur', ['image', 'self.lod_map', 'self.lod_fraction'])]}),
    dict(cls='BlurLoss', file=P + 'blur_loss.py', methods=['blur_image', '__call__'], summaries={}, inner={'blur': 'RadiallyVaryingBlur'}, regions={}),
    dict(cls='MetamericLoss', file=P + 'metameric_loss.py', methods=['metameric_loss_stats', '__call__'], inner={}, regions={},
         summaries={'calc_statsmaps': Summary('statsCore', ['image', 'gaze', 'alpha', 'real_image_width', 'real_viewing_distance', 'mode'],
                                              ('list', 'T'), ['fovea_mask'], True),
                    'visualise_loss_map': Summary('visualise', ['image_stats'], 'Unit', ['loss_map'], False, reads=['target_stats'])}),
    dict(cls='MetamericLossUniform', file=P + 'metameric_loss_uniform.py', methods=['metameric_loss_stats', '__call__'], inner={}, regions={},
         summaries={'calc_statsmaps': Summary('uniformStatsCore', ['image', 'pooling_size'], ('list', 'T'), [], True),
                    'visualise_loss_map': Summary('visualise', ['image_stats'], 'Unit', ['loss_map'], False, reads=['target_stats'])}),
    dict(cls='MetamerMSELoss', file=P + 'metamer_mse_loss.py', methods=['gen_metamer', '__call__'], summaries={}, inner={'metameric_loss': 'MetamericLoss'},
         regions={'gen_metamer': [Region('noise_pyramid = ', 'metamer', 'synthMetamer',
                                         ['cfg:metameric_loss', 'sub:metameric_loss', 'target_means', 'target_stdevs', 'noise_image', 'image', 'image_size'])]}),
]


def camel(name):
    name = name.strip('_')
    return ''.join(p[:1].upper() + p[1:] for p in name.split('_'))


def lower_first(s):
    return s[:1].lower() + s[1:]


def self_attr(n):
    """`self.x` -> 'x'"""
    if isinstance(n, ast.Attribute) and isinstance(n.value, ast.Name) and n.value.id == 'self':
        return n.attr
    return None


def store_root(t):
    """attribute of self that an assignment target writes (also through subscripts: `self.x[..] = ..`)"""
    while isinstance(t, ast.Subscript):
        t = t.value
    return self_attr(t)


def scan_rw(fn):
    """(attributes of self read, attributes of self written, names of methods called on self) anywhere in `fn`, nested functions included"""
    reads, writes, calls = set(), set(), set()
    for n in ast.walk(fn):
        if isinstance(n, (ast.Assign, ast.AugAssign, ast.AnnAssign)):
            targets = n.targets if isinstance(n, ast.Assign) else [n.target]
            for t in targets:
                for e in (t.elts if isinstance(t, ast.Tuple) else [t]):
                    a = store_root(e)
                    if a is not None:
                        writes.add(a)
                        if isinstance(e, ast.Subscript) or isinstance(n, ast.AugAssign):
                            reads.add(a)
        if isinstance(n, ast.Attribute) and isinstance(n.ctx, ast.Load):
            a = self_attr(n)
            if a is not None:
                reads.add(a)
        if isinstance(n, ast.Call) and isinstance(n.func, ast.Attribute):
            a = self_attr(n.func)
            if a is not None:
                calls.add(a)
                reads.discard(a)
    return reads, writes, calls


def names_read_free(stmts, known_globals):
    """names a statement list reads before it defines them (top-level order; every name a compound statement or a nested function
    stores counts as local to that statement)"""
    defined, free = set(), set()

    def stores(node):
        out = set()
        for n in ast.walk(node):
            if isinstance(n, ast.Name) and isinstance(n.ctx, ast.Store):
                out.add(n.id)
            if isinstance(n, ast.FunctionDef):
                out.add(n.name)
                out |= set(a.arg for a in n.args.args)
        return out

    for st in stmts:
        local = set()
        if not isinstance(st, (ast.Assign, ast.AugAssign, ast.Expr)):
            local = stores(st)
        else:
            for n in ast.walk(st):
                if isinstance(n, (ast.ListComp, ast.GeneratorExp, ast.SetComp, ast.DictComp)):
                    for g in n.generators:
                        local |= stores(g.target)
        for n in ast.walk(st):
            if isinstance(n, ast.Name) and isinstance(n.ctx, ast.Load) and n.id not in defined and n.id not in local and n.id not in known_globals:
                free.add(n.id)
        if isinstance(st, ast.AugAssign) and isinstance(st.target, ast.Name) and st.target.id not in defined:
            free.add(st.target.id)
        defined |= stores(st)
    return free


class ClassInfo:
    def __init__(self, spec, registry):
        self.spec, self.registry = spec, registry
        self.name = spec['cls']
        self.prefix = lower_first(self.name)
        self.tree = tree(spec['file'])
        for n in self.tree.body:
            if isinstance(n, ast.ClassDef) and n.name == self.name:
                self.node = n
                break
        else:
            raise TranslateError('class %s not found' % self.name)
        self.module_names = set()
        for n in self.tree.body:
            if isinstance(n, (ast.Import, ast.ImportFrom)):
                for a in n.names:
                    self.module_names.add((a.asname or a.name).split('.')[0])
            elif isinstance(n, (ast.FunctionDef, ast.ClassDef)):
                self.module_names.add(n.name)
        self.module_names |= {'range', 'len', 'print', 'Exception', 'zip', 'list', 'type', 'True', 'False', 'None', 'int', 'float'}
        self.cfg = {}           # configuration attribute -> kind
        self.aliases = {}       # attribute -> 'mse'
        self.nullable = set()   # attributes assigned None somewhere
        self.init_none = []     # attributes assigned None in __init__
        self.state = {}         # state attribute -> kind (ordered)
        self.guessed = set()
        self.inner = dict(spec['inner'])
        self.analyse_init()
        modelled = spec['methods'] + list(spec['summaries'])
        self.rw = {m: scan_rw(find_function(self.tree, m, self.name)) for m in modelled}
        for m in modelled:
            for n in ast.walk(find_function(self.tree, m, self.name)):
                if isinstance(n, ast.Assign) and isinstance(n.value, ast.Constant) and n.value.value is None:
                    for t in n.targets:
                        if self_attr(t):
                            self.nullable.add(self_attr(t))
        self.has_sub = any(s.sub for s in spec['summaries'].values())
        # attributes the statement-by-statement methods touch directly
        self.fine_reads = set().union(*[self.rw[m][0] for m in spec['methods']]) if spec['methods'] else set()
        self.fine_writes = set().union(*[self.rw[m][1] for m in spec['methods']]) if spec['methods'] else set()
        self.sub_attrs = set()
        for m, s in spec['summaries'].items():
            r, w, calls = self.rw[m]
            named = set(a for a in w if a in self.fine_reads or a in self.fine_writes or not s.sub)
            if named != set(s.named):
                raise TranslateError('%s.%s: the attributes it leaves for the other methods are %s, its summary `%s` yields %s'
                                     % (self.name, m, sorted(named), s.op, sorted(s.named)))
            if s.sub:
                self.sub_attrs |= (w - named)
            bad = [a for a in w if a in self.cfg]
            if bad:
                raise TranslateError('%s.%s stores configuration attribute(s) %s' % (self.name, m, bad))
            allowed = set(self.cfg) | w | set(s.reads) | set(self.unmodelled_cfg)
            if not r <= allowed:
                raise TranslateError('%s.%s reads %s, which its summary `%s` does not receive' % (self.name, m, sorted(r - allowed), s.op))
            if any(c in spec['methods'] or c in spec['summaries'] for c in calls):
                raise TranslateError('%s.%s calls the modelled method(s) %s' % (self.name, m, sorted(calls)))
        for a in self.sub_attrs:
            if a in self.fine_reads or a in self.fine_writes:
                raise TranslateError('%s: attribute %s belongs to the summarised sub-state but is used directly' % (self.name, a))
        # fields: __init__-None attributes that are used, then stores in method order
        used = set()
        for m in modelled:
            used |= self.rw[m][0] | self.rw[m][1]
        used -= self.sub_attrs
        for a in self.init_none:
            if a in used and a not in self.cfg:
                self.state[a] = ATTR_KINDS.get(a)
        for a, c in self.inner.items():
            self.state[a] = ('obj', c)

    def analyse_init(self):
        init = find_function(self.tree, '__init__', self.name)
        params = {}
        args = init.args.args
        off = len(args) - len(init.args.defaults)
        for i, a in enumerate(args):
            if i >= off:
                d = init.args.defaults[i - off]
                k = None
                if isinstance(d, ast.Constant):
                    v = d.value
                    k = 'Bool' if isinstance(v, bool) else 'Nat' if isinstance(v, int) else 'R' if isinstance(v, float) else 'Str' if isinstance(v, str) else None
                params[a.arg] = k
        self.unmodelled_cfg = []
        for st in init.body:
            if isinstance(st, ast.Assign) and len(st.targets) == 1 and self_attr(st.targets[0]):
                a = self_attr(st.targets[0])
                v = st.value
                if isinstance(v, ast.Constant) and v.value is None:
                    self.nullable.add(a)
                    self.init_none.append(a)
                elif isinstance(v, ast.Name) and v.id in params:
                    if params[v.id] is not None:
                        self.cfg[a] = params[v.id]
                    else:
                        self.unmodelled_cfg.append(a)
                elif isinstance(v, ast.Call) and ast.unparse(v.func) == 'torch.nn.MSELoss' and not v.args:
                    self.aliases[a] = 'mse'
                elif isinstance(v, ast.Call) and isinstance(v.func, ast.Name) and self.inner.get(a) == v.func.id:
                    pass
                else:
                    self.unmodelled_cfg.append(a)

    def fn_name(self, m):
        return '%s%sG' % (self.prefix, camel(m) if m != '__call__' else 'Call')

    def self_ty(self):
        return '%sSelf %s' % (self.name, TP)

    def cfg_ty(self):
        return '%sCfg R' % self.name

    def inner_cfgs(self):
        """(parameter name, class info) of the configurations of sub-objects"""
        out = []
        for a, c in self.inner.items():
            ci = self.registry[c]
            if ci.cfg:
                out.append(('cfg_' + a, ci))
            out += [('cfg_%s_%s' % (a, n[4:]), cc) for n, cc in ci.inner_cfgs()]
        return out

    def head_params(self):
        """the parameters every step function of the class starts with"""
        s = '(E : GazeOps %s)' % TP
        if self.cfg:
            s += ' (cfg : %s)' % self.cfg_ty()
        for n, ci in self.inner_cfgs():
            s += ' (%s : %s)' % (n, ci.cfg_ty())
        return s

    def head_args(self):
        return 'E' + (' cfg' if self.cfg else '') + ''.join(' ' + n for n, _ in self.inner_cfgs())

    def writes_self(self, m, seen=()):
        if m in self.spec['summaries']:
            return True
        r, w, calls = self.rw[m]
        if w:
            return True
        fn = find_function(self.tree, m, self.name)
        for n in ast.walk(fn):
            if isinstance(n, ast.Call) and isinstance(n.func, ast.Attribute) and isinstance(n.func.value, ast.Attribute) \
                    and self_attr(n.func.value) in self.inner:
                return True
        return any(c not in seen and (c in self.spec['methods'] or c in self.spec['summaries']) and self.writes_self(c, seen + (m,)) for c in calls)

    def attr_kind(self, a, value_kind=None):
        k = self.state.get(a)
        if k is None:
            k = ATTR_KINDS.get(a)
        if value_kind is not None and k is None:
            k = value_kind
        if k is None:
            self.guessed.add(a)
            return 'T'
        if a not in self.state or self.state[a] is None:
            self.state[a] = k
        return k


class V:
    def __init__(self, term, kind):
        self.term, self.kind = term, kind


class MethodTranslator:
    def __init__(self, ci, mname, effects):
        self.ci, self.mname, self.effects = ci, mname, effects
        self.fn = find_function(ci.tree, mname, ci.name)
        self.lines = []
        self.ind = 1
        self.n = 0
        self.env = {}
        self.writes = ci.writes_self(mname)
        self.ret_kind = None
        self.accum = set()
        for n in ast.walk(self.fn):
            if isinstance(n, ast.AugAssign) and isinstance(n.target, ast.Name):
                self.accum.add(n.target.id)

    # ------------------------------------------------------------------ output
    def emit(self, text):
        self.lines.append('  ' * self.ind + text)

    def fresh(self, p):
        self.n += 1
        return '%s_%d' % (p, self.n)

    def err(self, what, node=None):
        where = '%s.%s' % (self.ci.name, self.mname)
        if node is not None and hasattr(node, 'lineno'):
            where += ' line %d' % node.lineno
        return TranslateError('%s: %s' % (where, what))

    # ------------------------------------------------------------------ reads of attributes
    def bind_attr(self, a):
        k = self.ci.attr_kind(a)
        v = self.fresh('v')
        self.emit('let %s ← self_.%s' % (v, a))
        return V(v, k)

    def promote(self, v, node=None):
        """a value used as a tensor operand"""
        if v.kind == 'T':
            return v.term
        if v.kind == 'R':
            return '(E.scalar %s)' % v.term
        if v.kind == 'Nat':
            return '(E.nat %s)' % v.term
        raise self.err('a value of kind %s is used as a tensor' % (v.kind,), node)

    # ------------------------------------------------------------------ expressions
    def ex(self, n):
        if isinstance(n, ast.Constant):
            v = n.value
            if isinstance(v, bool):
                return V('true' if v else 'false', 'Bool')
            if isinstance(v, int):
                if v < 0:
                    raise self.err('negative integer literal', n)
                return V(str(v), 'Nat')
            if isinstance(v, float):
                return V('(E.lit "%s")' % repr(v), 'R')
            if isinstance(v, str):
                return V('"%s"' % v.replace('\\', '\\\\').replace('"', '\\"'), 'Str')
            raise self.err('literal %r' % (v,), n)
        if isinstance(n, ast.UnaryOp) and isinstance(n.op, ast.USub) and isinstance(n.operand, ast.Constant) and isinstance(n.operand.value, float):
            return V('(E.lit "%s")' % repr(-n.operand.value), 'R')
        if isinstance(n, ast.Name):
            if n.id not in self.env:
                raise self.err('unknown name %s' % n.id, n)
            k = self.env[n.id]
            if isinstance(k, tuple) and k[0] == 'opt':
                v = self.fresh('v')
                self.emit('let %s ← %s' % (v, n.id))
                return V(v, k[1])
            return V(n.id, k)
        if isinstance(n, ast.Attribute):
            return self.attribute(n)
        if isinstance(n, ast.Call):
            return self.call(n)
        if isinstance(n, ast.BinOp):
            ops = {ast.Add: 'add', ast.Sub: 'sub', ast.Mult: 'mul', ast.Div: 'div'}
            if type(n.op) not in ops:
                raise self.err('operator in %s' % ast.unparse(n), n)
            a, b = self.ex(n.left), self.ex(n.right)
            if a.kind != 'T' and b.kind != 'T':
                raise self.err('arithmetic on non-tensors: %s' % ast.unparse(n), n)
            return V('(E.%s %s %s)' % (ops[type(n.op)], self.promote(a, n), self.promote(b, n)), 'T')
        if isinstance(n, (ast.Tuple, ast.List)) and len(n.elts) == 2:
            a, b = self.ex(n.elts[0]), self.ex(n.elts[1])
            return V('(%s, %s)' % (a.term, b.term), ('pair', a.kind, b.kind))
        if isinstance(n, ast.Subscript):
            base = self.ex(n.value)
            s = n.slice
            if isinstance(base.kind, tuple) and base.kind[0] == 'list' and isinstance(s, ast.Slice) and s.upper is None \
                    and isinstance(s.step, ast.Constant) and s.step.value == 2:
                if s.lower is None or (isinstance(s.lower, ast.Constant) and s.lower.value == 0):
                    return V('(everyOther %s)' % base.term, base.kind)
                if isinstance(s.lower, ast.Constant) and s.lower.value == 1:
                    return V('(everyOther %s.tail)' % base.term, base.kind)
            raise self.err('subscript %s' % ast.unparse(n), n)
        if isinstance(n, (ast.Compare, ast.BoolOp)) or (isinstance(n, ast.UnaryOp) and isinstance(n.op, ast.Not)):
            return V(self.cond(n), 'Bool')
        raise self.err('expression %s' % ast.unparse(n), n)

    def attribute(self, n):
        a = self_attr(n)
        if a is not None:
            if a in self.ci.cfg:
                return V('cfg.%s' % a, self.ci.cfg[a])
            if a in self.ci.aliases or a in self.ci.unmodelled_cfg:
                raise self.err('attribute self.%s is not part of the model' % a, n)
            return self.bind_attr(a)
        # self.obj.x : configuration of a sub-object
        if isinstance(n.value, ast.Attribute) and self_attr(n.value) in self.ci.inner:
            oa = self_attr(n.value)
            oc = self.ci.registry[self.ci.inner[oa]]
            if n.attr in oc.cfg:
                return V('cfg_%s.%s' % (oa, n.attr), oc.cfg[n.attr])
            raise self.err('self.%s.%s is not a configuration attribute of %s' % (oa, n.attr, oc.name), n)
        base = self.ex(n.value)
        if base.kind == 'T' and n.attr == 'shape':
            return V('(E.shape %s)' % base.term, 'Shape')
        raise self.err('attribute %s' % ast.unparse(n), n)

    def size_call(self, base, args, n):
        if not args:
            return V('(E.shape %s)' % base.term, 'Shape')
        if len(args) == 1:
            a = args[0]
            v = a.value if isinstance(a, ast.Constant) else (-a.operand.value if isinstance(a, ast.UnaryOp) and isinstance(a.op, ast.USub) and isinstance(a.operand, ast.Constant) else None)
            f = {-2: 'height', 2: 'height', -1: 'width', 3: 'width', 1: 'channels'}.get(v)
            if f:
                return V('(E.%s %s)' % (f, base.term), 'Nat')
        raise self.err('size call %s' % ast.unparse(n), n)

    def bound_args(self, fn, call, skip_self=True):
        """map the arguments of `call` to the parameters of `fn` (defaults filled in): list of (name, ast node)"""
        params = [a.arg for a in fn.args.args]
        if skip_self:
            params = params[1:]
        defaults = fn.args.defaults
        dmap = {}
        allp = [a.arg for a in fn.args.args]
        for i, d in enumerate(defaults):
            dmap[allp[len(allp) - len(defaults) + i]] = d
        got = {}
        for i, a in enumerate(call.args):
            if i >= len(params):
                raise self.err('too many arguments in %s' % ast.unparse(call), call)
            got[params[i]] = a
        for kw in call.keywords:
            if kw.arg not in params or kw.arg in got:
                raise self.err('keyword %s in %s' % (kw.arg, ast.unparse(call)), call)
            got[kw.arg] = kw.value
        out = []
        for p in params:
            if p in got:
                out.append((p, got[p], False))
            elif p in dmap:
                out.append((p, dmap[p], True))
            else:
                raise self.err('argument %s missing in %s' % (p, ast.unparse(call)), call)
        return out

    def method_call(self, owner, oci, mname, call):
        """call of a modelled method on self (`owner` None) or on the sub-object attribute `owner`; returns the value"""
        fn = find_function(oci.tree, mname, oci.name)
        if mname not in oci.spec['methods'] and mname not in oci.spec['summaries']:
            raise self.err('method %s.%s is not modelled' % (oci.name, mname), call)
        args = []
        for p, node, is_default in self.bound_args(fn, call):
            want = NAME_KINDS.get(p)
            if is_default and isinstance(node, ast.Constant) and node.value is None:
                raise self.err('default None of %s.%s(%s) is used' % (oci.name, mname, p), call)
            v = self.ex(node)
            if want is None:
                raise self.err('parameter %s of %s.%s has no kind' % (p, oci.name, mname), call)
            if v.kind != want:
                raise self.err('argument %s of %s.%s: kind %s, expected %s' % (p, oci.name, mname, v.kind, want), call)
            args.append(v.term)
        if owner is None:
            head = oci.head_args()
            target = 'self_'
        else:
            head = 'E' + (' cfg_%s' % owner if oci.cfg else '') + ''.join(' cfg_%s_%s' % (owner, nm[4:]) for nm, _ in oci.inner_cfgs())
            target = self.bind_attr(owner).term
        r = self.fresh('r')
        self.emit('let %s ← %s %s %s%s' % (r, oci.fn_name(mname), head, target, ''.join(' ' + a for a in args)))
        ret_kind = self.effects[(oci.name, mname)]
        if oci.writes_self(mname):
            if owner is None:
                self.emit('self_ := %s.1' % r)
                self.emit('log_ := log_ ++ %s.2.2' % r)
            else:
                self.emit('self_ := { self_ with %s := some %s.1 }' % (owner, r))
                self.emit('log_ := log_ ++ %s.2.2.map (fun s_ => "%s." ++ s_)' % (r, owner))
            return V('%s.2.1' % r, ret_kind)
        return V(r, ret_kind)

    def call(self, n):
        f = n.func
        src = ast.unparse(f)
        args = n.args
        # torch.nn.MSELoss()(a, b)
        if isinstance(f, ast.Call) and ast.unparse(f.func) == 'torch.nn.MSELoss' and not f.args and len(args) == 2:
            a, b = self.ex(args[0]), self.ex(args[1])
            return V('(E.mse %s %s)' % (self.promote(a, n), self.promote(b, n)), 'T')
        a0 = self_attr(f)
        if a0 is not None:
            if a0 in self.ci.aliases and self.ci.aliases[a0] == 'mse' and len(args) == 2 and not n.keywords:
                a, b = self.ex(args[0]), self.ex(args[1])
                return V('(E.mse %s %s)' % (self.promote(a, n), self.promote(b, n)), 'T')
            return self.method_call(None, self.ci, a0, n)
        if isinstance(f, ast.Attribute) and isinstance(f.value, ast.Attribute) and self_attr(f.value) in self.ci.inner:
            oa = self_attr(f.value)
            return self.method_call(oa, self.ci.registry[self.ci.inner[oa]], f.attr, n)
        simple = {'pad_image_for_pyramid': ('pad', ['T', 'Nat'], 'T'), 'rgb_2_ycrcb': ('ycrcb', ['T'], 'T'), 'ycrcb_2_rgb': ('rgb', ['T'], 'T'),
                  'torch.zeros': ('zeros', ['Shape'], 'T'), 'torch.rand_like': ('randLike', ['T'], 'T'), 'torch.fmod': ('fmod', ['T', 'R'], 'T'),
                  'make_pooling_size_map_lod': ('lodPlain', ['G', ('pair', 'Nat', 'Nat'), 'R', 'R', 'R', 'Str'], 'T'),
                  'make_equi_pooling_size_map_lod': ('lodEqui', ['G', ('pair', 'Nat', 'Nat'), 'R', 'Str'], 'T'),
                  'make_radial_map': ('radialMap', [('pair', 'Nat', 'Nat'), 'G'], 'T')}
        if src in simple and not n.keywords:
            op, kinds, rk = simple[src]
            if len(args) != len(kinds):
                raise self.err('%d arguments in %s' % (len(args), ast.unparse(n)), n)
            ts = []
            for a, k in zip(args, kinds):
                v = self.ex(a)
                if v.kind != k:
                    raise self.err('argument %s of %s has kind %s, expected %s' % (ast.unparse(a), src, v.kind, k), n)
                ts.append(v.term)
            return V('(E.%s %s)' % (op, ' '.join(ts)), rk)
        if src == 'list' and len(args) == 1:
            v = self.ex(args[0])
            if v.kind != 'G':
                raise self.err('list() of a %s' % (v.kind,), n)
            return v
        if src == 'len' and len(args) == 1:
            v = self.ex(args[0])
            if isinstance(v.kind, tuple) and v.kind[0] == 'list':
                return V('%s.length' % v.term, 'Nat')
            raise self.err('len() of a %s' % (v.kind,), n)
        if src == 'torch.all' and len(args) == 1 and isinstance(args[0], ast.Call) and ast.unparse(args[0].func) == 'torch.eq' and len(args[0].args) == 2:
            a, b = self.ex(args[0].args[0]), self.ex(args[0].args[1])
            if a.kind != 'T' or b.kind != 'T':
                raise self.err('torch.eq of non-tensors', n)
            return V('(E.allEq %s %s)' % (a.term, b.term), 'Bool')
        if isinstance(f, ast.Name) and f.id in self.ci.registry and not args and not n.keywords:
            oc = self.ci.registry[f.id]
            if oc.cfg:
                raise self.err('constructor %s with configuration' % f.id, n)
            return V('%sSelf.init' % oc.name, ('obj', oc.name))
        if isinstance(f, ast.Attribute):
            # x[None, None, ...].repeat(1, n, 1, 1)
            if f.attr == 'repeat' and isinstance(f.value, ast.Subscript) and ast.unparse(f.value.slice) in ('(None, None, ...)', '(None, None, Ellipsis)') \
                    and len(args) == 4 and [ast.unparse(a) for a in (args[0], args[2], args[3])] == ['1', '1', '1']:
                x, c = self.ex(f.value.value), self.ex(args[1])
                if x.kind == 'T' and c.kind == 'Nat':
                    return V('(E.repeatChannels %s %s)' % (x.term, c.term), 'T')
            base = self.ex(f.value)
            if base.kind == 'T':
                if f.attr in ('detach', 'clone', 'to', 'contiguous'):      # value-preserving (a copy / device move)
                    return base
                if f.attr == 'size':
                    return self.size_call(base, args, n)
        raise self.err('call %s' % ast.unparse(n), n)

    # ------------------------------------------------------------------ conditions
    def cond_ir(self, n):
        """('pure', term) | ('atom', [(var, attr)], term) | ('or' | 'and', [ir]) | ('not', ir)"""
        if isinstance(n, ast.BoolOp):
            return ('or' if isinstance(n.op, ast.Or) else 'and', [self.cond_ir(v) for v in n.values])
        if isinstance(n, ast.UnaryOp) and isinstance(n.op, ast.Not):
            inner = self.cond_ir(n.operand)
            if inner[0] == 'atom':
                return ('atom', inner[1], '(!%s)' % inner[2])
            return ('not', inner)
        # an atom: translate with the binds captured
        saved, self.lines = self.lines, []
        saved_ind, self.ind = self.ind, 0
        try:
            term = self.atom(n)
        finally:
            binds, self.lines, self.ind = self.lines, saved, saved_ind
        return ('atom', [b.strip() for b in binds], term) if binds else ('pure', term)

    def atom(self, n):
        if isinstance(n, ast.Compare) and len(n.ops) == 1:
            op, l, r = n.ops[0], n.left, n.comparators[0]
            if isinstance(op, (ast.Is, ast.IsNot)) and isinstance(r, ast.Constant) and r.value is None:
                a = self_attr(l)
                if a is not None and a not in self.ci.cfg:
                    if a not in self.ci.state:
                        self.ci.state[a] = ATTR_KINDS.get(a)
                    return 'self_.%s.%s' % (a, 'isNone' if isinstance(op, ast.Is) else 'isSome')
                if isinstance(l, ast.Name) and isinstance(self.env.get(l.id), tuple) and self.env[l.id][0] == 'opt':
                    return '%s.%s' % (l.id, 'isNone' if isinstance(op, ast.Is) else 'isSome')
                raise self.err('None test of %s' % ast.unparse(l), n)
            if isinstance(op, (ast.Is, ast.IsNot)):
                a, b = self.ex(l), self.ex(r)
                if a.kind == 'T' and b.kind == 'T':
                    t = '(E.same %s %s)' % (a.term, b.term)
                    return t if isinstance(op, ast.Is) else '(!%s)' % t
                raise self.err('identity test %s' % ast.unparse(n), n)
            if isinstance(op, (ast.Eq, ast.NotEq)):
                sym = '=' if isinstance(op, ast.Eq) else '≠'
                # type(a) == type(b)
                if all(isinstance(x, ast.Call) and ast.unparse(x.func) == 'type' and len(x.args) == 1 for x in (l, r)):
                    ts = []
                    for x in (l.args[0], r.args[0]):
                        a = self_attr(x)
                        if a is not None and a in self.ci.nullable and self.ci.attr_kind(a) == 'T':
                            ts.append('self_.%s.isSome' % a)        # a tensor or None
                        elif self.ex(x).kind == 'T':
                            ts.append('true')
                        else:
                            raise self.err('type() of %s' % ast.unparse(x), n)
                    ts = [x for x in ts if x != 'true']
                    t = 'true' if not ts else ts[0] if len(ts) == 1 else '(%s == %s)' % tuple(ts)
                    return t if isinstance(op, ast.Eq) else '(!%s)' % t
                # a nullable attribute compared as a whole: None compares unequal to every value
                for x, y in ((l, r), (r, l)):
                    a = self_attr(x)
                    if a is not None and a not in self.ci.cfg and a not in self.ci.aliases and a not in self.ci.unmodelled_cfg:
                        if a in self.ci.nullable:
                            other = self.ex(y)
                            self.ci.attr_kind(a, other.kind)
                            return '(decide (self_.%s %s some %s))' % (a, sym, other.term)
                        if self.ci.state.get(a) is None and ATTR_KINDS.get(a) is None and self_attr(y) is None:
                            # an attribute whose kind is not known yet takes the kind of what it is compared with
                            saved = (self.lines, self.n)
                            self.lines = []
                            k = self.ex(y).kind
                            self.lines, self.n = saved
                            self.ci.attr_kind(a, k)
                a, b = self.ex(l), self.ex(r)
                if a.kind != b.kind or a.kind == 'T' or (isinstance(a.kind, tuple) and a.kind[0] in ('list', 'obj')):
                    raise self.err('comparison %s of kinds %s, %s' % (ast.unparse(n), a.kind, b.kind), n)
                return '(decide (%s %s %s))' % (a.term, sym, b.term)
            raise self.err('comparison %s' % ast.unparse(n), n)
        v = self.ex(n)
        if v.kind != 'Bool':
            raise self.err('condition %s has kind %s' % (ast.unparse(n), v.kind), n)
        return v.term

    def pure_term(self, ir):
        if ir[0] == 'pure':
            return ir[1]
        if ir[0] == 'atom':
            return None
        if ir[0] == 'not':
            t = self.pure_term(ir[1])
            return None if t is None else '(!%s)' % t
        ts = [self.pure_term(x) for x in ir[1]]
        if any(t is None for t in ts):
            return None
        return '(' + (' || ' if ir[0] == 'or' else ' && ').join(ts) + ')'

    def render_m(self, ir, ind, out):
        """append the lines of a `do` block of type `Option Bool` (items at indentation `ind`)"""
        pad = '  ' * ind
        t = self.pure_term(ir)
        if t is not None:
            out.append(pad + 'pure %s' % t)
            return
        if ir[0] == 'atom':
            for b in ir[1]:
                out.append(pad + b)
            out.append(pad + 'pure %s' % ir[2])
            return
        if ir[0] == 'not':
            b = self.fresh('b')
            out.append(pad + 'let %s ← (do' % b)
            self.render_m(ir[1], ind + 1, out)
            out[-1] += ')'
            out.append(pad + 'pure (!%s)' % b)
            return
        short, other = ('true', 'false') if ir[0] == 'or' else ('false', 'true')
        items = ir[1]
        for i, x in enumerate(items):
            last = i == len(items) - 1
            if last:
                self.render_m(x, ind, out)
                return
            t = self.pure_term(x)
            if t is None and x[0] == 'atom':
                for b in x[1]:
                    out.append(pad + b)
                t = x[2]
            elif t is None:
                b = self.fresh('b')
                out.append(pad + 'let %s ← (do' % b)
                self.render_m(x, ind + 1, out)
                out[-1] += ')'
                t = b
            if ir[0] == 'or':
                out.append(pad + 'if %s then pure true else do' % t)
            else:
                out.append(pad + 'if !%s then pure false else do' % t)

    def cond(self, n):
        """a Bool term for the test `n`; reads that can raise are bound first, in the order Python evaluates them"""
        ir = self.cond_ir(n)
        t = self.pure_term(ir)
        if t is not None:
            return t
        c = self.fresh('c')
        out = []
        self.render_m(ir, self.ind + 1, out)
        self.emit('let %s ← (do' % c)
        self.lines += out
        self.lines[-1] += ')'
        return c

    # ------------------------------------------------------------------ statements
    def assign_local(self, name, v):
        k = self.env.get(name)
        if isinstance(k, tuple) and k[0] == 'opt':
            if k[1] != v.kind:
                raise self.err('local %s changes kind (%s -> %s)' % (name, k[1], v.kind))
            self.emit('%s := some %s' % (name, v.term))
        elif name in self.env:
            if k != v.kind:
                raise self.err('local %s changes kind (%s -> %s)' % (name, k, v.kind))
            self.emit('%s := %s' % (name, v.term))
        else:
            self.env[name] = v.kind
            self.emit('let mut %s : %s := %s' % (name, lty(v.kind), v.term))

    def store_attr(self, a, v):
        if a in self.ci.cfg or a in self.ci.aliases or a in self.ci.unmodelled_cfg or a in self.ci.sub_attrs:
            raise self.err('store to self.%s, which is not a state attribute of the model' % a)
        if v is None:
            if a not in self.ci.state:
                self.ci.state[a] = ATTR_KINDS.get(a)
            self.emit('self_ := { self_ with %s := none }' % a)
        else:
            k = self.ci.attr_kind(a, v.kind)
            if k != v.kind:
                raise self.err('self.%s holds a %s, a %s is stored' % (a, k, v.kind))
            self.emit('self_ := { self_ with %s := some %s }' % (a, v.term))
        self.emit('log_ := log_ ++ ["%s"]' % a)

    def is_device_plumbing(self, s):
        """`if A.device != B.device: self.x = self.x.to(B.device)` - value-neutral"""
        if not (isinstance(s, ast.If) and not s.orelse and isinstance(s.test, ast.Compare)):
            return False
        if not all(isinstance(x, ast.Attribute) and x.attr == 'device' for x in [s.test.left] + s.test.comparators):
            return False
        for b in s.body:
            if not (isinstance(b, ast.Assign) and len(b.targets) == 1 and self_attr(b.targets[0]) and isinstance(b.value, ast.Call)
                    and isinstance(b.value.func, ast.Attribute) and b.value.func.attr == 'to'
                    and self_attr(b.value.func.value) == self_attr(b.targets[0])):
                return False
        return True

    def names_stored(self, stmts):
        out = []
        for s in stmts:
            for n in ast.walk(s):
                if isinstance(n, ast.Name) and isinstance(n.ctx, ast.Store) and n.id not in out:
                    out.append(n.id)
        return out

    def loaded_outside(self, name, inside):
        inner = set(id(x) for s in inside for x in ast.walk(s))
        for n in ast.walk(self.fn):
            if isinstance(n, ast.Name) and n.id == name and isinstance(n.ctx, ast.Load) and id(n) not in inner:
                return True
        return False

    def dry_kinds(self, stmts):
        """kinds of the locals first assigned in `stmts` (translation with the output thrown away)"""
        saved = (self.lines, self.ind, self.n, dict(self.env), dict(self.ci.state), self.ret_kind)
        self.lines = []
        try:
            self.block(stmts)
            return dict(self.env)
        finally:
            self.lines, self.ind, self.n, self.env, _, self.ret_kind = saved

    def block(self, stmts, regions=()):
        i = 0
        while i < len(stmts):
            s = stmts[i]
            reg = None
            for r in regions:
                if ast.unparse(s).startswith(r.start):
                    reg = r
            if reg is not None:
                j = i
                while j < len(stmts) and not isinstance(stmts[j], ast.Return):
                    j += 1
                self.region(reg, stmts[i:j])
                i = j
                continue
            self.stmt(s)
            i += 1

    def region(self, reg, stmts):
        for s in stmts:
            r, w, calls = scan_rw(s)
            if w:
                raise self.err('the numerics block `%s …` stores self.%s' % (reg.start, sorted(w)[0]), s)
            todo = [] if isinstance(s, ast.FunctionDef) else [s]
            while todo:
                n = todo.pop()
                if isinstance(n, (ast.Return, ast.Raise)):
                    raise self.err('the numerics block `%s …` returns / raises' % reg.start, s)
                todo += [ch for ch in ast.iter_child_nodes(n) if not isinstance(ch, ast.FunctionDef)]
        free = names_read_free(stmts, self.ci.module_names) - {'self'}
        # attribute chains on self that the block reads
        chains = set()
        for s in stmts:
            for n in ast.walk(s):
                if isinstance(n, ast.Attribute) and isinstance(n.ctx, ast.Load):
                    if self_attr(n) is not None:
                        chains.add(n.attr)
        inner_used = set(c for c in chains if c in self.ci.inner)
        chains -= inner_used
        want_names = set(a for a in reg.args if ':' not in a and not a.startswith('self.'))
        want_attrs = set(a[5:] for a in reg.args if a.startswith('self.'))
        want_inner = set(a.split(':')[1] for a in reg.args if ':' in a)
        if free != want_names or chains != want_attrs or inner_used != want_inner:
            raise self.err('the numerics block `%s …` reads %s, the uninterpreted `%s` receives %s'
                           % (reg.start, sorted(free) + ['self.' + c for c in sorted(chains | inner_used)], reg.op, reg.args))
        if reg.result not in self.names_stored(stmts):
            raise self.err('the numerics block `%s …` does not define %s' % (reg.start, reg.result))
        ts = []
        for a in reg.args:
            if a.startswith('cfg:'):
                ts.append('cfg_' + a[4:])
            elif a.startswith('sub:'):
                ts.append('%s.sub' % self.bind_attr(a[4:]).term)
            elif a.startswith('self.'):
                ts.append(self.bind_attr(a[5:]).term)
            else:
                ts.append(self.ex(ast.Name(id=a, ctx=ast.Load())).term)
        self.assign_local(reg.result, V('(E.%s %s)' % (reg.op, ' '.join(ts)), 'T'))

    def stmt(self, s):
        if isinstance(s, ast.Expr) and isinstance(s.value, ast.Constant) and isinstance(s.value.value, str):
            return                                            # docstring
        if isinstance(s, ast.Expr) and isinstance(s.value, ast.Call):
            src = ast.unparse(s.value.func)
            c = s.value
            if src == 'check_loss_inputs' and len(c.args) == 3:
                a, b = self.ex(c.args[1]), self.ex(c.args[2])
                self.emit('if !(E.inputsOk %s %s) then' % (a.term, b.term))
                self.emit('  none')
                return
            if src == 'torch.manual_seed':
                self.emit('-- %s  (global random state; the draw below is `E.randLike`)' % ast.unparse(s))
                return
            if src == 'print':
                return
            self.ex(c)                                        # a method call for its effect
            return
        if isinstance(s, ast.Assign) and len(s.targets) == 1:
            t = s.targets[0]
            a = self_attr(t)
            if a is not None:
                if isinstance(s.value, ast.Constant) and s.value.value is None:
                    self.store_attr(a, None)
                else:
                    self.store_attr(a, self.ex(s.value))
                return
            if isinstance(t, ast.Name):
                if isinstance(s.value, ast.Constant) and isinstance(s.value.value, (int, float)) and not isinstance(s.value.value, bool) and t.id in self.accum:
                    v = V('(E.scalar (E.lit "%s"))' % repr(float(s.value.value)), 'T')       # an accumulator that becomes a tensor
                else:
                    v = self.ex(s.value)
                self.assign_local(t.id, v)
                return
            raise self.err('assignment target %s' % ast.unparse(t), s)
        if isinstance(s, ast.AugAssign) and isinstance(s.target, ast.Name):
            ops = {ast.Add: 'add', ast.Sub: 'sub', ast.Mult: 'mul', ast.Div: 'div'}
            if type(s.op) not in ops or self.env.get(s.target.id) != 'T':
                raise self.err('augmented assignment %s' % ast.unparse(s), s)
            v = self.ex(s.value)
            self.emit('%s := (E.%s %s %s)' % (s.target.id, ops[type(s.op)], s.target.id, self.promote(v, s)))
            return
        if isinstance(s, ast.If):
            if self.is_device_plumbing(s):
                self.emit('-- %s: …  (a device move keeps the value)' % ast.unparse(s.test))
                return
            # locals first assigned inside the statement and read after it may be unbound: Option-valued
            new = [x for x in self.names_stored(s.body + s.orelse) if x not in self.env and self.loaded_outside(x, [s])]
            if new:
                kinds = {}
                for br in (s.body, s.orelse):
                    if br:
                        kinds.update((k, v) for k, v in self.dry_kinds(br).items() if k in new)
                for x in new:
                    if x not in kinds:
                        raise self.err('kind of local %s' % x, s)
                    self.env[x] = ('opt', kinds[x])
                    self.emit('let mut %s : Option %s := none' % (x, lty(kinds[x])))
            c = self.cond(s.test)
            self.emit('if %s then' % c)
            self.scoped(s.body)
            if s.orelse:
                self.emit('else')
                self.scoped(s.orelse)
            return
        if isinstance(s, ast.For) and not s.orelse:
            it = s.iter
            if isinstance(it, ast.Call) and ast.unparse(it.func) == 'zip' and len(it.args) == 2 and isinstance(s.target, ast.Tuple) \
                    and len(s.target.elts) == 2 and all(isinstance(e, ast.Name) for e in s.target.elts):
                a, b = self.ex(it.args[0]), self.ex(it.args[1])
                if not all(isinstance(x.kind, tuple) and x.kind[0] == 'list' for x in (a, b)):
                    raise self.err('zip of non-lists', s)
                x, y = s.target.elts[0].id, s.target.elts[1].id
                self.emit('for (%s, %s) in List.zip %s %s do' % (x, y, a.term, b.term))
                saved = dict(self.env)
                self.env[x], self.env[y] = a.kind[1], b.kind[1]
                self.ind += 1
                self.block(s.body)
                self.ind -= 1
                self.env = dict((k, v) for k, v in self.env.items() if k in saved)
                return
            raise self.err('loop %s' % ast.unparse(s).split('\n')[0], s)
        if isinstance(s, ast.Return):
            v = self.ex(s.value) if s.value is not None else V('()', 'Unit')
            if self.ret_kind is not None and self.ret_kind != v.kind:
                raise self.err('returns a %s and a %s' % (self.ret_kind, v.kind), s)
            self.ret_kind = v.kind
            self.emit('return (self_, %s, log_)' % v.term if self.writes else 'return %s' % v.term)
            return
        if isinstance(s, ast.Raise):
            self.emit('none')
            return
        if isinstance(s, ast.Pass):
            return
        raise self.err('statement %s' % ast.unparse(s).split('\n')[0], s)

    def scoped(self, stmts):
        saved = dict(self.env)
        self.ind += 1
        n0 = len(self.lines)
        self.block(stmts)
        if not any(not l.strip().startswith('--') for l in self.lines[n0:]):
            self.emit('pure ()')
        self.ind -= 1
        self.env = dict((k, v) for k, v in self.env.items() if k in saved)

    # ------------------------------------------------------------------ a whole method
    def translate(self):
        fn = self.fn
        params = []
        stored = set(self.names_stored(fn.body))
        for a in fn.args.args[1:]:
            k = NAME_KINDS.get(a.arg)
            if k is None:
                raise self.err('parameter %s has no kind' % a.arg)
            params.append((a.arg, k))
            self.env[a.arg] = k
        if self.writes:
            self.emit('let mut self_ := self_')
            self.emit('let mut log_ : List String := []')
        for p, k in params:
            if p in stored:
                self.emit('let mut %s := %s' % (p, p))
        self.block(fn.body, self.ci.spec['regions'].get(self.mname, ()))
        last = fn.body[-1]
        if not isinstance(last, (ast.Return, ast.Raise)) and not (isinstance(last, ast.If) and last.orelse):
            if self.ret_kind not in (None, 'Unit'):
                raise self.err('falls off the end after returning a value')
            self.ret_kind = 'Unit'
            self.emit('return (self_, (), log_)' if self.writes else 'return ()')
        if self.ret_kind is None:
            raise self.err('no return value')
        rty = lty(self.ret_kind)
        res = 'Option (%s × %s × List String)' % (self.ci.self_ty(), rty) if self.writes else 'Option %s' % rty
        head = 'def %s %s%s%s : %s := do' % (
            self.ci.fn_name(self.mname), self.ci.head_params(), ' (self_ : %s)' % self.ci.self_ty() if (self.writes or self.reads_self()) else '',
            ''.join(' (%s : %s)' % (p, lty(k)) for p, k in params), res)
        return head, self.lines

    def reads_self(self):
        return True


def summarise(ci, mname, s):
    """the step function of a summarised method, from its effect signature"""
    fn = find_function(ci.tree, mname, ci.name)
    r, w, calls = ci.rw[mname]
    params = [a.arg for a in fn.args.args[1:]]
    used = set()
    for n in ast.walk(fn):
        if isinstance(n, ast.Name) and isinstance(n.ctx, ast.Load) and n.id in params:
            used.add(n.id)
    used_list = [p for p in params if p in used]
    if used_list != s.params:
        raise TranslateError('%s.%s uses its parameters %s, the uninterpreted `%s` receives %s' % (ci.name, mname, used_list, s.op, s.params))
    kinds = []
    for p in params:
        if p not in NAME_KINDS:
            raise TranslateError('%s.%s: parameter %s has no kind' % (ci.name, mname, p))
        kinds.append(NAME_KINDS[p])
    lines = []
    doc_r = sorted(r)
    # guard of every named attribute: stored unconditionally or under a top-level test on the configuration
    guards = {}
    mt = MethodTranslator(ci, mname, {})
    for a in s.named:
        g = None
        found = False
        for st in fn.body:
            inside = any(store_root(t) == a for n in ast.walk(st) if isinstance(n, (ast.Assign, ast.AugAssign))
                         for t in (n.targets if isinstance(n, ast.Assign) else [n.target]))
            if not inside:
                continue
            found = True
            if isinstance(st, ast.If):
                in_body = any(store_root(t) == a for b in st.body for n in ast.walk(b) if isinstance(n, (ast.Assign, ast.AugAssign))
                              for t in (n.targets if isinstance(n, ast.Assign) else [n.target]))
                in_else = any(store_root(t) == a for b in st.orelse for n in ast.walk(b) if isinstance(n, (ast.Assign, ast.AugAssign))
                              for t in (n.targets if isinstance(n, ast.Assign) else [n.target]))
                if in_else:
                    raise TranslateError('%s.%s stores self.%s in an else branch' % (ci.name, mname, a))
                names = set(x.attr for x in ast.walk(st.test) if isinstance(x, ast.Attribute) and self_attr(x))
                if not names or not names <= set(ci.cfg) or any(isinstance(x, ast.Name) and x.id != 'self' for x in ast.walk(st.test)):
                    raise TranslateError('%s.%s stores self.%s under a test that is not on the configuration: %s'
                                         % (ci.name, mname, a, ast.unparse(st.test)))
                t = mt.cond(st.test)
                if g is not None and g != t:
                    raise TranslateError('%s.%s stores self.%s under different tests' % (ci.name, mname, a))
                g = t
            elif isinstance(st, (ast.For, ast.While, ast.FunctionDef)):
                raise TranslateError('%s.%s stores self.%s inside a loop' % (ci.name, mname, a))
            else:
                g = 'true'
        if not found:
            raise TranslateError('%s.%s does not store self.%s' % (ci.name, mname, a))
        guards[a] = g
    for a in s.named:
        ci.attr_kind(a)
    call_args = ['cfg'] if ci.cfg and s.sub else []
    if s.sub:
        call_args.append('self_.sub')
    call_args += s.params
    pre = []
    for a in s.reads:
        v = 'v_%s' % a
        pre.append('let %s ← self_.%s' % (v, a))
        call_args.append(v)
    lines.append('  let mut self_ := self_')
    lines.append('  let mut log_ : List String := []')
    lines += ['  ' + p for p in pre]
    lines.append('  let r_ := E.%s %s' % (s.op, ' '.join(call_args)))
    proj_ret, proj_named = None, {}
    comps = (['sub'] if s.sub else []) + (['ret'] if s.ret != 'Unit' else []) + list(s.named)
    for i, c in enumerate(comps):
        if len(comps) == 1:
            p = 'r_'
        else:
            p = 'r_' + '.2' * i + ('.1' if i < len(comps) - 1 else '')
        if c == 'sub':
            lines.append('  self_ := { self_ with sub := %s }' % p)
        elif c == 'ret':
            proj_ret = p
        else:
            proj_named[c] = p
    for a in s.named:
        g = guards[a]
        if g == 'true':
            lines.append('  self_ := { self_ with %s := some %s }' % (a, proj_named[a]))
            lines.append('  log_ := log_ ++ ["%s"]' % a)
        else:
            lines.append('  if %s then' % g)
            lines.append('    self_ := { self_ with %s := some %s }' % (a, proj_named[a]))
            lines.append('    log_ := log_ ++ ["%s"]' % a)
    lines.append('  return (self_, %s, log_)' % (proj_ret if proj_ret else '()'))
    head = 'def %s %s (self_ : %s)%s : Option (%s × %s × List String) := do' % (
        ci.fn_name(mname), ci.head_params(), ci.self_ty(), ''.join(' (%s : %s)' % (p, lty(k)) for p, k in zip(params, kinds)),
        ci.self_ty(), lty(s.ret))
    doc = ('/-- `%s.%s` (%s) SUMMARISED by its effect signature, recomputed from the source: it reads the attributes %s, writes %s (of which %s '
           'stay inside the summarised sub-state), uses its parameters %s%s; the uninterpreted `E.%s` stands for the numerics -/'
           % (ci.name, mname, ci.spec['file'], doc_r, sorted(w), sorted(w - set(s.named)), used_list,
              ' and IGNORES %s' % [p for p in params if p not in used] if len(used_list) < len(params) else '', s.op))
    extra = ['/-- attributes of self that `%s.%s` reads / writes / parameters it ignores [recomputed from the source] -/' % (ci.name, mname),
             'def %sReads : List String := [%s]' % (ci.fn_name(mname)[:-1], ', '.join('"%s"' % x for x in doc_r)),
             'def %sWrites : List String := [%s]' % (ci.fn_name(mname)[:-1], ', '.join('"%s"' % x for x in sorted(w))),
             'def %sIgnoredParams : List String := [%s]' % (ci.fn_name(mname)[:-1], ', '.join('"%s"' % p for p in params if p not in used))]
    return extra + [doc, head] + lines, s.ret


# ------------------------------------------------------------------------------------------------------------------ the fovea mask
def fovea_mask_formula():
    """per-pixel formula of `self.fovea_mask` / `periphery_mask` in MetamericLoss.calc_statsmaps"""
    fn = find_function(tree(P + 'metameric_loss.py'), 'calc_statsmaps', 'MetamericLoss')
    LOD = 'self.blurs[0].lod_map'

    def tr(n, env):
        src = ast.unparse(n)
        if src == LOD:
            return 'lod'
        if src == 'torch.max(%s)' % LOD:
            return 'lodMax'
        if src in env:
            return env[src]
        if isinstance(n, ast.Constant) and isinstance(n.value, (int, float)) and not isinstance(n.value, bool):
            v = n.value
            return sci(int(v) if float(v) == int(v) else v)
        if isinstance(n, ast.BinOp) and type(n.op) in (ast.Add, ast.Sub, ast.Mult, ast.Div):
            return '(%s %s %s)' % (tr(n.left, env), {ast.Add: '+', ast.Sub: '-', ast.Mult: '*', ast.Div: '/'}[type(n.op)], tr(n.right, env))
        if isinstance(n, ast.Call) and src.startswith('torch.pow(') and len(n.args) == 2 and isinstance(n.args[1], ast.Constant) \
                and float(n.args[1].value) == int(n.args[1].value) and n.args[1].value >= 0:
            return '(natPow %s %d)' % (tr(n.args[0], env), int(n.args[1].value))
        raise TranslateError('fovea mask: expression %s' % src)

    blk = None
    for st in fn.body:
        if isinstance(st, ast.If) and ast.unparse(st.test) == 'self.use_l2_foveal_loss' and any(
                store_root(t) == 'fovea_mask' for n in ast.walk(st) if isinstance(n, ast.Assign) for t in n.targets):
            blk = st
            break
    if blk is None:
        raise TranslateError('fovea mask: no `if self.use_l2_foveal_loss:` block that stores self.fovea_mask')
    env = {}
    seen_zero = False
    peri = None
    for st in blk.body:
        if isinstance(st, ast.Assign) and self_attr(st.targets[0]) == 'fovea_mask':
            v = ast.unparse(st.value)
            if v.startswith('torch.zeros('):
                env['self.fovea_mask'] = sci(0)
                seen_zero = True
            else:
                env['self.fovea_mask'] = tr(st.value, env)
        elif isinstance(st, ast.For) and ast.unparse(st.iter) == 'range(self.fovea_mask.size(1))':
            for b in st.body:
                if not (isinstance(b, ast.Assign) and isinstance(b.targets[0], ast.Subscript) and self_attr(b.targets[0].value) == 'fovea_mask'):
                    raise TranslateError('fovea mask: statement %s in the channel loop' % ast.unparse(b))
                idx = b.targets[0].slice
                elts = idx.elts if isinstance(idx, ast.Tuple) else [idx]
                if len(elts) != 3 or ast.unparse(elts[0]) != '0' or ast.unparse(elts[1]) != st.target.id:
                    raise TranslateError('fovea mask: index %s' % ast.unparse(idx))
                if isinstance(elts[2], ast.Constant) and elts[2].value is Ellipsis:
                    env['self.fovea_mask'] = tr(b.value, env)
                elif isinstance(elts[2], ast.Compare) and len(elts[2].ops) == 1 and type(elts[2].ops[0]) in (ast.Lt, ast.LtE, ast.Gt, ast.GtE):
                    c = elts[2]
                    sym = {ast.Lt: '<', ast.LtE: '≤', ast.Gt: '>', ast.GtE: '≥'}[type(c.ops[0])]
                    env['self.fovea_mask'] = '(if %s %s %s then %s else %s)' % (tr(c.left, env), sym, tr(c.comparators[0], env), tr(b.value, env), env['self.fovea_mask'])
                else:
                    raise TranslateError('fovea mask: index %s' % ast.unparse(idx))
        elif isinstance(st, ast.Assign) and isinstance(st.targets[0], ast.Name) and st.targets[0].id == 'periphery_mask':
            peri = tr(st.value, {'self.fovea_mask': '(foveaMaskPixelG lod lodMax)'})
            break
    if not seen_zero or peri is None or 'self.fovea_mask' not in env:
        raise TranslateError('fovea mask: the statements that build the mask were not found')
    return ['/-- `self.fovea_mask` of `MetamericLoss.calc_statsmaps` at a pixel whose level of detail (`self.blurs[0].lod_map`) is `lod`, `lodMax` being '
            '`torch.max` of that map (every channel gets the same value) -/',
            'def foveaMaskPixelG {α : Type} [Num α] (lod lodMax : α) : α :=', '  %s' % env['self.fovea_mask'],
            '/-- `periphery_mask` at the same pixel -/',
            'def peripheryMaskPixelG {α : Type} [Num α] (lod lodMax : α) : α :=', '  %s' % peri, '']


# ------------------------------------------------------------------------------------------------------------------ the file
def generate_once(registry_out=None):
    registry = {}
    sections = []
    effects = {}
    for spec in SPECS:
        ci = ClassInfo(spec, registry)
        registry[ci.name] = ci
        body = []
        for m, s in spec['summaries'].items():
            lines, ret = summarise(ci, m, s)
            effects[(ci.name, m)] = ret
            body += lines + ['']
        for m in spec['methods']:
            mt = MethodTranslator(ci, m, effects)
            head, lines = mt.translate()
            effects[(ci.name, m)] = mt.ret_kind
            fn = find_function(ci.tree, m, ci.name)
            body += ['/-- `%s.%s(%s)` (%s), statement by statement%s -/' % (
                ci.name, m, ', '.join(a.arg for a in fn.args.args[1:]), spec['file'],
                '; returns (object after the call, value, attributes stored in order)' if mt.writes else ''), head] + lines + ['']
        sections.append((ci, body))
    if registry_out is not None:
        registry_out.update(registry)
    return registry, sections


def generate():
    out = ['import OdakModel.StepPrelude',
           '/- GENERATED by harness/translate/statemachines.py from the source under /repo – do not edit. -/',
           'namespace Odak.Gen', '']
    try:
        _trees.clear()
        registry, sections = generate_once()
        if any(ci.guessed for ci in registry.values()):
            # kinds of attributes discovered on the first pass: translate again with them
            known = {ci.name: dict(ci.state) for ci in registry.values()}
            for name, st in known.items():
                for a, k in st.items():
                    if k is not None:
                        ATTR_KINDS.setdefault(a, k)
            registry, sections = generate_once()
        mask = fovea_mask_formula()
    except CATCH as e:
        return '', ['state machines: %s' % e]
    # configuration structures first (the uninterpreted numerics mention them)
    for ci, _ in sections:
        if ci.cfg:
            out.append('/-- attributes of `%s` assigned in `__init__` from constructor arguments (%s) -/' % (ci.name, ci.spec['file']))
            out.append('structure %sCfg (R : Type) where' % ci.name)
            out += ['  %s : %s' % (a, lty(k)) for a, k in ci.cfg.items()]
            out.append('')
    out.append('/-- the numerics the state machines do not interpret -/')
    out.append('structure GazeOps (%s : Type) where' % TP)
    for name, ty, doc in OPS:
        out.append('  /-- %s -/' % doc)
        out.append('  %s : %s' % (name, ty))
    out.append('')
    out.append('variable {%s : Type} [DecidableEq G] [DecidableEq R] [DecidableEq Shape]' % TP)
    out.append('')
    for ci, body in sections:
        fields = [(a, k) for a, k in ci.state.items()]
        for a, k in fields:
            if k is None:
                return '', ['state machines: kind of attribute %s.%s is unknown' % (ci.name, a)]
        out.append('/-- the attributes of a `%s` object that the modelled methods store or test (`none` = unset or None)%s -/'
                   % (ci.name, '; `sub` = %s, touched only inside the summarised methods' % sorted(ci.sub_attrs) if ci.has_sub else ''))
        out.append('structure %sSelf (%s : Type) where' % (ci.name, TP))
        for a, k in fields:
            out.append('  %s : Option %s' % (a, lty(k)))
        if ci.has_sub:
            out.append('  sub : Sub')
        out.append('')
        inits = []
        for a, k in fields:
            if isinstance(k, tuple) and k[0] == 'obj' and a in ci.inner and a not in ci.init_none:
                inits.append('%s := some %sSelf.init' % (a, k[1]) if not ci.registry[k[1]].has_sub else None)
            else:
                inits.append('%s := none' % a)
        if ci.has_sub or any(i is None for i in inits):
            subs = ' (sub : Sub)'
            # a sub-object with a summarised sub-state needs that state too
            inits2 = []
            for (a, k), i in zip(fields, inits):
                inits2.append(i if i is not None else '%s := some (%sSelf.init sub)' % (a, k[1]))
            if ci.has_sub:
                inits2.append('sub := sub')
            out.append('/-- the object `__init__` leaves -/')
            out.append('def %sSelf.init%s : %sSelf %s := { %s }' % (ci.name, subs, ci.name, TP, ', '.join(inits2)))
        else:
            out.append('/-- the object `__init__` leaves -/')
            out.append('def %sSelf.init : %sSelf %s := { %s }' % (ci.name, ci.name, TP, ', '.join(inits)))
        out.append('')
        out += body
    out += mask
    out += ['end Odak.Gen', '']
    return '\n'.join(out), []


if __name__ == '__main__':
    t, e = generate()
    print(t)
    print(e)
