"""Regenerates Generated/Holograms.lean: the BODIES of the hologram routines of odak that are built around `propagate_beam`,

    odak/learn/wave/classical.py   (torch)  shift_w_double_phase (with and without the optional blur), gerchberg_saxton
    odak/wave/classical.py         (NumPy)  gerchberg_saxton, gerchberg_saxton_3d (`target_type = 'no constraint'`)

translated statement by statement (odak is never executed) into functions over the model's propagation primitive: every call
`propagate_beam(u, k, z, dx, wavelength, propagation_type)` whose settings are the routine's OWN `k = wavenumber(wavelength)`, pixel
pitch, wavelength and propagation type becomes `prop z R C u` (`R x C` = the shape of `u`, `z` = the signed distance expression as
written in the source: `distance`, `-distance`, `depth_shift`, `distances[i]`); any other setting is a translator error.  Everything
BETWEEN the calls is in the generated text: `set_amplitude` with the target, the phase-only projection
`generate_complex_field(1, calculate_phase(.))`, `zero_pad` / `crop_center` / the `center ± orig_shape` windows (through the
regenerated index expressions of Generated/IndexExprs.lean), the global phase factor of the depth shift, the optional blur
(`conv2d(padding = 'same')` with the regenerated Gaussian), the amplitude normalisation by the maximum, the `arccos` offsets and the
four strided stores of the checkerboard interleave.

A `for _ in range(n)` loop becomes `Fld.iterate`: the variables that are read before they are written in the body are the state;
when a variable that is live after the loop is only assigned INSIDE the loop (`hologram` of torch `gerchberg_saxton`), the last
pass is written out separately and the definition describes `n ≥ 1` passes (for `n = 0` Python raises UnboundLocalError).

An array is `Holo.Fld β` (its element function; OdakModel/HoloPrelude.lean) and its shape is tracked by the translator as Lean `Nat`
terms.  `if` statements are resolved from the job's table of tests (`kernel_length > 0 and sigma > 0`, the type of a `None`
default); a test that is not in the table is a translator error.

Tie theorems: lean/OdakProofs/Lemmas/GenHolograms.lean; executable tie: harness/props/genholograms.py."""
import ast
import os
import re
from .pyexpr import TranslateError, find_function
from .constants import sci

REPO = os.environ.get('ODAK_REPO', '/repo')
FILE = 'Holograms.lean'
TC, NC, NI = 'odak/learn/wave/classical.py', 'odak/wave/classical.py', 'odak/wave/__init__.py'

LEAN_TYPE = {'cf': 'Fld (Cx α)', 'rf': 'Fld α', 'real': 'α', 'cx': 'Cx α', 'cstack': '(Nat → Fld (Cx α))', 'rstack': '(Nat → Fld α)'}
POINTWISE = {      # python name -> (lean name torch, lean name numpy)
    'set_amplitude': ('setAmplitudeT', 'setAmplitudeN'), 'calculate_amplitude': ('calcAmplitudeT', 'calcAmplitudeN'),
    'calculate_phase': ('calcPhaseT', 'calcPhaseN'), 'generate_complex_field': ('genFieldT', 'genFieldN'),
    'wavenumber': ('wavenumberT', 'wavenumberN'), 'add_phase': (None, 'addPhaseN'),
}
ADD_RANDOM_PHASE = ['random_phase = np.pi * np.random.random(field.shape)', 'new_field = add_phase(field, random_phase)', 'return new_field']


class V:
    def __init__(self, kind, term=None, shape=None, lead=0, const=None, items=None, origin=None, extra=None):
        self.kind, self.term, self.shape, self.lead, self.const, self.items, self.origin, self.extra = \
            kind, term, shape, lead, const, items, origin, extra

    def re(self, term):
        return V(self.kind, term, self.shape, self.lead, self.const, self.items, None, self.extra)


class Returned(Exception):
    def __init__(self, value):
        self.value = value


def py(c):
    return V('py', const=c)


def names_loaded(node):
    return set(n.id for n in ast.walk(node) if isinstance(n, ast.Name) and isinstance(n.ctx, ast.Load))


def assigned_names(stmts):
    out = []
    for st in stmts:
        for n in ast.walk(st):
            if isinstance(n, (ast.Assign, ast.AugAssign)):
                for t in (n.targets if isinstance(n, ast.Assign) else [n.target]):
                    while isinstance(t, ast.Subscript):
                        t = t.value
                    if isinstance(t, ast.Name) and t.id not in out:
                        out.append(t.id)
                    if isinstance(t, ast.Tuple):
                        for x in t.elts:
                            if isinstance(x, ast.Name) and x.id not in out:
                                out.append(x.id)
    return out


def read_before_write(stmts, candidates, tests=None):
    """the candidates a block reads before it has certainly assigned them by a plain `name = ...` (an assignment inside a nested loop or
    inside one arm of an `if` is not certain)"""
    out = []

    def note(loads, killed):
        for n in sorted(loads):
            if n in candidates and n not in killed and n not in out:
                out.append(n)

    def visit(stmts, killed):
        for st in stmts:
            if isinstance(st, ast.For):
                note(names_loaded(st.iter), killed)
                inner = set(killed)
                if isinstance(st.target, ast.Name):
                    inner.add(st.target.id)
                visit(st.body, inner)
                continue
            if isinstance(st, ast.If) and tests is not None and ast.unparse(st.test) in tests:
                visit(st.body if tests[ast.unparse(st.test)] else st.orelse, killed)       # a test the job resolves: only that arm runs
                continue
            if isinstance(st, ast.If):
                note(names_loaded(st.test), killed)
                k1, k2 = set(killed), set(killed)
                visit(st.body, k1)
                visit(st.orelse, k2)
                killed |= (k1 & k2)
                continue
            if isinstance(st, ast.Assign):
                loads = names_loaded(st.value)
                for t in st.targets:
                    if not isinstance(t, ast.Name):
                        loads |= names_loaded(t)
                        b = t
                        while isinstance(b, ast.Subscript):
                            b = b.value
                        if isinstance(b, ast.Name):
                            loads.add(b.id)
                note(loads, killed)
                for t in st.targets:
                    if isinstance(t, ast.Name):
                        killed.add(t.id)
            else:
                note(names_loaded(st), killed)
    visit(list(stmts), set())
    return out


class Interp:
    def __init__(self, job, env, counter=None, indent='  '):
        self.job, self.env = job, dict(env)
        self.api = job.api
        self.counter = counter if counter is not None else [0]
        self.lets = []          # (name, type, term)
        self.indent = indent
        self.notes = []

    # ------------------------------------------------------------------------------------------ helpers
    def fresh(self, base):
        self.counter[0] += 1
        return '%s_%d' % (re.sub(r'[^A-Za-z0-9_]', '_', base), self.counter[0])

    def bind(self, name, v):
        if v.kind in LEAN_TYPE and v.term is not None and not re.fullmatch(r"[A-Za-z_][A-Za-z0-9_']*", v.term):
            n = self.fresh(name)
            self.lets.append((n, LEAN_TYPE[v.kind], v.term))
            r = v.re(n)
            r.origin = v.origin
            return r
        return v

    def pw(self, pyname):
        t = POINTWISE[pyname][0 if self.api == 'torch' else 1]
        if t is None:
            raise TranslateError('%s is not available in the %s API' % (pyname, self.api))
        return t

    def num(self, v, what):
        """real scalar term"""
        if v.kind == 'real':
            return v.term
        if v.kind == 'py' and isinstance(v.const, (int, float)) and not isinstance(v.const, bool):
            return sci(v.const)
        if v.kind == 'nat':
            return '(Num.ofNat %s)' % v.term
        raise TranslateError('%s is not a real number' % what)

    def nat(self, v, what):
        if v.kind == 'nat':
            return v.term
        if v.kind == 'py' and isinstance(v.const, int) and not isinstance(v.const, bool) and v.const >= 0:
            return str(v.const)
        raise TranslateError('%s is not a natural number' % what)

    def int_(self, v, what):
        if v.kind == 'int':
            return v.term
        if v.kind == 'py' and isinstance(v.const, int) and not isinstance(v.const, bool) and v.const < 0:
            return '(%d : Int)' % v.const
        return '(%s : Int)' % self.par(self.nat(v, what))

    @staticmethod
    def par(t):
        return t if re.fullmatch(r"[A-Za-z0-9_'.]+", t) or (t.startswith('(') and t.endswith(')')) else '(' + t + ')'

    def same_shape(self, a, b, what):
        if a.shape != b.shape:
            self.notes.append('%s combines arrays whose shapes are written differently: %s x %s and %s x %s' % ((what,) + a.shape + b.shape))

    def field(self, v, what, kinds=('cf', 'rf')):
        if v.kind not in kinds:
            raise TranslateError('%s is not %s' % (what, ' / '.join({'cf': 'a complex array', 'rf': 'a real array'}[k] for k in kinds)))
        return v

    # ------------------------------------------------------------------------------------------ expressions
    def ev(self, node):
        src = ast.unparse(node)
        if isinstance(node, ast.Constant):
            return py(node.value)
        if isinstance(node, ast.Name):
            if node.id in self.env:
                return self.env[node.id]
            raise TranslateError('unknown name ' + node.id)
        if isinstance(node, ast.Attribute):
            if src in ('torch.pi', 'np.pi', 'math.pi', 'numpy.pi'):
                return V('real', 'Num.pi')
            base = node.value
            if isinstance(base, ast.Name) and base.id in ('torch', 'np', 'numpy', 'math'):
                return V('op')
            b = self.ev(base)
            if node.attr == 'shape' and b.kind in ('cf', 'rf'):
                if b.lead:
                    raise TranslateError('shape of an array with added leading axes: ' + src)
                return V('list', items=[V('nat', b.shape[0]), V('nat', b.shape[1])])
            if node.attr in ('device', 'dtype'):
                return V('op')
            raise TranslateError('unsupported attribute ' + src)
        if isinstance(node, (ast.List, ast.Tuple)):
            return V('list', items=[self.ev(x) for x in node.elts])
        if isinstance(node, ast.UnaryOp) and isinstance(node.op, ast.USub):
            a = self.ev(node.operand)
            if a.kind == 'py' and isinstance(a.const, (int, float)):
                return py(-a.const)
            if a.kind == 'real':
                return V('real', '(-%s)' % a.term)
            raise TranslateError('unsupported negation ' + src)
        if isinstance(node, ast.BinOp):
            return self.binop(node, src)
        if isinstance(node, ast.Subscript):
            return self.subscript(node, src)
        if isinstance(node, ast.Call):
            return self.call(node, src)
        if isinstance(node, ast.Compare) or isinstance(node, ast.BoolOp):
            return self.test(node)
        raise TranslateError('unsupported expression ' + src)

    def test(self, node):
        src = ast.unparse(node)
        if src in self.job.tests:
            return py(bool(self.job.tests[src]))
        raise TranslateError('the test `%s` is not one the translator was written for' % src)

    def binop(self, node, src):
        ops = {ast.Add: '+', ast.Sub: '-', ast.Mult: '*', ast.Div: '/'}
        if type(node.op) not in ops:
            raise TranslateError('unsupported operator in ' + src)
        o = ops[type(node.op)]
        # a + 1j * b
        if o == '+' and isinstance(node.right, ast.BinOp) and isinstance(node.right.op, ast.Mult) and \
                isinstance(node.right.left, ast.Constant) and node.right.left.value == 1j:
            a, b = self.ev(node.left), self.ev(node.right.right)
            if a.kind == 'real' and b.kind == 'real':
                return V('cx', '(⟨%s, %s⟩ : Cx α)' % (a.term, b.term))
            raise TranslateError('unsupported complex number ' + src)
        a, b = self.ev(node.left), self.ev(node.right)
        isnum = lambda v: v.kind == 'py' and isinstance(v.const, (int, float)) and not isinstance(v.const, bool)
        if isnum(a) and isnum(b):
            return py({'+': a.const + b.const, '-': a.const - b.const, '*': a.const * b.const}[o] if o != '/' else a.const / b.const)
        natlike = lambda v: v.kind == 'nat' or (v.kind == 'py' and isinstance(v.const, int) and not isinstance(v.const, bool) and v.const >= 0)
        if natlike(a) and natlike(b) and o in ('+', '*'):
            return V('nat', '(%s %s %s)' % (self.nat(a, src), o, self.nat(b, src)))
        if (natlike(a) or a.kind == 'int') and (natlike(b) or b.kind == 'int') and o in ('+', '-'):
            return V('int', '(%s %s %s)' % (self.int_(a, src), o, self.int_(b, src)))
        if a.kind == 'nat' and isnum(b) and o == '/' and b.const == 2:
            return V('halfnat', a.term)
        if a.kind in ('real', 'py', 'nat') and b.kind in ('real', 'py', 'nat') and 'real' in (a.kind, b.kind):
            return V('real', '(%s %s %s)' % (self.num(a, src), o, self.num(b, src)))
        if a.kind in ('cf', 'rf') and a.kind == b.kind and o in ('+', '-', '*'):
            if a.lead != b.lead:
                raise TranslateError('arrays of different rank in ' + src)
            self.same_shape(a, b, src)
            return V(a.kind, '(Fld.zip (fun x y => x %s y) %s %s)' % (o, a.term, b.term), a.shape, a.lead)
        if a.kind == 'cf' and b.kind == 'cx' and o == '*':
            return V('cf', '(Fld.map (fun x => x * %s) %s)' % (b.term, a.term), a.shape, a.lead)
        if a.kind == 'rf' and b.kind in ('real', 'py'):
            return V('rf', '(Fld.map (fun x => x %s %s) %s)' % (o, self.num(b, src), a.term), a.shape, a.lead)
        if b.kind == 'rf' and a.kind in ('real', 'py') and o in ('+', '*'):
            return V('rf', '(Fld.map (fun x => %s %s x) %s)' % (self.num(a, src), o, b.term), b.shape, b.lead)
        raise TranslateError('unsupported arithmetic ' + src)

    def slice_items(self, sl):
        items = list(sl.elts) if isinstance(sl, ast.Tuple) else [sl]
        return items

    def subscript(self, node, src):
        base = self.ev(node.value)
        if base.kind == 'list':
            i = self.ev(node.slice)
            if i.kind == 'py' and isinstance(i.const, int) and -len(base.items) <= i.const < len(base.items):
                return base.items[i.const]
            if i.kind == 'nat' and base.extra == 'reals':
                return V('real', '(%s %s)' % (base.term, i.term))
            raise TranslateError('unsupported index ' + src)
        if base.kind in ('cstack', 'rstack'):
            i = self.ev(node.slice)
            return V(base.kind[0] + 'f', '(%s %s)' % (base.term, self.nat(i, src)), base.shape)
        if base.kind in ('cf', 'rf'):
            if base.lead:
                raise TranslateError('slice of an array with added leading axes: ' + src)
            kind, args, shape = self.slice_spec(node.slice, base, src)
            zero = '0'
            if kind == 'strided':
                return V(base.kind, '(Fld.strided %s %s)' % (' '.join(args), base.term), shape)
            return V(base.kind, '(Fld.window %s %s %s %s %s)' % (base.shape[0], base.shape[1], ' '.join(args), zero, base.term), shape)
        raise TranslateError('unsupported subscript ' + src)

    def slice_spec(self, sl, base, src):
        """-> ('strided', [r0 s0 r1 s1], shape) | ('window', [lo0 hi0 lo1 hi1], shape)"""
        items = self.slice_items(sl)
        if len(items) != 2 or not all(isinstance(x, ast.Slice) for x in items):
            raise TranslateError('unsupported slice ' + src)
        if all(x.step is not None for x in items):
            args, shape = [], []
            for x, dim in zip(items, base.shape):
                if x.upper is not None or x.lower is None:
                    raise TranslateError('unsupported strided slice ' + src)
                lo, st = self.ev(x.lower), self.ev(x.step)
                r, s = self.nat(lo, src), self.nat(st, src)
                if s == '0':
                    raise TranslateError('zero step in ' + src)
                args += [r, s]
                shape.append('((%s - %s + (%s - 1)) / %s)' % (dim, r, s, s))
            return 'strided', args, tuple(shape)
        if all(x.step is None and x.lower is not None and x.upper is not None for x in items):
            args, shape = [], []
            for x, dim in zip(items, base.shape):
                lo, hi = self.int_(self.ev(x.lower), src), self.int_(self.ev(x.upper), src)
                args += [lo, hi]
                shape.append('(Fld.windowLen %s %s %s)' % (dim, lo, hi))
            return 'window', args, tuple(shape)
        raise TranslateError('unsupported slice ' + src)

    def call(self, node, src):
        f = ast.unparse(node.func)
        kws = {k.arg: k.value for k in node.keywords}
        a = node.args
        # ---- methods that do not change the values
        if isinstance(node.func, ast.Attribute) and node.func.attr in ('to', 'astype', 'clone', 'detach', 'copy', 'float', 'double'):
            return self.ev(node.func.value)
        if isinstance(node.func, ast.Attribute) and node.func.attr in ('unsqueeze', 'squeeze') and len(a) == 1 and not kws:
            v, ax = self.ev(node.func.value), self.ev(a[0])
            if not (ax.kind == 'py' and ax.const == 0) or v.kind not in ('cf', 'rf', 'kern'):
                raise TranslateError('unsupported ' + src)
            lead = v.lead + (1 if node.func.attr == 'unsqueeze' else -1)
            if lead < 0:
                raise TranslateError('squeeze of an array without a leading axis of size one: ' + src)
            r = v.re(v.term)
            r.lead = lead
            return r
        if f == 'type' and len(a) == 1:
            v = self.ev(a[0])
            return py('NoneType' if (v.kind == 'py' and v.const is None) else v.kind)
        if f in ('tqdm',) and len(a) == 1:
            return self.ev(a[0])
        if f == 'range' and len(a) == 1 and not kws:
            return V('range', self.nat(self.ev(a[0]), src))
        if f == 'len' and len(a) == 1:
            v = self.ev(a[0])
            if v.kind == 'list' and v.extra == 'reals':
                return V('nat', v.const)
            if v.kind == 'list':
                return py(len(v.items))
            raise TranslateError('unsupported ' + src)
        if f == 'int' and len(a) == 1:
            v = self.ev(a[0])
            if v.kind == 'halfnat':
                return V('nat', '(%s / 2)' % v.term)
            if v.kind in ('nat',):
                return v
            raise TranslateError('unsupported ' + src)
        if f in ('np.asarray', 'np.array', 'np.copy', 'torch.tensor') and len(a) == 1:
            v = self.ev(a[0])
            if f == 'torch.tensor' and v.kind == 'list' and len(v.items) == 1 and v.items[0].kind in ('real',):
                return v.items[0]             # a one-element tensor is used as a scalar
            if v.kind in ('cf', 'rf', 'cstack', 'rstack'):
                return v
            raise TranslateError('unsupported ' + src)
        # ---- scalar / element-wise functions
        if f in ('torch.cos', 'np.cos', 'torch.sin', 'np.sin', 'torch.arccos', 'np.arccos', 'torch.acos', 'np.abs', 'torch.abs') and len(a) == 1 and not kws:
            fn = {'cos': 'Num.cos', 'sin': 'Num.sin', 'arccos': 'Num.acos', 'acos': 'Num.acos', 'abs': 'Num.abs'}[f.split('.')[1]]
            v = self.ev(a[0])
            if v.kind == 'real':
                return V('real', '(%s %s)' % (fn, v.term))
            if v.kind == 'rf':
                return V('rf', '(Fld.map %s %s)' % (fn, v.term), v.shape, v.lead)
            raise TranslateError('unsupported ' + src)
        if f in ('torch.real', 'torch.imag', 'np.real', 'np.imag') and len(a) == 1 and not kws:
            v = self.field(self.ev(a[0]), src, ('cf',))
            return V('rf', '(Fld.map (fun z => z.%s) %s)' % ('re' if f.endswith('real') else 'im', v.term), v.shape, v.lead)
        if f == 'torch.complex' and len(a) == 2 and not kws:
            x, y = self.field(self.ev(a[0]), src, ('rf',)), self.field(self.ev(a[1]), src, ('rf',))
            if x.lead != y.lead:
                raise TranslateError('arrays of different rank in ' + src)
            self.same_shape(x, y, src)
            return V('cf', '(Fld.zip (fun x y => (⟨x, y⟩ : Cx α)) %s %s)' % (x.term, y.term), x.shape, x.lead)
        if f in ('torch.ones_like', 'torch.zeros_like', 'np.ones_like', 'np.zeros_like') and len(a) == 1 and not kws:
            v = self.field(self.ev(a[0]), src)
            return V('rf', '(Fld.const (Num.ofNat %d))' % (1 if 'ones' in f else 0), v.shape)
        if f in ('np.ones', 'np.zeros', 'torch.ones', 'torch.zeros') and len(a) == 1:
            sh = self.ev(a[0])
            if set(kws) - {'dtype', 'device'}:
                raise TranslateError('unsupported ' + src)
            if sh.kind == 'list' and len(sh.items) == 2:
                return V('rf', '(Fld.const (Num.ofNat %d))' % (1 if 'ones' in f else 0), (self.nat(sh.items[0], src), self.nat(sh.items[1], src)))
            if sh.kind == 'list' and len(sh.items) == 3 and 'zeros' in f and 'complex' in ast.unparse(kws.get('dtype', ast.Constant(''))):
                return V('cstack', '(fun _ => Fld.const 0)', (self.nat(sh.items[1], src), self.nat(sh.items[2], src)), const=self.nat(sh.items[0], src))
            raise TranslateError('unsupported ' + src)
        if f in ('torch.amax', 'torch.mean', 'np.mean', 'np.amax') and not kws and len(a) in (1, 2):
            v = self.field(self.ev(a[0]), src, ('rf',))
            if v.lead:
                raise TranslateError('reduction of an array with added leading axes: ' + src)
            if len(a) == 2:
                ax = self.ev(a[1])
                if not (ax.kind == 'list' and [x.const for x in ax.items] == [0, 1]):
                    raise TranslateError('unsupported reduction axes in ' + src)
            elif 'amax' in f:
                raise TranslateError('unsupported ' + src)
            return V('real', '(Fld.%s %s %s %s)' % ('gridMax' if 'amax' in f else 'gridMean', v.shape[0], v.shape[1], v.term))
        if f == 'np.sum' and len(a) == 1 and set(kws) == {'axis'} and self.ev(kws['axis']).const == 0:
            v = self.ev(a[0])
            if v.kind != 'cstack':
                raise TranslateError('unsupported ' + src)
            return V('cf', '(Fld.stackSum %s %s)' % (v.const, v.term), v.shape)
        # ---- functions of the source
        if f in ('calculate_amplitude', 'calculate_phase') and len(a) == 1 and not kws:
            v = self.ev(a[0])
            if v.kind == 'cstack':
                return V('rstack', '(fun i => Fld.map %s (%s i))' % (self.pw(f), v.term), v.shape, const=v.const)
            v = self.field(v, src, ('cf',))
            return V('rf', '(Fld.map %s %s)' % (self.pw(f), v.term), v.shape, v.lead)
        if f == 'set_amplitude' and len(a) == 2 and not kws:
            x, y = self.field(self.ev(a[0]), src, ('cf',)), self.field(self.ev(a[1]), src, ('cf',))
            self.same_shape(x, y, src)
            return V('cf', '(Fld.zip %s %s %s)' % (self.pw(f), x.term, y.term), x.shape)
        if f == 'generate_complex_field' and len(a) == 2 and not kws:
            x, y = self.ev(a[0]), self.ev(a[1])
            g = self.pw(f)
            if x.kind == 'rf' and y.kind == 'rf':
                self.same_shape(x, y, src)
                return V('cf', '(Fld.zip %s %s %s)' % (g, x.term, y.term), x.shape)
            if x.kind == 'rf':
                return V('cf', '(Fld.map (fun a => %s a %s) %s)' % (g, self.num(y, src), x.term), x.shape)
            if y.kind == 'rf':
                return V('cf', '(Fld.map (fun p => %s %s p) %s)' % (g, self.num(x, src), y.term), y.shape)
            raise TranslateError('unsupported ' + src)
        if f == 'add_phase' and len(a) == 2 and not kws:
            x, y = self.field(self.ev(a[0]), src, ('cf',)), self.field(self.ev(a[1]), src, ('rf',))
            self.same_shape(x, y, src)
            return V('cf', '(Fld.zip %s %s %s)' % (self.pw(f), x.term, y.term), x.shape)
        if f == 'add_random_phase' and len(a) == 1 and not kws:
            x = self.field(self.ev(a[0]), src, ('cf',))
            self.job.check_add_random_phase()
            self.job.uses.add('randomPhase')
            return V('cf', '(Fld.zip %s %s randomPhase)' % (self.pw('add_phase'), x.term), x.shape)
        if f == 'wavenumber' and len(a) == 1 and not kws:
            v = self.ev(a[0])
            if v.kind != 'real':
                raise TranslateError('unsupported ' + src)
            return V('real', '(%s %s)' % (self.pw(f), v.term), origin=('wavenumber', v.origin))
        if f == 'zero_pad' and len(a) == 1 and not kws:
            v = self.field(self.ev(a[0]), src)
            p = 'torch' if self.api == 'torch' else 'np'
            R, C = v.shape
            return V(v.kind, '(Fld.%sZeroPad %s %s 0 %s)' % (p, R, C, v.term),
                     ('(Fld.%sZeroPadRows %s %s)' % (p, R, C), '(Fld.%sZeroPadCols %s %s)' % (p, R, C)))
        if f == 'crop_center' and len(a) == 1 and not kws:
            v = self.field(self.ev(a[0]), src)
            p = 'torch' if self.api == 'torch' else 'np'
            R, C = v.shape
            return V(v.kind, '(Fld.%sCropCenter %s %s 0 %s)' % (p, R, C, v.term),
                     ('(Fld.%sCropCenterRows %s %s)' % (p, R, C), '(Fld.%sCropCenterCols %s %s)' % (p, R, C)))
        if f == 'propagate_beam':
            return self.propagate_beam(node, src)
        if f == 'generate_2d_gaussian' and len(a) == 2 and not kws:
            L, S = self.ev(a[0]), self.ev(a[1])
            if not (L.kind == 'list' and S.kind == 'list' and len(L.items) == 2 and len(S.items) == 2):
                raise TranslateError('unsupported ' + src)
            l0, l1 = (self.nat(x, src) for x in L.items)
            s0, s1 = (self.num(x, src) for x in S.items)
            return V('kern', '(gaussian2dT %s %s %s %s)' % (l0, l1, s0, s1), (l0, l1))
        if f == 'torch.nn.functional.conv2d' and len(a) == 2 and set(kws) == {'padding'} and self.ev(kws['padding']).const == 'same':
            x, k = self.ev(a[0]), self.ev(a[1])
            if x.kind != 'rf' or k.kind != 'kern' or x.lead != 2 or k.lead != 2:
                raise TranslateError('%s: a [1 x 1 x R x C] real image and a [1 x 1 x L x L] kernel are expected' % src)
            return V('rf', '(Fld.blurSame %s %s %s %s %s %s)' % (x.shape[0], x.shape[1], k.shape[0], k.shape[1], k.term, x.term), x.shape, 2)
        raise TranslateError('unsupported call ' + src)

    def propagate_beam(self, node, src):
        if node.keywords or len(node.args) != 6:
            raise TranslateError('%s: six positional arguments (field, k, distance, dx, wavelength, propagation_type) are expected' % src)
        u = self.field(self.ev(node.args[0]), src, ('cf',))
        if u.lead:
            raise TranslateError('propagation of an array with added leading axes: ' + src)
        k, z, dx, lam, pt = (self.ev(x) for x in node.args[1:])
        ok = (k.origin == ('wavenumber', ('param', 'wavelength')) and dx.origin == ('param', self.job.dx) and
              lam.origin == ('param', 'wavelength') and pt.origin == ('param', 'propagation_type'))
        if not ok:
            raise TranslateError('%s is not called with the settings (wavenumber(wavelength), %s, wavelength, propagation_type) of the routine' % (src, self.job.dx))
        return V('cf', '(prop %s %s %s %s)' % (self.par(self.num(z, src)), u.shape[0], u.shape[1], u.term), u.shape)

    # ------------------------------------------------------------------------------------------ statements
    def exec_block(self, stmts):
        stmts = list(stmts)
        for k, st in enumerate(stmts):
            if isinstance(st, ast.Expr) and isinstance(st.value, ast.Constant):
                continue
            if isinstance(st, ast.Return):
                raise Returned(self.ev(st.value))
            if isinstance(st, ast.If):
                t = self.ev(st.test)
                if t.kind != 'py' or not isinstance(t.const, bool):
                    raise TranslateError('the test `%s` is not static' % ast.unparse(st.test))
                return self.exec_block(list(st.body if t.const else st.orelse) + stmts[k + 1:])
            if isinstance(st, ast.For):
                self.exec_for(st, stmts[k + 1:])
                continue
            if isinstance(st, ast.Assign) and len(st.targets) == 1:
                t = st.targets[0]
                if isinstance(t, ast.Name):
                    v = self.ev(st.value)
                    self.env[t.id] = self.bind(t.id, v)
                    continue
                if isinstance(t, ast.Subscript) and isinstance(t.value, ast.Name):
                    self.store(t, st.value)
                    continue
            raise TranslateError('unsupported statement ' + ast.unparse(st)[:80])
        return None

    def store(self, t, value):
        src = ast.unparse(t)
        name = t.value.id
        base = self.ev(t.value)
        val = self.ev(value)
        if base.kind in ('cstack', 'rstack'):
            i = self.nat(self.ev(t.slice), src)
            v = self.field(val, src, (base.kind[0] + 'f',))
            self.env[name] = self.bind(name, V(base.kind, '(Fld.stackSet %s %s %s)' % (base.term, i, v.term), base.shape, const=base.const))
            return
        if base.kind not in ('cf', 'rf') or base.lead:
            raise TranslateError('unsupported store ' + src)
        v = self.field(val, src, (base.kind,))
        kind, args, shape = self.slice_spec(t.slice, base, src)
        if kind == 'strided':
            term = '(Fld.storeStrided %s %s %s)' % (' '.join(args), base.term, v.term)
        else:
            term = '(Fld.storeWindow %s %s %s %s %s)' % (base.shape[0], base.shape[1], ' '.join(args), base.term, v.term)
        self.env[name] = self.bind(name, V(base.kind, term, base.shape))

    def exec_for(self, st, rest):
        src = 'for %s in %s' % (ast.unparse(st.target), ast.unparse(st.iter))
        if st.orelse or not isinstance(st.target, ast.Name):
            raise TranslateError('unsupported loop ' + src)
        it = self.ev(st.iter)
        if it.kind != 'range':
            raise TranslateError('%s: only `range(n)` loops are modelled' % src)
        count = it.term
        loopvar = st.target.id
        uses_index = loopvar in names_loaded(ast.Module(body=st.body, type_ignores=[]))
        assigned = assigned_names(st.body)
        storable = lambda n: n in self.env and self.env[n].kind in LEAN_TYPE
        rbw = read_before_write(st.body, assigned, self.job.tests)
        for n in rbw:
            if n not in self.env:
                raise TranslateError('%s: %s is read in the first pass before anything assigns it' % (src, n))
        live = read_before_write(rest, assigned, self.job.tests)          # assigned in the loop and read after it before being assigned again
        carried = [n for n in assigned if n in rbw or (n in live and n in self.env)]
        for n in carried:
            if not storable(n):
                raise TranslateError('%s: the loop-carried %s is not an array or a number of the model' % (src, n))
        late = [n for n in live if n not in carried]      # only assigned inside the loop: needs at least one pass
        outs = carried + late
        if not carried and not late:
            raise TranslateError('%s: the loop has no effect the translator can see' % src)
        # ---- the body as a function of the carried variables (and of the pass number when the body reads it)
        sub = Interp(self.job, self.env, self.counter, self.indent + '    ')
        st_name = self.fresh('state')
        # a one-component state is written `T × Unit`: an array is a closure at run time, and a local function `Fld → Fld` would be compiled as a
        # function of the state AND the element indices, i.e. a whole pass would be re-run for every element that is read
        ty = lambda ns: ' × '.join([LEAN_TYPE[self.env[n].kind] for n in ns] + (['Unit'] if len(ns) == 1 else []))
        params = []
        for pos, n in enumerate(carried):
            v = self.env[n]
            p = self.fresh(n)
            proj = st_name + '.1' if len(carried) == 1 else st_name + ''.join(['.2'] * pos) + ('.1' if pos < len(carried) - 1 else '')
            params.append((p, LEAN_TYPE[v.kind], proj))
            sub.env[n] = v.re(p)
        if uses_index:
            idx = self.fresh(loopvar)
            sub.env[loopvar] = V('nat', idx)
        try:
            sub.exec_block(st.body)
        except Returned:
            raise TranslateError('return inside ' + src)
        self.notes += sub.notes
        for n in carried:
            a, b = self.env[n], sub.env[n]
            if a.kind != b.kind or a.lead != b.lead:
                raise TranslateError('%s: %s changes its kind in the loop' % (src, n))
            if a.shape != b.shape:      # written differently: equal only under a condition on the sizes (emitted as two definitions)
                self.job.shape_obligations.append((n, a.shape, b.shape))
        for n in late:
            if n not in sub.env or sub.env[n].kind not in LEAN_TYPE:
                raise TranslateError('%s: %s is not an array or a number of the model after the loop' % (src, n))
        out_ty = ' × '.join([LEAN_TYPE[sub.env[n].kind] for n in outs] + (['Unit'] if len(outs) == 1 else []))
        in_ty = ty(carried) if carried else 'Unit'
        ind = self.indent + '    '
        body = ['fun (%s : %s)%s =>' % (st_name, in_ty, ' (%s : Nat)' % idx if uses_index else '')]
        body += ['%slet %s : %s := %s' % (ind, p, t, proj) for p, t, proj in params]
        res = '(' + ', '.join([sub.env[n].term for n in outs] + (['()'] if len(outs) == 1 else [])) + ')'
        body += ['%slet %s : %s := %s' % (ind, n, t, e) for n, t, e in prune(sub.lets, [res])]
        body.append(ind + res)
        bname = self.fresh('pass')
        fty = '%s → %s%s' % (self.par(in_ty), 'Nat → ' if uses_index else '', self.par(out_ty))
        self.lets.append((bname, fty, '\n'.join(body)))

        def proj_of(tup, pos, n):
            return tup + '.1' if n == 1 else tup + ''.join(['.2'] * pos) + ('.1' if pos < n - 1 else '')
        init = '(' + ', '.join([self.env[n].term for n in carried] + (['()'] if len(carried) == 1 else [])) + ')'
        step_name = self.fresh('step')
        carry_of = lambda t: '(' + ', '.join([proj_of(t, outs.index(n), len(outs)) for n in carried] + (['()'] if len(carried) == 1 else [])) + ')'
        if not carried:
            raise TranslateError('%s: a loop without loop-carried variables is not modelled' % src)
        if uses_index:
            self.lets.append((step_name, '%s → Nat → %s' % (self.par(in_ty), self.par(in_ty)),
                              'fun s i => let o := (%s s i); %s' % (bname, carry_of('o'))))
            iterate = lambda n: '(Fld.iterateIdx %s %s %s)' % (step_name, n, init)
        else:
            self.lets.append((step_name, '%s → %s' % (self.par(in_ty), self.par(in_ty)), 'fun s => let o := (%s s); %s' % (bname, carry_of('o'))))
            iterate = lambda n: '(Fld.iterate %s %s %s)' % (step_name, n, init)
        if late:
            # the last pass written out: describes n ≥ 1 passes
            before = self.fresh('before_last_pass')
            self.lets.append((before, in_ty, iterate('(%s - 1)' % count)))
            last = self.fresh('last_pass')
            self.lets.append((last, out_ty, '(%s %s%s)' % (bname, before, ' (%s - 1)' % count if uses_index else '')))
            self.job.at_least_one_pass = True
            for pos, n in enumerate(outs):
                self.env[n] = self.bind(n, sub.env[n].re(proj_of(last, pos, len(outs))))
        else:
            after = self.fresh('after_loop')
            self.lets.append((after, in_ty, iterate(count)))
            for pos, n in enumerate(carried):
                self.env[n] = self.bind(n, self.env[n].re(proj_of(after, pos, len(carried))))
        for n in assigned:
            if n not in outs:
                self.env[n] = V('poison', const='assigned inside `%s` and not live after it' % src)
        self.env.pop(loopvar, None)


DIM_HEADS = ('Fld.torchZeroPadRows', 'Fld.torchZeroPadCols', 'Fld.torchCropCenterRows', 'Fld.torchCropCenterCols', 'Fld.npZeroPadRows',
             'Fld.npZeroPadCols', 'Fld.npCropCenterRows', 'Fld.npCropCenterCols', 'Fld.windowLen')


def paren_terms(text):
    """every parenthesised sub-term `( ... )` of the text"""
    out, stack = [], []
    for i, ch in enumerate(text):
        if ch == '(':
            stack.append(i)
        elif ch == ')' and stack:
            out.append(text[stack.pop():i + 1])
    return out


def hoist_dims(text):
    """the compound array dimensions `(Fld.…Rows …)` (closed terms over the size parameters) become lets at the top of the definition"""
    dims = sorted(set(t for t in paren_terms(text) if t[1:].split(' ')[0] in DIM_HEADS), key=lambda t: (len(t), t))
    names, lets = [], []
    for k, t in enumerate(dims):
        rhs = t
        for u, nm in reversed(names):
            rhs = rhs.replace(u, nm)
        nm = 'dim_%d' % (k + 1)
        lets.append('  let %s : Nat := %s' % (nm, rhs))
        names.append((t, nm))
    for u, nm in reversed(names):
        text = text.replace(u, nm)
    return lets, text


def prune(lets, roots):
    """the lets (in order) that the root terms depend on"""
    need, keep = ' '.join(roots), []
    for n, t, e in reversed(lets):
        if re.search(r"(?<![A-Za-z0-9_'])%s(?![A-Za-z0-9_'])" % re.escape(n), need):
            keep.append((n, t, e))
            need += ' ' + e
    return keep[::-1]


class Job:
    """params: [(python name, kind[, shape names])] for the parameters that appear in the generated definition; `fixed`: parameters left at
    a Python constant; `absorbed`: parameters that only travel into `prop` (checked at every `propagate_beam` call) or are unused;
    `tests`: {source text of an `if` test: its value}; `dx`: the name of the pixel-pitch parameter"""

    def __init__(self, lean, api, rel, py, signature, params, fixed, absorbed, tests, dx, result, doc):
        self.lean, self.api, self.rel, self.py, self.signature, self.params = lean, api, rel, py, signature, params
        self.fixed, self.absorbed, self.tests, self.dx, self.result, self.doc = fixed, absorbed, tests, dx, result, doc
        self.uses, self.at_least_one_pass, self.shape_obligations = set(), False, []

    def check_add_random_phase(self):
        fn = find_function(tree(NI), 'add_random_phase')
        body = [ast.unparse(s) for s in fn.body if not (isinstance(s, ast.Expr) and isinstance(s.value, ast.Constant))]
        if body != ADD_RANDOM_PHASE:
            raise TranslateError('add_random_phase (%s) is no longer `add_phase(field, pi * random(field.shape))`: %s' % (NI, body))


_trees = {}


def tree(rel):
    if rel not in _trees:
        with open(os.path.join(REPO, rel)) as f:
            _trees[rel] = ast.parse(f.read())
    return _trees[rel]


def run_job(job):
    fn = find_function(tree(job.rel), job.py)
    args = [a.arg for a in fn.args.args]
    if args != job.signature:
        raise TranslateError('%s: parameter list changed to %s' % (job.py, args))
    env, binders = {}, ['(prop : α → Nat → Nat → Fld (Cx α) → Fld (Cx α))']
    dims = []
    for p in job.params:
        name, kind = p[0], p[1]
        if kind in ('cf', 'rf'):
            R, C = p[2]
            for d in (R, C):
                if d not in dims:
                    dims.append(d)
            env[name] = V(kind, name, (R, C), origin=('param', name))
        elif kind in ('cstack', 'rstack'):
            cnt, R, C = p[2]
            for d in (cnt, R, C):
                if d not in dims:
                    dims.append(d)
            env[name] = V(kind, name, (R, C), const=cnt, origin=('param', name))
        elif kind == 'reals':
            env[name] = V('list', name, extra='reals', const=p[2], origin=('param', name))
        else:
            env[name] = V(kind, name, origin=('param', name))
    binders.insert(1, '(%s : Nat)' % ' '.join(dims))
    for p in job.params:
        name, kind = p[0], p[1]
        binders.append('(%s : %s)' % (name, {'nat': 'Nat', 'reals': 'Nat → α'}.get(kind) or LEAN_TYPE[kind]))
    for name, c in job.fixed.items():
        env[name] = py(c)
    for name in job.absorbed:
        env[name] = V('real' if name != 'propagation_type' else 'str', '_absorbed_' + name, origin=('param', name))
    missing = [a for a in args if a not in env]
    if missing:
        raise TranslateError('%s: parameters %s are not described' % (job.py, missing))
    # defaults of the fixed parameters must still be the constants the job assumes
    defaults = dict(zip(args[len(args) - len(fn.args.defaults):], fn.args.defaults))
    for name, c in job.fixed.items():
        d = defaults.get(name)
        if not (isinstance(d, ast.Constant) and d.value == c and type(d.value) is type(c)):
            raise TranslateError('%s: the default of %s is no longer %r' % (job.py, name, c))
    it = Interp(job, env)
    try:
        it.exec_block(fn.body)
        raise TranslateError('%s: no return statement' % job.py)
    except Returned as r:
        val = r.value
    kinds = job.result
    vals = val.items if val.kind == 'list' else [val]
    if [v.kind for v in vals] != kinds:
        raise TranslateError('%s returns %s, expected %s' % (job.py, [v.kind for v in vals], kinds))
    res = '(' + ', '.join(v.term for v in vals) + ')' if len(vals) > 1 else vals[0].term
    shapes = [v.shape for v in vals]
    lets = prune(it.lets, [res] + [d for s in shapes for d in s])
    text = ' '.join(e for _, _, e in lets) + ' ' + res
    if '_absorbed_' in text:
        raise TranslateError('%s: a setting of the propagation is used outside `propagate_beam`' % job.py)
    if 'randomPhase' in job.uses and re.search(r'\brandomPhase\b', text):
        binders.append('(randomPhase : Fld α)')
    doc = job.doc + ('; describes n ≥ 1 passes of the loop (for 0 passes Python raises UnboundLocalError)' if job.at_least_one_pass else '')
    body = ['  let %s : %s := %s' % l for l in lets] + ['  ' + res]
    dimlets, body = hoist_dims('\n'.join(body))
    lines = ['/-- %s -/' % doc,
             'def %s %s : %s :=' % (job.lean, ' '.join(binders), ' × '.join(LEAN_TYPE[k] for k in kinds))]
    out = ['\n'.join(lines + dimlets + [body])]
    for name, a, b in job.shape_obligations:
        cap = name[0].upper() + name[1:]
        out.append('/-- shape of the loop-carried `%s` of `%s` at the start of a pass and after it: the generated loop is the source\'s loop when the two\n'
                   '    agree (a theorem of Lemmas/GenHolograms.lean, under the condition on the sizes stated there) -/\n'
                   'def %s%sShapeBefore (%s : Nat) : Nat × Nat := (%s, %s)\ndef %s%sShapeAfter (%s : Nat) : Nat × Nat := (%s, %s)'
                   % (name, job.py, job.lean, cap, ' '.join(dims), a[0], a[1], job.lean, cap, ' '.join(dims), b[0], b[1]))
    for pos, (v, sh) in enumerate(zip(vals, shapes)):
        for ax, d in zip(('Rows', 'Cols'), sh):
            dl = prune(it.lets, [d])
            out.append('/-- number of %s of result %d of `%s` -/\ndef %s%s%d (%s : Nat) : Nat := %s'
                       % (ax.lower(), pos, job.py, job.lean, ax, pos, ' '.join(dims), d) if not dl else
                       '-- (the %s of result %d of %s depend on computed values: not emitted)' % (ax.lower(), pos, job.py))
    return '\n\n'.join(out), it.notes


def jobs():
    gs_sig = ['field', 'n_iterations', 'distance', 'dx', 'wavelength', 'slm_range', 'propagation_type']
    shift_sig = ['phase', 'depth_shift', 'pixel_pitch', 'wavelength', 'propagation_type', 'kernel_length', 'sigma', 'amplitude']
    shift_params = [('phase', 'rf', ('n', 'm')), ('depth_shift', 'real'), ('wavelength', 'real'), ('kernel_length', 'nat'), ('sigma', 'real')]
    none_test = lambda n: 'type(%s) == type(None)' % n
    return [
        Job('shiftWDoublePhaseT', 'torch', TC, 'shift_w_double_phase', shift_sig, shift_params, {'amplitude': None},
            ['pixel_pitch', 'propagation_type'], {none_test('amplitude'): True, 'kernel_length > 0 and sigma > 0': True}, 'pixel_pitch', ['rf'],
            '`shift_w_double_phase` (%s), `amplitude = None`, with the blur (`kernel_length > 0 and sigma > 0`)' % TC),
        Job('shiftWDoublePhaseNoBlurT', 'torch', TC, 'shift_w_double_phase', shift_sig, shift_params, {'amplitude': None},
            ['pixel_pitch', 'propagation_type'], {none_test('amplitude'): True, 'kernel_length > 0 and sigma > 0': False}, 'pixel_pitch', ['rf'],
            '`shift_w_double_phase` (%s), `amplitude = None`, without the blur (`kernel_length > 0 and sigma > 0` is false)' % TC),
        Job('gsTorchT', 'torch', TC, 'gerchberg_saxton', gs_sig, [('field', 'cf', ('n', 'm')), ('n_iterations', 'nat'), ('distance', 'real')], {},
            ['dx', 'wavelength', 'slm_range', 'propagation_type'], {}, 'dx', ['cf', 'cf'],
            'torch `gerchberg_saxton` (%s): (hologram, reconstruction)' % TC),
        Job('gsNumpyN', 'numpy', NC, 'gerchberg_saxton', gs_sig + ['initial_phase'],
            [('field', 'cf', ('n', 'm')), ('n_iterations', 'nat'), ('distance', 'real')], {'initial_phase': None},
            ['dx', 'wavelength', 'slm_range', 'propagation_type'], {none_test('initial_phase'): True}, 'dx', ['cf', 'cf'],
            'NumPy `gerchberg_saxton` (%s), `initial_phase = None`: (hologram, reconstruction); `randomPhase` is the array '
            '`np.pi * np.random.random(shape)` drawn by `add_random_phase`' % NC),
        Job('gs3dNumpyN', 'numpy', NC, 'gerchberg_saxton_3d',
            ['fields', 'n_iterations', 'distances', 'dx', 'wavelength', 'slm_range', 'propagation_type', 'initial_phase', 'target_type', 'coefficients'],
            [('fields', 'cstack', ('planes', 'n', 'm')), ('n_iterations', 'nat'), ('distances', 'reals', 'planes')],
            {'initial_phase': None, 'target_type': 'no constraint', 'coefficients': None},
            ['dx', 'wavelength', 'slm_range', 'propagation_type'],
            {none_test('initial_phase'): True, "target_type == 'double constraint'": False, "target_type == 'no constraint'": True}, 'dx', ['cf'],
            'NumPy `gerchberg_saxton_3d` (%s), `initial_phase = None`, `target_type = \'no constraint\'`: the returned hologram; `fields k` / '
            '`distances k` are the target field and the distance of plane `k < planes`' % NC),
    ]


def generate():
    _trees.clear()
    out = ['/- GENERATED by harness/translate/holograms.py from %s and %s – do not edit.' % (TC, NC),
           '   `prop z R C u` stands for `propagate_beam(u, k, z, dx, wavelength, propagation_type)` of an `R x C` field `u` with the routine\'s own',
           '   settings; arrays are `Holo.Fld` element functions (OdakModel/HoloPrelude.lean).  `…T` = torch, `…N` = NumPy. -/',
           'import OdakModel.HoloPrelude', 'namespace Odak.Gen', 'open Odak.Holo', 'variable {α : Type} [Num α]', '']
    errors, notes = [], []
    for job in jobs():
        try:
            text, nts = run_job(job)
            out += [text, '']
            notes += ['%s: %s' % (job.lean, n) for n in nts]
        except (TranslateError, OSError, SyntaxError, KeyError, IndexError, AttributeError, TypeError, ValueError) as e:
            errors.append('%s (%s in %s): %s' % (job.lean, job.py, job.rel, e))
    for n in sorted(set(notes)):
        out.append('-- note: ' + n)
    out += ['', 'end Odak.Gen', '']
    return '\n'.join(out), errors


if __name__ == '__main__':
    t, e = generate()
    print(t)
    for x in e:
        print('ERROR', x)
