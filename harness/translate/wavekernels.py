"""Regenerates Generated/WaveKernels.lean: the propagation kernels and the amplitude/phase utilities of

    odak/learn/wave/classical.py, odak/learn/wave/util.py                 (torch)
    odak/wave/classical.py, odak/wave/utils.py, odak/wave/__init__.py     (NumPy)

translated statement by statement by a small symbolic interpreter over the Python `ast` (odak is never executed).

Symbolic values (class V):
  'r'    real term of type α; `shape` = None (scalar) or (R, C) = names of the Lean `Nat`s that are the row / column counts of the
         2-D array the term is the element [i, j] of
  'i'    purely imaginary  `sign · 1j · term`  (term None = the bare unit), produced by the literal `1j` and products/quotients by reals
  'c'    complex term of type `Cx α`
  'b'    boolean mask (`Bool`)
  'ax'   1-D array `linspace(a, b, N)`: a template with a hole for the index; it becomes a row- or a column-dependent scalar at
         `meshgrid` (indexing='ij': first argument varies along rows; NumPy default 'xy': first argument varies along COLUMNS)
  'dim'  Python int that is a grid side (`nu`, `nv`, `aperture_samples[k]`): a Lean `Nat`
  'py'   Python constant (True / False / None / str), 'op' opaque (device, dtype), 'shape', 'tuple', 'list'
Anything outside the grammar raises TranslateError: the error is returned and `generate_all` keeps the accepted file."""
import ast
import os
from .pyexpr import TranslateError, find_function
from .constants import sci

REPO = os.environ.get('ODAK_REPO', '/repo')
FILE = 'WaveKernels.lean'

T_CLASSICAL = 'odak/learn/wave/classical.py'
T_UTIL = 'odak/learn/wave/util.py'
N_CLASSICAL = 'odak/wave/classical.py'
N_UTILS = 'odak/wave/utils.py'
N_INIT = 'odak/wave/__init__.py'

IDENT_METHODS = ('to', 'clone', 'detach', 'double', 'float', 'contiguous', 'cpu')
LIBS = ('torch', 'np', 'numpy', 'math')


class V:
    def __init__(self, kind, term=None, shape=None, sign=1, const=None, items=None, size=None):
        self.kind, self.term, self.shape, self.sign, self.const, self.items, self.size = kind, term, shape, sign, const, items, size

    def __repr__(self):
        return 'V(%s, %r, %r)' % (self.kind, self.term, self.shape)


def lit(x):
    """numeric literal -> Lean term; integer-valued floats are written like ints (`1.` and `1` are the same real number and the
    same IEEE double), every other float is the exact decimal of its repr (constants.sci)"""
    if isinstance(x, bool):
        raise TranslateError('boolean used as a number')
    if isinstance(x, float) and x == int(x) and abs(x) < 2 ** 53:
        x = int(x)
    return sci(x)


def join_shape(a, b, what):
    if a is None:
        return b
    if b is None or a == b:
        return a
    raise TranslateError('shape mismatch %s vs %s in %s' % (a, b, what))


class Module:
    """one parsed source file + resolution of bare function names through `from .x import y` / `import *`"""
    cache = {}

    def __init__(self, rel):
        self.rel = rel
        with open(os.path.join(REPO, rel)) as f:
            self.tree = ast.parse(f.read())

    @classmethod
    def get(cls, rel):
        if rel not in cls.cache:
            cls.cache[rel] = Module(rel)
        return cls.cache[rel]

    def defines(self, name):
        return any(isinstance(n, ast.FunctionDef) and n.name == name for n in self.tree.body)

    def resolve(self, name, seen=None):
        """(relative path, name) of the module-level function a bare `name(...)` refers to, or None"""
        seen = seen if seen is not None else set()
        if self.rel in seen:
            return None
        seen.add(self.rel)
        if self.defines(name):
            return (self.rel, name)
        for st in reversed(self.tree.body):
            if isinstance(st, ast.ImportFrom) and st.level >= 1 and st.module:
                if not any(a.name in (name, '*') for a in st.names):
                    continue
                base = os.path.dirname(self.rel)
                for _ in range(st.level - 1):
                    base = os.path.dirname(base)
                cands = [os.path.join(base, st.module.replace('.', '/') + '.py'),
                         os.path.join(base, st.module.replace('.', '/'), '__init__.py')]
                for c in cands:
                    if os.path.exists(os.path.join(REPO, c)):
                        try:
                            r = Module.get(c).resolve(name, seen)
                        except (OSError, SyntaxError):
                            r = None
                        if r is not None:
                            return r
        return None


class Interp:
    def __init__(self, module, fn, env, registry, stop_at_fft=False):
        self.module, self.fn, self.env, self.registry, self.stop_at_fft = module, fn, dict(env), registry, stop_at_fft
        self.lets = []                # lines of the body (already indented relative to the body)
        self.counter = 0
        self.indent = 0
        self.acc = None               # inside a loop: {python name: [contribution V]}

    # ------------------------------------------------------------------ helpers
    def emit(self, name, ty, term):
        self.lets.append('  ' * self.indent + 'let %s : %s := %s' % (name, ty, term))

    def fresh(self, base):
        self.counter += 1
        return '%s_%d' % (base, self.counter)

    def bind(self, base, v):
        """name an assigned value with a `let` (values that are not Lean terms are kept as they are)"""
        if v.kind == 'r':
            n = self.fresh(base)
            self.emit(n, 'α', v.term)
            return V('r', n, v.shape, const=v.const)
        if v.kind == 'i':
            if v.term is None:
                return v
            n = self.fresh(base)
            self.emit(n, 'α', v.term)
            return V('i', n, v.shape, sign=v.sign)
        if v.kind == 'c':
            if v.const == 0:
                return v
            n = self.fresh(base)
            self.emit(n, 'Cx α', v.term)
            return V('c', n, v.shape)
        if v.kind == 'b':
            n = self.fresh(base)
            self.emit(n, 'Bool', v.term)
            return V('b', n, v.shape)
        if v.kind == 'ax':
            return V('ax', v.term, size=v.size, const=self.fresh(base))     # const = the name it will get when laid along an axis
        return v

    def real(self, v, what):
        """coerce to a real term"""
        if v.kind == 'r':
            return v
        if v.kind == 'dim':
            return V('r', '(Num.ofNat %s)' % v.term)
        if v.kind == 'b':
            return V('r', '(if %s then (1 : α) else 0)' % v.term, v.shape)
        raise TranslateError('expected a real value in %s, got %s' % (what, v.kind))

    def cx(self, v, what):
        """coerce to a `Cx α` term"""
        if v.kind == 'c':
            return v
        if v.kind == 'i':
            im = '(1 : α)' if v.term is None else v.term
            if v.sign < 0:
                im = '(-%s)' % im
            return V('c', '(⟨(0 : α), %s⟩ : Cx α)' % im, v.shape)
        if v.kind in ('r', 'dim', 'b'):
            return V('c', '(Cx.ofReal %s)' % self.real(v, what).term, v.shape)
        raise TranslateError('expected a complex value in %s, got %s' % (what, v.kind))

    # ------------------------------------------------------------------ expressions
    def ev(self, node):
        src = ast.unparse(node)
        if isinstance(node, ast.Constant):
            c = node.value
            if isinstance(c, complex):
                if c.real != 0 or c.imag != 1:
                    raise TranslateError('unsupported complex literal ' + src)
                return V('i', None)
            if isinstance(c, bool) or c is None or isinstance(c, str):
                return V('py', const=c)
            if isinstance(c, (int, float)):
                return V('r', lit(c), const=c)
            raise TranslateError('unsupported constant ' + src)
        if isinstance(node, ast.Name):
            if node.id in self.env:
                return self.env[node.id]
            raise TranslateError('unknown name ' + node.id)
        if isinstance(node, ast.Attribute):
            if src in ('math.pi', 'torch.pi', 'np.pi', 'numpy.pi'):
                return V('r', 'Num.pi')
            if isinstance(node.value, ast.Name) and node.value.id in LIBS and node.value.id not in self.env:
                return V('op')                                   # torch.float32, torch.complex64, np.complex64 ...
            base = self.ev(node.value)
            if node.attr == 'shape' and base.kind in ('c', 'r') and base.shape is not None:
                return V('shape', items=[V('dim', base.shape[0]), V('dim', base.shape[1])])
            if node.attr in ('real', 'imag') and base.kind == 'c':
                return V('r', '%s.%s' % (base.term, 're' if node.attr == 'real' else 'im'), base.shape)
            raise TranslateError('unsupported attribute ' + src)
        if isinstance(node, (ast.Tuple, ast.List)):
            return V('tuple' if isinstance(node, ast.Tuple) else 'list', items=[self.ev(e) for e in node.elts])
        if isinstance(node, ast.Subscript):
            base = self.ev(node.value)
            if base.kind in ('tuple', 'list', 'shape') and isinstance(node.slice, ast.Constant) and isinstance(node.slice.value, int):
                try:
                    return base.items[node.slice.value]
                except IndexError:
                    raise TranslateError('index out of range ' + src)
            raise TranslateError('unsupported subscript ' + src)
        if isinstance(node, ast.UnaryOp) and isinstance(node.op, ast.USub):
            a = self.ev(node.operand)
            if a.kind == 'i':
                return V('i', a.term, a.shape, sign=-a.sign)
            if a.kind == 'c':
                return V('c', '(-%s)' % a.term, a.shape)
            a = self.real(a, src)
            return V('r', '(-%s)' % a.term, a.shape, const=(-a.const if a.const is not None else None))
        if isinstance(node, ast.BinOp):
            return self.binop(node, src)
        if isinstance(node, ast.Compare) and len(node.ops) == 1:
            a, b = self.real(self.ev(node.left), src), self.real(self.ev(node.comparators[0]), src)
            sh = join_shape(a.shape, b.shape, src)
            rel = {ast.Lt: '%s < %s', ast.LtE: '%s ≤ %s'}
            rev = {ast.Gt: '%s < %s', ast.GtE: '%s ≤ %s'}
            t = type(node.ops[0])
            if t in rel:
                return V('b', '(decide (%s))' % (rel[t] % (a.term, b.term)), sh)
            if t in rev:
                return V('b', '(decide (%s))' % (rev[t] % (b.term, a.term)), sh)
            raise TranslateError('unsupported comparison ' + src)
        if isinstance(node, ast.Call):
            return self.call(node, src)
        raise TranslateError('unsupported expression ' + src)

    def power(self, a, expo, src):
        if expo.kind != 'r' or expo.const is None:
            raise TranslateError('unsupported exponent in ' + src)
        a = self.real(a, src)
        e = expo.const
        if e == 2:
            return V('r', '(Num.sq %s)' % a.term, a.shape)
        if e == 0.5:
            return V('r', '(Num.sqrt %s)' % a.term, a.shape)
        if isinstance(e, int) and 1 <= e <= 4:
            return V('r', '(' + ' * '.join([a.term] * e) + ')', a.shape)
        raise TranslateError('unsupported exponent in ' + src)

    def binop(self, node, src):
        a, b = self.ev(node.left), self.ev(node.right)
        op = type(node.op)
        if op is ast.Pow:
            return self.power(a, b, src)
        if op is ast.BitAnd:
            if a.kind == 'b' and b.kind == 'b':
                return V('b', '(%s && %s)' % (a.term, b.term), join_shape(a.shape, b.shape, src))
            raise TranslateError('unsupported & in ' + src)
        sym = {ast.Add: '+', ast.Sub: '-', ast.Mult: '*', ast.Div: '/'}.get(op)
        if sym is None:
            raise TranslateError('unsupported operator in ' + src)
        # Python ints that stay ints: side * 1
        if a.kind == 'dim' and b.kind == 'r' and b.const == 1 and isinstance(b.const, int) and sym == '*':
            return a
        kinds = (a.kind, b.kind)
        realish = ('r', 'dim', 'b')
        if a.kind in realish and b.kind in realish:
            x, y = self.real(a, src), self.real(b, src)
            return V('r', '(%s %s %s)' % (x.term, sym, y.term), join_shape(x.shape, y.shape, src))
        sh = join_shape(a.shape, b.shape, src)
        if sym == '*':
            if a.kind == 'i' and b.kind in realish:
                y = self.real(b, src)
                return V('i', y.term if a.term is None else '(%s * %s)' % (a.term, y.term), sh, sign=a.sign)
            if a.kind in realish and b.kind == 'i':
                x = self.real(a, src)
                return V('i', x.term if b.term is None else '(%s * %s)' % (x.term, b.term), sh, sign=b.sign)
            if a.kind in realish and b.kind == 'c':
                return V('c', '(Cx.smul %s %s)' % (self.real(a, src).term, b.term), sh)
            if a.kind == 'c' and b.kind in realish:
                return V('c', '(Cx.smul %s %s)' % (self.real(b, src).term, a.term), sh)
            if 'c' in kinds and all(k in ('c', 'i') for k in kinds):
                return V('c', '(%s * %s)' % (self.cx(a, src).term, self.cx(b, src).term), sh)
        if sym == '/':
            if a.kind == 'i' and b.kind in realish:
                y = self.real(b, src)
                num = '(Num.ofNat 1)' if a.term is None else a.term
                return V('i', '(%s / %s)' % (num, y.term), sh, sign=a.sign)
            if a.kind in realish and b.kind == 'i':          # x / (±i t) = ∓i (x / t)
                x = self.real(a, src)
                return V('i', x.term if b.term is None else '(%s / %s)' % (x.term, b.term), sh, sign=-b.sign)
            if a.kind == 'c' and b.kind in realish:
                return V('c', '(Cx.divR %s %s)' % (a.term, self.real(b, src).term), sh)
        if sym in '+-':
            if a.kind in realish and b.kind == 'i':
                x = self.real(a, src)
                im = '(1 : α)' if b.term is None else b.term
                neg = (b.sign < 0) != (sym == '-')
                return V('c', '(⟨%s, %s⟩ : Cx α)' % (x.term, '(-%s)' % im if neg else im), sh)
            if a.kind == 'c' and b.kind in ('c', 'i'):
                if a.const == 0 and sym == '+':
                    return self.cx(b, src)
                return V('c', '(%s %s %s)' % (a.term, sym, self.cx(b, src).term), sh)
        raise TranslateError('unsupported operands (%s %s %s) in %s' % (a.kind, sym, b.kind, src))

    def arg(self, node, k, name=None, default=None):
        if k < len(node.args):
            return node.args[k]
        for kw in node.keywords:
            if kw.arg == name:
                return kw.value
        return default

    def call(self, node, src):
        f = ast.unparse(node.func)
        lib, _, short = f.rpartition('.')
        # ---- methods
        if isinstance(node.func, ast.Attribute) and not (isinstance(node.func.value, ast.Name) and node.func.value.id in LIBS
                                                          and node.func.value.id not in self.env):
            recv = self.ev(node.func.value)
            if node.func.attr in IDENT_METHODS:
                return recv
            if node.func.attr == 'atan2' and len(node.args) == 1:
                y, x = self.real(recv, src), self.real(self.ev(node.args[0]), src)
                return V('r', '(Num.atan2 %s %s)' % (y.term, x.term), join_shape(y.shape, x.shape, src))
            raise TranslateError('unsupported method ' + src)
        if lib in LIBS:
            if short in ('tensor', 'as_tensor', 'asarray', 'array'):
                v = self.ev(node.args[0])
                if v.kind == 'list' and len(v.items) == 1:
                    v = v.items[0]
                if v.kind in ('r', 'dim', 'c', 'b'):
                    return self.real(v, src) if v.kind == 'dim' else v
                raise TranslateError('unsupported tensor literal ' + src)
            if short == 'linspace':
                if any(k.arg not in ('steps', 'num', 'dtype', 'device') for k in node.keywords) or len(node.args) > 3:
                    raise TranslateError('unsupported linspace arguments in ' + src)
                lo, hi = self.real(self.ev(node.args[0]), src), self.real(self.ev(node.args[1]), src)
                cnt = self.ev(self.arg(node, 2, 'steps') or self.arg(node, 2, 'num'))
                if lo.shape is not None or hi.shape is not None:
                    raise TranslateError('array-valued linspace bound in ' + src)
                if cnt.kind != 'dim':
                    raise TranslateError('linspace count is not a grid side in ' + src)
                return V('ax', 'linspace %s %s %s {idx}' % (lo.term, hi.term, cnt.term), size=cnt.term)
            if short == 'meshgrid':
                if len(node.args) != 2 or any(k.arg != 'indexing' for k in node.keywords):
                    raise TranslateError('unsupported meshgrid ' + src)
                a, b = self.ev(node.args[0]), self.ev(node.args[1])
                if a.kind != 'ax' or b.kind != 'ax':
                    raise TranslateError('meshgrid of something that is not a linspace in ' + src)
                ind = [k.value for k in node.keywords if k.arg == 'indexing']
                mode = 'xy' if lib in ('np', 'numpy') else None      # torch's default warns and means 'ij'
                if ind:
                    if not isinstance(ind[0], ast.Constant) or ind[0].value not in ('ij', 'xy'):
                        raise TranslateError('unsupported indexing in ' + src)
                    mode = ind[0].value
                if mode is None:
                    mode = 'ij'
                if mode == 'ij':
                    shape = (a.size, b.size)
                    ia, ib = 'i', 'j'
                else:
                    shape = (b.size, a.size)
                    ia, ib = 'j', 'i'
                if self.grid is None:
                    self.grid = shape
                elif self.grid != shape:
                    raise TranslateError('two grids of different shapes %s, %s' % (self.grid, shape))
                outs = []
                for v, ix in ((a, ia), (b, ib)):
                    n = '%s_%s' % (v.const or self.fresh('axis'), ix)
                    self.emit(n, 'α', v.term.format(idx=ix + '.val'))
                    outs.append(V('r', n, shape))
                return V('tuple', items=outs)
            if short == 'exp':
                a = self.ev(node.args[0])
                if a.kind == 'i':
                    t = '(1 : α)' if a.term is None else a.term
                    return V('c', '(Cx.expi %s)' % ('(-%s)' % t if a.sign < 0 else t), a.shape)
                a = self.real(a, src)
                return V('r', '(Num.exp %s)' % a.term, a.shape)
            if short in ('sqrt', 'cos', 'sin'):
                a = self.real(self.ev(node.args[0]), src)
                return V('r', '(Num.%s %s)' % (short, a.term), a.shape)
            if short in ('abs', 'absolute'):
                a = self.ev(node.args[0])
                if a.kind == 'c':
                    return V('r', '(Cx.abs %s)' % a.term, a.shape)
                a = self.real(a, src)
                return V('r', '(Num.abs %s)' % a.term, a.shape)
            if short == 'angle' and len(node.args) == 1 and not node.keywords:
                a = self.cx(self.ev(node.args[0]), src)
                return V('r', '(Cx.arg %s)' % a.term, a.shape)
            if short == 'atan2' and len(node.args) == 2:
                y, x = self.real(self.ev(node.args[0]), src), self.real(self.ev(node.args[1]), src)
                return V('r', '(Num.atan2 %s %s)' % (y.term, x.term), join_shape(y.shape, x.shape, src))
            if short in ('mul', 'multiply') and len(node.args) == 2:
                return self.binop(ast.BinOp(node.args[0], ast.Mult(), node.args[1]), src)
            if short == 'zeros' and any(k.arg == 'dtype' and 'complex' in ast.unparse(k.value) for k in node.keywords):
                dims = [self.ev(a) for a in node.args]
                if len(dims) == 2 and all(d.kind == 'dim' for d in dims):
                    shape = (dims[0].term, dims[1].term)
                    if self.grid is not None and self.grid != shape:
                        raise TranslateError('zeros of shape %s on a grid %s' % (shape, self.grid))
                    return V('c', '(0 : Cx α)', shape, const=0)
            if short == 'device':
                return V('op')
            raise TranslateError('unsupported call ' + src)
        if f == 'float' and len(node.args) == 1:
            return self.real(self.ev(node.args[0]), src)
        if f == 'tqdm' and len(node.args) == 1:
            return self.ev(node.args[0])
        if isinstance(node.func, ast.Name):
            target = self.module.resolve(f)
            if target is None or target not in self.registry:
                raise TranslateError('call of a function that is not translated: ' + src)
            job = self.registry[target]
            if node.keywords or len(node.args) != len(job['params']):
                raise TranslateError('unsupported argument list in ' + src)
            terms, sh = [], None
            for a, (pname, lname, kind) in zip(node.args, job['params']):
                v = self.ev(a)
                v = self.cx(v, src) if kind == 'c' else self.real(v, src)
                sh = join_shape(sh, v.shape, src)
                terms.append(v.term)
            return V(job['result'], '(%s %s)' % (job['lean'], ' '.join(terms)), sh)
        raise TranslateError('unsupported call ' + src)

    # ------------------------------------------------------------------ statements
    grid = None

    def static_test(self, node):
        v = None
        if isinstance(node, ast.Name) and node.id in self.env:
            v = self.env[node.id]
        elif isinstance(node, ast.Compare) and len(node.ops) == 1 and isinstance(node.ops[0], ast.Eq) \
                and isinstance(node.left, ast.Name) and node.left.id in self.env \
                and isinstance(node.comparators[0], ast.Constant) and node.comparators[0].value is True:
            v = self.env[node.left.id]
        if v is not None and v.kind == 'py' and isinstance(v.const, bool):
            return v.const
        raise TranslateError('condition is not a known constant: ' + ast.unparse(node))

    def assign(self, target, v, src):
        if isinstance(target, ast.Name):
            self.env[target.id] = self.bind(target.id, v)
            return
        if isinstance(target, ast.Tuple) and v.kind in ('tuple', 'shape', 'list') and len(target.elts) == len(v.items) \
                and all(isinstance(t, ast.Name) for t in target.elts):
            for t, x in zip(target.elts, v.items):
                self.env[t.id] = self.bind(t.id, x)
            return
        raise TranslateError('unsupported assignment ' + src[:80])

    def block(self, body):
        """returns the value of a `return` statement met, else None"""
        for st in body:
            src = ast.unparse(st)
            if isinstance(st, ast.Expr) and isinstance(st.value, ast.Constant):
                continue
            if self.stop_at_fft and '.fft.' in src:
                return 'stop'
            if isinstance(st, ast.If):
                r = self.block(st.body if self.static_test(st.test) else st.orelse)
                if r is not None:
                    return r
                continue
            if isinstance(st, ast.Return):
                if st.value is None:
                    raise TranslateError('bare return')
                return self.ev(st.value)
            if isinstance(st, ast.Assign) and len(st.targets) == 1:
                self.assign(st.targets[0], self.ev(st.value), src)
                continue
            if isinstance(st, ast.AugAssign) and isinstance(st.target, ast.Name) and isinstance(st.op, ast.Add) \
                    and self.acc is not None and st.target.id in self.env:
                self.acc.setdefault(st.target.id, []).append(self.cx(self.ev(st.value), src))
                continue
            if isinstance(st, ast.For) and isinstance(st.target, ast.Name) and not st.orelse:
                self.loop(st, src)
                continue
            raise TranslateError('unsupported statement ' + src[:80])
        return None

    def loop(self, st, src):
        """`for x in <linspace>: … acc += e`  ->  acc + Cx.sumFin N fun a => e   (nested loops nest)"""
        it = self.ev(st.iter)
        if it.kind != 'ax':
            raise TranslateError('loop over something that is not a linspace: ' + src[:60])
        idx = self.fresh('a')
        saved = (self.lets, self.acc, self.indent, self.env.get(st.target.id))
        self.lets, self.acc, self.indent = [], {}, 0
        self.env[st.target.id] = self.bind(st.target.id, V('r', it.term.format(idx=idx + '.val')))
        r = self.block(st.body)
        if r is not None:
            raise TranslateError('return inside a loop')
        body, acc = self.lets, self.acc
        self.lets, self.acc, self.indent = saved[0], saved[1], saved[2]
        if saved[3] is not None:
            self.env[st.target.id] = saved[3]
        else:
            self.env.pop(st.target.id, None)
        if len(acc) != 1:
            raise TranslateError('a loop must accumulate into exactly one variable: ' + src[:60])
        (name, parts), = acc.items()
        sh = None
        for p in parts:
            sh = join_shape(sh, p.shape, src)
        total = parts[0].term if len(parts) == 1 else '(' + ' + '.join(p.term for p in parts) + ')'
        inner = '\n'.join('  ' + ln for l in body + [total] for ln in l.split('\n'))
        term = '(Cx.sumFin %s fun (%s : Fin %s) =>\n%s)' % (it.size, idx, it.size, inner)
        contrib = V('c', term, sh)
        if self.acc is not None:
            self.acc.setdefault(name, []).append(contrib)
        else:
            old = self.env[name]
            if old.kind != 'c':
                raise TranslateError('accumulator is not complex: ' + name)
            new = contrib if old.const == 0 else V('c', '(%s + %s)' % (old.term, contrib.term), join_shape(old.shape, sh, src))
            self.env[name] = self.bind(name, new)


# ---------------------------------------------------------------------------------------------------------------------
# jobs: (source file, function) -> Lean definition.  params: (python parameter, Lean name, kind) in the order of the Python signature;
# extra: python parameters that are not arguments of the Lean definition (device, deg, …) with the value they are given.

def R(name):
    return V('r', name)


def job(rel, py, lean, params, result, extra=None, binders=None, doc=None, grid=None, target=None, expect=None):
    return {'rel': rel, 'py': py, 'lean': lean, 'params': params, 'result': result, 'extra': extra or {}, 'binders': binders,
            'doc': doc, 'grid': grid, 'target': target, 'expect': expect}


def jobs():
    dev = {'device': V('op')}
    grid_t = [('nu', 'n', 'dim'), ('nv', 'm', 'dim'), ('dx', 'dx', 'r'), ('wavelength', 'lam', 'r'), ('distance', 'z', 'r')]
    grid_n = [('field', 'n m', 'field'), ('k', 'k', 'r'), ('distance', 'z', 'r'), ('dx', 'dx', 'r'), ('wavelength', 'lam', 'r')]
    bt = '(n m : Nat) (dx lam z : α)'
    bn = '(n m : Nat) (dx lam k z : α)'
    out = []
    for rel, sfx in ((T_UTIL, 'T'), (N_INIT, 'N')):
        out.append(job(rel, 'wavenumber', 'wavenumber' + sfx, [('wavelength', 'lam', 'r')], 'r'))
    for rel, sfx in ((T_UTIL, 'T'), (N_UTILS, 'N')):
        out.append(job(rel, 'calculate_amplitude', 'calcAmplitude' + sfx, [('field', 'u', 'c')], 'r'))
        out.append(job(rel, 'calculate_phase', 'calcPhase' + sfx, [('field', 'u', 'c')], 'r', extra={'deg': V('py', const=False)}))
    for rel, sfx in ((T_UTIL, 'T'), (N_INIT, 'N')):
        out.append(job(rel, 'generate_complex_field', 'genField' + sfx, [('amplitude', 'a', 'r'), ('phase', 'φ', 'r')], 'c'))
        out.append(job(rel, 'set_amplitude', 'setAmplitude' + sfx, [('field', 'u', 'c'), ('amplitude', 'a', 'c')], 'c'))
    out.append(job(N_INIT, 'add_phase', 'addPhaseN', [('field', 'u', 'c'), ('new_phase', 'φ', 'r')], 'c'))
    out.append(job(T_CLASSICAL, 'get_angular_spectrum_kernel', 'asKernelT', grid_t, 'c', extra=dev, binders=bt, grid=True, expect=('n', 'm')))
    out.append(job(T_CLASSICAL, 'get_transfer_function_fresnel_kernel', 'tfKernelT', grid_t, 'c', extra=dev, binders=bt, grid=True,
                   expect=('n', 'm')))
    out.append(job(T_CLASSICAL, 'get_band_limited_angular_spectrum_kernel', 'blKernelT', grid_t, 'c', extra=dev, binders=bt, grid=True,
                   expect=('n', 'm')))
    for py, lean, tgt in (('angular_spectrum', 'asKernelN', 'H'), ('transfer_function_fresnel', 'tfKernelN', 'H'),
                          ('band_limited_angular_spectrum', 'blKernelN', 'H'), ('impulse_response_fresnel', 'irKernelN', 'h')):
        out.append(job(N_CLASSICAL, py, lean, grid_n, 'c', binders=bn, grid=True, target=tgt, expect=('n', 'm')))
    # torch impulse response, spatial part `h` (before the FFT), scale = 1
    out.append(job(T_CLASSICAL, 'get_impulse_response_fresnel_kernel', 'irSpatialT', grid_t, 'c',
                   extra={'device': V('op'), 'scale': V('r', lit(1), const=1),
                          'aperture_samples': V('list', items=[V('dim', 's%d' % k) for k in range(4)])},
                   binders='(n m : Nat) (dx lam z : α) (s0 s1 s2 s3 : Nat)', grid=True, target='h', expect=('n', 'm')))
    return out


def run_job(j, registry):
    mod = Module.get(j['rel'])
    fn = find_function(mod.tree, j['py'])
    names = [a.arg for a in fn.args.args]
    env = dict(j['extra'])
    for pname, lname, kind in j['params']:
        if kind == 'dim':
            env[pname] = V('dim', lname)
        elif kind == 'r':
            env[pname] = V('r', lname)
        elif kind == 'c':
            env[pname] = V('c', lname)
        elif kind == 'field':
            r, c = lname.split()
            env[pname] = V('c', 'field', (r, c))
    for nme in names:
        if nme not in env:
            raise TranslateError('parameter %s of %s is not covered by the translator' % (nme, j['py']))
    for pname, _, _ in j['params']:
        if pname not in names:
            raise TranslateError('%s has no parameter %s any more' % (j['py'], pname))
    it = Interp(mod, fn, env, registry, stop_at_fft=j['target'] is not None)
    res = it.block(fn.body)
    if j['target'] is not None:
        if res != 'stop':
            raise TranslateError('%s: no FFT statement found after the kernel construction' % j['py'])
        if j['target'] not in it.env:
            raise TranslateError('%s: variable %s is not assigned before the FFT' % (j['py'], j['target']))
        seen_fft = False
        for st in fn.body:
            if not seen_fft:
                seen_fft = '.fft.' in ast.unparse(st) and not (isinstance(st, ast.Expr) and isinstance(st.value, ast.Constant))
                if not seen_fft:
                    continue
                # the first FFT statement itself may read the kernel but must not rebind it
            for sub in ast.walk(st):
                if isinstance(sub, ast.Name) and sub.id == j['target'] and isinstance(sub.ctx, (ast.Store, ast.Del)):
                    raise TranslateError('%s: %s is modified after the FFT calls start' % (j['py'], j['target']))
        res = it.env[j['target']]
    elif res is None or isinstance(res, str):
        raise TranslateError('%s: no return statement' % j['py'])
    if j['result'] == 'c':
        res = it.cx(res, j['py'])
    else:
        res = it.real(res, j['py'])
    doc = '/-- %s `%s` (%s)%s -/' % ('torch' if '/learn/' in j['rel'] else 'NumPy', j['py'], j['rel'],
                                    ', element [i, j]' + (' of `%s` (the part before the FFT calls)' % j['target'] if j['target'] else '')
                                    if j['grid'] else ', per element')
    if j['grid']:
        shape = res.shape or it.grid
        if shape is None:
            raise TranslateError('%s: the result is not a grid' % j['py'])
        lines = [doc, 'def %s %s : CGrid α %s %s := Grid.ofFn fun (i : Fin %s) (j : Fin %s) =>'
                 % (j['lean'], j['binders'], shape[0], shape[1], shape[0], shape[1])]
    else:
        if res.shape is not None:
            raise TranslateError('%s: unexpected grid result' % j['py'])
        binders = ' '.join('(%s : %s)' % (l, 'Cx α' if k == 'c' else 'α') for _, l, k in j['params'])
        lines = [doc, 'def %s %s : %s :=' % (j['lean'], binders, 'Cx α' if j['result'] == 'c' else 'α')]
    lines += ['  ' + ln for l in it.lets + [res.term] for ln in l.split('\n')]
    return '\n'.join(lines)


def generate():
    Module.cache = {}
    srcs = ', '.join((T_UTIL, T_CLASSICAL, N_UTILS, N_INIT, N_CLASSICAL))
    out = ['/- GENERATED by harness/translate/wavekernels.py from %s – do not edit. -/' % srcs,
           'import OdakModel.Kernels', 'namespace Odak.Gen', 'variable {α : Type} [Num α]', '']
    errors = []
    registry = {}
    for j in jobs():
        try:
            text = run_job(j, registry)
            out += [text, '']
            registry[(j['rel'], j['py'])] = j
        except (TranslateError, OSError, SyntaxError, KeyError, IndexError, AttributeError, TypeError, ValueError) as e:
            errors.append('%s (%s): %s' % (j['py'], j['rel'], e))
    out += ['end Odak.Gen', '']
    return '\n'.join(out), errors


if __name__ == '__main__':
    t, e = generate()
    print(t)
    print(e)
