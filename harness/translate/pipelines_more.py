"""Regenerates Generated/PipelinesMore.lean: the NumPy propagation routines of odak/wave/classical.py that Generated/Pipelines.lean leaves
out (its dispatch `propagateBeamN` answers `none` for them):

    fraunhofer_inverse             the factor `c` per element (through the per-element interpreter of wavekernels.py / pipelines.py, with
                                   `distance = np.abs(distance)` first) and the statements from the first FFT call on (through the pipeline
                                   interpreter of pipelines.py, plus `field / c` for two arrays)
    rayleigh_sommerfeld            the direct summation: grids, the two loops, the guard `field[i, j] != 0`, `r01`, `cosnr01`, the accumulated
                                   term, the final factor - through the small per-element interpreter below
    fraunhofer_equal_size_adjust   the window `px, py, nx, ny` (Python floats truncated by `int`) and the slice that is copied

`band_extended_angular_spectrum` and `adaptive_sampling_angular_spectrum` need the `finufft` package (not installed here) and are left out.
Conventions as in pipelines.py: `field` is `u : CGrid α n m` (`nv, nu = field.shape`: `nv` = rows = `n`, `nu` = columns = `m`).
What the shapes of `rayleigh_sommerfeld` force: `X, Y` have shape `(nu, nv)`, `result` has shape `(nv, nu)`, the loops index `field[i, j]`
with `i < nu`, `j < nv`: NumPy accepts that for square fields only (it raises otherwise), and the generated definition is over
`CGrid α n n` (recorded as a note in the generated file).  No execution of odak."""
import ast
import os
from .pyexpr import TranslateError, find_function
from . import wavekernels as WK
from . import pipelines as PL
from .wavekernels import Module, lit
from .pipelines import P, Job, R, G, run_kernel, Generator, N_CLASSICAL

REPO = os.environ.get('ODAK_REPO', '/repo')
FILE = 'PipelinesMore.lean'


# =====================================================================================================================
#  fraunhofer_inverse
# =====================================================================================================================

BaseInterp = PL.Interp


class MInterp(BaseInterp):
    """pipelines' interpreter + `grid / grid` (element by element)"""

    def binop(self, op, a, b, src):
        if type(op) is ast.Div and a.kind == 'grid' and b.kind == 'grid':
            sh = self.unify(a, b, src)
            return self.lift([a, b], lambda ts: P('grid', '(CGrid.divC %s %s)' % (ts[0], ts[1]), sh), src)
        return BaseInterp.binop(self, op, a, b, src)


def fraunhofer_inverse():
    gen = Generator()
    for j in WK.jobs():
        if not j['grid']:
            gen.wk_registry[(j['rel'], j['py'])] = j
    out = [run_kernel(N_CLASSICAL, 'fraunhofer_inverse', 'fraunhoferInvCoefN',
                      [('field', 'n m', 'field'), ('k', 'k', 'r'), ('distance', 'z', 'r'), ('dx', 'dx', 'r'), ('wavelength', 'lam', 'r')],
                      {}, '(n m : Nat) (dx lam k z : α)', 'c', '.fft.', gen.wk_registry,
                      'NumPy `fraunhofer_inverse` (%s), element [i, j] of the factor `c` the field is divided by' % N_CLASSICAL)]
    saved = BaseInterp
    PL.Interp = MInterp
    try:
        gen.run(Job(N_CLASSICAL, 'fraunhofer_inverse', 'fraunhoferInverseN',
                    {'field': G('u'), 'k': R('k'), 'distance': R('z'), 'dx': R('dx'), 'wavelength': R('lam')},
                    [('field', None), ('dx', None), ('wavelength', None), ('k', None), ('distance', None)],
                    doc='NumPy `fraunhofer_inverse` (%s): the statements from the first FFT call on; `c` is `fraunhoferInvCoefN` above' % N_CLASSICAL,
                    target=('c', '(fraunhoferInvCoefN n m dx lam k z)', ('n', 'm'), '.fft.')))
    finally:
        PL.Interp = saved
    return out + gen.defs


# =====================================================================================================================
#  rayleigh_sommerfeld
# =====================================================================================================================

class E:
    """kinds: dim (Nat term) | r (real scalar) | ax (linspace: lo, hi, cnt) | rg / cg (real / complex array: fn(r, c) -> term, shape) |
    c (complex scalar) | im (imaginary scalar: sign, term) | idx (loop index: name, bound) | field | shape | op"""

    def __init__(self, kind, term=None, fn=None, shape=None, sign=1, items=None, bound=None, zero=False):
        self.kind, self.term, self.fn, self.shape, self.sign, self.items, self.bound, self.zero = kind, term, fn, shape, sign, items, bound, zero


class RSInterp:
    OUT = ('a.val', 'b.val')

    def __init__(self):
        self.env = {'field': E('field', shape=('n', 'm')), 'k': E('r', 'k'), 'distance': E('r', 'z'), 'dx': E('r', 'dx'), 'wavelength': E('r', 'lam')}
        self.scopes = [[]]
        self.counter = 0
        self.same = set()           # pairs of dimension names the shapes force to be equal
        self.loops = []             # [(index name, bound)]
        self.guards = []            # [Prop term under which NOTHING is accumulated]
        self.contrib = []           # accumulated terms of `result`
        self.result_shape = None
        self.scale = []

    def fresh(self, base):
        self.counter += 1
        return '%s_%d' % (base, self.counter)

    def let(self, base, typ, term):
        n = self.fresh(base)
        self.scopes[-1].append('let %s : %s := %s' % (n, typ, term))
        return n

    def eq_dim(self, a, b, what):
        if a != b:
            if not (a in ('n', 'm') and b in ('n', 'm')):
                raise TranslateError('sizes %s and %s cannot be matched in %s' % (a, b, what))
            self.same.add(what)

    def join(self, s, t, what):
        if s is None:
            return t
        if t is None:
            return s
        self.eq_dim(s[0], t[0], what)
        self.eq_dim(s[1], t[1], what)
        return s

    def real(self, v, what):
        if v.kind == 'r':
            return v
        if v.kind == 'dim':
            return E('r', '(Num.ofNat %s)' % v.term)
        raise TranslateError('expected a real number in %s, got %s' % (what, v.kind))

    def ev(self, node):
        src = ast.unparse(node)
        if isinstance(node, ast.Constant):
            c = node.value
            if isinstance(c, complex) and c.real == 0 and c.imag == 1:
                return E('im', None)
            if isinstance(c, (int, float)) and not isinstance(c, bool):
                return E('r', lit(c))
            raise TranslateError('unsupported constant ' + src)
        if isinstance(node, ast.Name):
            if node.id not in self.env:
                raise TranslateError('unknown name ' + node.id)
            return self.env[node.id]
        if isinstance(node, ast.Attribute):
            if node.attr == 'shape':
                v = self.ev(node.value)
                if v.kind in ('field', 'rg', 'cg'):
                    return E('shape', items=[E('dim', v.shape[0]), E('dim', v.shape[1])], shape=v.shape)
            if src in ('np.complex64', 'np.complex128', 'np.float64'):
                return E('op')
            raise TranslateError('unsupported attribute ' + src)
        if isinstance(node, ast.UnaryOp) and isinstance(node.op, ast.USub):
            a = self.ev(node.operand)
            if a.kind in ('r', 'dim'):
                return E('r', '(-%s)' % self.real(a, src).term)
            raise TranslateError('unsupported negation ' + src)
        if isinstance(node, ast.Subscript):
            base = self.ev(node.value)
            if isinstance(node.slice, ast.Tuple) and len(node.slice.elts) == 2:
                p, q = self.ev(node.slice.elts[0]), self.ev(node.slice.elts[1])
                if p.kind != 'idx' or q.kind != 'idx':
                    raise TranslateError('subscript that is not a pair of loop variables: ' + src)
                if base.kind == 'field':
                    self.eq_dim(p.bound, base.shape[0], src)
                    self.eq_dim(q.bound, base.shape[1], src)
                    return E('c', '(u.get %s %s)' % (p.term, q.term))
                if base.kind == 'rg':
                    self.eq_dim(p.bound, base.shape[0], src)
                    self.eq_dim(q.bound, base.shape[1], src)
                    return E('r', base.fn(p.term + '.val', q.term + '.val'))
            raise TranslateError('unsupported subscript ' + src)
        if isinstance(node, ast.BinOp):
            return self.binop(node, src)
        if isinstance(node, ast.Call):
            return self.call(node, src)
        raise TranslateError('unsupported expression ' + src)

    def binop(self, node, src):
        a, b = self.ev(node.left), self.ev(node.right)
        t = type(node.op)
        if t is ast.Pow:
            if not (isinstance(node.right, ast.Constant) and node.right.value == 2):
                raise TranslateError('unsupported exponent in ' + src)
            if a.kind == 'rg':
                return E('rg', fn=lambda r, c: '(Num.sq %s)' % a.fn(r, c), shape=a.shape)
            return E('r', '(Num.sq %s)' % self.real(a, src).term)
        sym = {ast.Add: '+', ast.Sub: '-', ast.Mult: '*', ast.Div: '/'}.get(t)
        if sym is None:
            raise TranslateError('unsupported operator in ' + src)
        realish = ('r', 'dim')
        if a.kind in realish and b.kind in realish:
            return E('r', '(%s %s %s)' % (self.real(a, src).term, sym, self.real(b, src).term))
        # real arrays (scalars broadcast)
        if {a.kind, b.kind} <= {'rg', 'r', 'dim'}:
            sh = self.join(a.shape if a.kind == 'rg' else None, b.shape if b.kind == 'rg' else None, src)
            fa = a.fn if a.kind == 'rg' else (lambda r, c, t_=self.real(a, src).term: t_)
            fb = b.fn if b.kind == 'rg' else (lambda r, c, t_=self.real(b, src).term: t_)
            return E('rg', fn=lambda r, c: '(%s %s %s)' % (fa(r, c), sym, fb(r, c)), shape=sh)
        # imaginary scalars
        if sym == '*' and a.kind == 'im' and b.kind in realish:
            y = self.real(b, src).term
            return E('im', y if a.term is None else '(%s * %s)' % (a.term, y), sign=a.sign)
        if sym == '*' and a.kind == 'im' and b.kind == 'rg':
            return E('img', fn=lambda r, c: b.fn(r, c) if a.term is None else '(%s * %s)' % (a.term, b.fn(r, c)), shape=b.shape, sign=a.sign)
        if sym == '/' and a.kind in realish and b.kind == 'im':          # x / (±i t) = ∓i (x / t)
            x = self.real(a, src).term
            return E('im', x if b.term is None else '(%s / %s)' % (x, b.term), sign=-b.sign)
        # complex arrays
        if sym == '*' and a.kind == 'c' and b.kind == 'cg':
            return E('cg', fn=lambda r, c: '(%s * %s)' % (a.term, b.fn(r, c)), shape=b.shape)
        if sym == '/' and a.kind == 'cg' and b.kind == 'rg':
            sh = self.join(a.shape, b.shape, src)
            return E('cg', fn=lambda r, c: '(Cx.divR %s %s)' % (a.fn(r, c), b.fn(r, c)), shape=sh)
        if sym == '*' and a.kind == 'cg' and b.kind == 'rg':
            sh = self.join(a.shape, b.shape, src)
            return E('cg', fn=lambda r, c: '(Cx.smul %s %s)' % (b.fn(r, c), a.fn(r, c)), shape=sh)
        raise TranslateError('unsupported operands (%s %s %s) in %s' % (a.kind, sym, b.kind, src))

    def call(self, node, src):
        f = ast.unparse(node.func)
        args = node.args
        if f == 'np.linspace' and len(args) == 3 and not node.keywords:
            lo, hi, cnt = self.real(self.ev(args[0]), src), self.real(self.ev(args[1]), src), self.ev(args[2])
            if cnt.kind != 'dim':
                raise TranslateError('linspace count is not a side of the field: ' + src)
            return E('ax', items=(lo.term, hi.term, cnt.term))
        if f == 'np.meshgrid' and len(args) == 2 and not node.keywords:          # NumPy default indexing 'xy'
            x, y = self.ev(args[0]), self.ev(args[1])
            if x.kind != 'ax' or y.kind != 'ax':
                raise TranslateError('meshgrid of something that is not a linspace: ' + src)
            sh = (y.items[2], x.items[2])
            X = E('rg', fn=lambda r, c: '(linspace %s %s %s %s)' % (x.items[0], x.items[1], x.items[2], c), shape=sh)
            Y = E('rg', fn=lambda r, c: '(linspace %s %s %s %s)' % (y.items[0], y.items[1], y.items[2], r), shape=sh)
            return E('tuple', items=[X, Y])
        if f == 'np.zeros' and args:
            s = self.ev(args[0])
            if s.kind != 'shape' or not any(k.arg == 'dtype' and 'complex' in ast.unparse(k.value) for k in node.keywords):
                raise TranslateError('unsupported zeros ' + src)
            return E('cg', fn=lambda r, c: '(0 : Cx α)', shape=s.shape, zero=True)
        if f in ('np.abs', 'abs') and len(args) == 1:
            return E('r', '(Num.abs %s)' % self.real(self.ev(args[0]), src).term)
        if f == 'int' and len(args) == 1:
            return E('r', '(Num.trunc %s)' % self.real(self.ev(args[0]), src).term)
        if f == 'np.sqrt' and len(args) == 1:
            a = self.ev(args[0])
            if a.kind == 'rg':
                return E('rg', fn=lambda r, c: '(Num.sqrt %s)' % a.fn(r, c), shape=a.shape)
            return E('r', '(Num.sqrt %s)' % self.real(a, src).term)
        if f == 'np.exp' and len(args) == 1:
            a = self.ev(args[0])
            if a.kind == 'img':
                return E('cg', fn=lambda r, c: '(Cx.expi %s)' % ('(-%s)' % a.fn(r, c) if a.sign < 0 else a.fn(r, c)), shape=a.shape)
            raise TranslateError('unsupported exponential ' + src)
        if f == 'range' and len(args) == 1:
            v = self.ev(args[0])
            if v.kind != 'dim':
                raise TranslateError('loop range is not a side of the field: ' + src)
            return E('range', term=v.term)
        raise TranslateError('unsupported call ' + src)

    def bind(self, name, v):
        if v.kind == 'r':
            return E('r', self.let(name, 'α', v.term))
        if v.kind == 'rg':
            n = self.let(name, 'α', v.fn(*self.OUT))
            return E('rg', fn=lambda r, c: n if (r, c) == self.OUT else v.fn(r, c), shape=v.shape)
        return v

    def block(self, body):
        for st in body:
            src = ast.unparse(st)
            if isinstance(st, ast.Expr) and isinstance(st.value, ast.Constant):
                continue
            if isinstance(st, ast.Return):
                return self.ev(st.value)
            if isinstance(st, ast.Assign) and len(st.targets) == 1:
                t, v = st.targets[0], self.ev(st.value)
                if isinstance(t, ast.Name):
                    if t.id == 'result' and not (v.kind == 'cg' and v.zero):
                        raise TranslateError('result does not start from zeros')
                    if t.id == 'result':
                        self.result_shape = v.shape
                    self.env[t.id] = self.bind(t.id, v)
                    continue
                if isinstance(t, ast.Tuple) and v.kind in ('shape', 'tuple') and len(t.elts) == len(v.items) and all(isinstance(e, ast.Name) for e in t.elts):
                    for e, x in zip(t.elts, v.items):
                        self.env[e.id] = self.bind(e.id, x) if x.kind == 'r' else x
                    continue
            if isinstance(st, ast.For) and isinstance(st.target, ast.Name) and not st.orelse:
                rng = self.ev(st.iter)
                if rng.kind != 'range':
                    raise TranslateError('loop over something that is not a range: ' + src[:60])
                if self.loops and self.scopes[-1]:
                    pass
                self.loops.append((st.target.id, rng.term))
                self.env[st.target.id] = E('idx', st.target.id, bound=rng.term)
                r = self.block(st.body)
                if r is not None:
                    raise TranslateError('return inside a loop')
                self.loops.pop()
                self.env.pop(st.target.id)
                continue
            if isinstance(st, ast.If) and not st.orelse:
                t = st.test
                if not (isinstance(t, ast.Compare) and len(t.ops) == 1 and isinstance(t.ops[0], ast.NotEq)
                        and isinstance(t.comparators[0], ast.Constant) and t.comparators[0].value == 0):
                    raise TranslateError('unsupported test ' + ast.unparse(t))
                v = self.ev(t.left)
                if v.kind != 'c':
                    raise TranslateError('the test is not on an element of the field: ' + ast.unparse(t))
                self.guards.append('Cx.isZero %s' % v.term)
                self.scopes.append([])
                r = self.block(st.body)
                if r is not None:
                    raise TranslateError('return inside a conditional')
                if self.scopes.pop():
                    raise TranslateError('internal: lets left in a conditional')
                self.guards.pop()
                continue
            if isinstance(st, ast.AugAssign) and isinstance(st.target, ast.Name) and st.target.id == 'result':
                v = self.ev(st.value)
                if isinstance(st.op, ast.Add):
                    if v.kind != 'cg':
                        raise TranslateError('a real array is accumulated into result: ' + src[:60])
                    self.join(self.result_shape, v.shape, src[:50])
                    if not self.loops:
                        raise TranslateError('result += outside the loops')
                    if self.scale:
                        raise TranslateError('result is accumulated after it was scaled')
                    self.contrib.append((list(self.loops), list(self.guards), list(self.scopes[-1]) if self.guards else [], v.fn(*self.OUT)))
                    if self.guards:
                        self.scopes[-1] = []
                    continue
                if isinstance(st.op, ast.Mult):
                    if self.loops:
                        raise TranslateError('result is scaled inside the loops')
                    if v.kind == 'im':
                        im = '(1 : α)' if v.term is None else v.term
                        self.scale.append('(⟨(0 : α), %s⟩ : Cx α)' % ('(-%s)' % im if v.sign < 0 else im))
                        continue
                    if v.kind in ('r', 'dim'):
                        self.scale.append('(Cx.ofReal %s)' % self.real(v, src).term)
                        continue
            raise TranslateError('unsupported statement ' + src[:80])
        return None


def indent(text, k):
    return '\n'.join(' ' * k + l for l in text.split('\n'))


def rayleigh_sommerfeld():
    mod = Module.get(N_CLASSICAL)
    fn = find_function(mod.tree, 'rayleigh_sommerfeld')
    if [a.arg for a in fn.args.args] != ['field', 'k', 'distance', 'dx', 'wavelength']:
        raise TranslateError('rayleigh_sommerfeld: parameter list changed')
    it = RSInterp()
    # statements inside the guard are scoped to it: every assignment inside `if` goes to the guard's scope
    r = it.block(fn.body)
    if r is None or r.kind != 'cg' or r is not it.env.get('result'):
        raise TranslateError('rayleigh_sommerfeld does not return result')
    if len(it.contrib) != 1:
        raise TranslateError('expected exactly one `result += …`, found %d' % len(it.contrib))
    loops, guards, lets, term = it.contrib[0]
    body = '\n'.join(lets + [term])
    for g in reversed(guards):
        body = 'if %s then (0 : Cx α) else\n%s' % (g, indent(body, 2))
    for name, bound in reversed(loops):
        body = '(Cx.sumFin %s fun (%s : Fin %s) =>\n%s)' % (bound, name, bound, indent(body, 2))
    res = body
    for s in it.scale:
        res = '(%s * %s)' % (res, s)
    square = bool(it.same)
    import re as _re
    top = []
    for l in reversed(it.scopes[0]):                       # assignments of the source that nothing reads (`Z = X ** 2 + Y ** 2`) are dropped
        nme = l.split()[1]
        if _re.search(r'\b%s\b' % _re.escape(nme), '\n'.join(top + [res])):
            top.insert(0, l)
    text = '\n'.join(top + [res])
    sig = '(u : CGrid α n m) (dx lam k z : α) : CGrid α n m := Grid.ofFn fun (a : Fin n) (b : Fin m) =>'
    note = ''
    if square:
        import re
        text = re.sub(r'\bm\b', 'n', text)
        sig = '{n : Nat} (u : CGrid α n n) (dx lam k z : α) : CGrid α n n := Grid.ofFn fun (a : Fin n) (b : Fin n) =>'
        note = ('\n    The shapes of the source only fit for SQUARE fields (%s): NumPy raises for any other shape, and the definition is over `n × n` grids'
                % '; '.join(sorted(it.same)))
    doc = ('/-- NumPy `rayleigh_sommerfeld` (%s), element [a, b] of the result: direct summation over the samples `[i, j]` of the field.%s -/'
           % (N_CLASSICAL, note))
    return '%s\ndef rayleighSommerfeldN %s\n%s' % (doc, sig, indent(text, 2)), square


# =====================================================================================================================
#  fraunhofer_equal_size_adjust
# =====================================================================================================================

def equal_size_adjust():
    mod = Module.get(N_CLASSICAL)
    fn = find_function(mod.tree, 'fraunhofer_equal_size_adjust')
    if [a.arg for a in fn.args.args] != ['field', 'distance', 'dx', 'wavelength']:
        raise TranslateError('fraunhofer_equal_size_adjust: parameter list changed')
    it = RSInterp()
    it.env = {'field': E('field', shape=('n', 'm')), 'distance': E('r', 'z'), 'dx': E('r', 'dx'), 'wavelength': E('r', 'lam')}
    body = [st for st in fn.body if not (isinstance(st, ast.Expr) and isinstance(st.value, ast.Constant))]
    if not (isinstance(body[-1], ast.Return) and isinstance(body[-2], ast.Assign)):
        raise TranslateError('fraunhofer_equal_size_adjust: expected `new_field = …; return new_field`')
    # field.shape[k] / 2: a subscript of the shape
    class SI(RSInterp):
        def ev(self, node):
            if isinstance(node, ast.Subscript) and isinstance(node.slice, ast.Constant) and isinstance(node.slice.value, int):
                b = RSInterp.ev(self, node.value)
                if b.kind == 'shape':
                    return b.items[node.slice.value]
            return RSInterp.ev(self, node)
    si = SI()
    si.env = it.env
    si.block(body[:-2])
    st = body[-2]
    v = st.value
    if isinstance(v, ast.Call) and ast.unparse(v.func) in ('np.copy', 'numpy.copy') and len(v.args) == 1:
        v = v.args[0]
    if not (isinstance(v, ast.Subscript) and ast.unparse(v.value) == 'field' and isinstance(v.slice, ast.Tuple) and len(v.slice.elts) == 2
            and all(isinstance(e, ast.Slice) and e.step is None and e.lower is not None and e.upper is not None for e in v.slice.elts)):
        raise TranslateError('fraunhofer_equal_size_adjust: the result is not a rectangular slice of the field: ' + ast.unparse(st))
    if ast.unparse(body[-1].value) != ast.unparse(st.targets[0]):
        raise TranslateError('fraunhofer_equal_size_adjust: the slice is not what is returned')
    names = {}
    for axis, e in enumerate(v.slice.elts):
        lo = e.lower
        up = e.upper
        if not (isinstance(lo, ast.Name) and isinstance(up, ast.BinOp) and isinstance(up.op, ast.Add) and isinstance(up.left, ast.Name)
                and up.left.id == lo.id and isinstance(up.right, ast.Name)):
            raise TranslateError('fraunhofer_equal_size_adjust: slice bound that is not `start : start + extent`: ' + ast.unparse(e))
        names[axis] = (lo.id, up.right.id)
    lets = si.scopes[0]
    vals = {}
    for axis in (0, 1):
        for nme in names[axis]:
            x = si.env.get(nme)
            if x is None or x.kind != 'r':
                raise TranslateError('fraunhofer_equal_size_adjust: %s is not a number computed before the slice' % nme)
            vals[nme] = x.term
    term = '((%s, %s), (%s, %s))' % (vals[names[0][0]], vals[names[0][1]], vals[names[1][0]], vals[names[1][1]])
    doc = ('/-- NumPy `fraunhofer_equal_size_adjust` (%s): the window that is copied, `((%s, %s), (%s, %s))` = ((first row, number of rows), '
           '(first column, number of columns)) of `field[%s]`; Python floats truncated by `int`, returned as scalars -/'
           % (N_CLASSICAL, names[0][0], names[0][1], names[1][0], names[1][1], ast.unparse(v.slice)))
    d1 = '%s\ndef equalSizeWindowN (n m : Nat) (dx lam z : α) : (α × α) × (α × α) :=\n%s' % (doc, indent('\n'.join(lets + [term]), 2))
    d2 = ('/-- NumPy `fraunhofer_equal_size_adjust` (%s): element [a, b] of `np.copy(field[r0 : r0 + …, c0 : c0 + …])` for a window inside the field -/\n'
          'def equalSizeAdjustElemN {n m : Nat} (u : CGrid α n m) (r0 c0 a b : Nat) : Cx α :=\n  (CGrid.getN u (r0 + a) (c0 + b))' % N_CLASSICAL)
    return [d1, d2]


def generate():
    Module.cache = {}
    head = ['/- GENERATED by harness/translate/pipelines_more.py from %s – do not edit. -/' % N_CLASSICAL,
            'import OdakModel.PipelinesMorePrelude', 'namespace Odak.Gen', 'variable {α : Type} [Num α] {n m : Nat}', '']
    defs, errors, notes = [], [], []
    for what, f in (('fraunhofer_inverse', fraunhofer_inverse), ('rayleigh_sommerfeld', lambda: [rayleigh_sommerfeld()[0]]),
                    ('fraunhofer_equal_size_adjust', equal_size_adjust)):
        try:
            defs += f()
        except (TranslateError, OSError, SyntaxError, KeyError, IndexError, AttributeError, TypeError, ValueError) as e:
            errors.append('%s (%s): %s: %s' % (what, N_CLASSICAL, type(e).__name__, e))
    out = head
    for d in defs:
        out += [d, '']
    out += ['-- not covered: band_extended_angular_spectrum, adaptive_sampling_angular_spectrum (they need the finufft package)', '',
            'end Odak.Gen', '']
    return '\n'.join(out), errors


if __name__ == '__main__':
    t, e = generate()
    print(t)
    print(e)
