"""Regenerates OdakModel/Generated/IndexExprs.lean from the index arithmetic in /repo's source."""
import ast
import os
import re
from .pyexpr import ExprTranslator, TranslateError, find_function, symexec, Sym

REPO = os.environ.get('ODAK_REPO', '/repo')


def parse(rel):
    with open(os.path.join(REPO, rel)) as f:
        return ast.parse(f.read())


def slice_bounds(tr, sl, dimlen):
    if not isinstance(sl, ast.Slice):
        raise TranslateError('not a slice: ' + ast.unparse(sl))
    lo = '0' if sl.lower is None else tr.as_int(sl.lower)
    hi = dimlen if sl.upper is None else tr.as_int(sl.upper)
    return lo, hi


def chooser(table):
    def choose(src):
        for k, v in table.items():
            if k in src:
                return v
        return None
    return choose


def torch_zero_pad(defs, explicit):
    fn = find_function(parse('odak/learn/tools/matrix.py'), 'zero_pad')
    sym = {'field.shape[-2]': 'H', 'field.shape[-1]': 'W', 'field.shape[0]': 'K', 'field.shape[1]': 'J',
           'size[0]': 'S0', 'size[1]': 'S1', 'size[-2]': 'S0', 'size[-1]': 'S1'}
    tr = ExprTranslator(sym)
    found = {}

    def hook(st, tr):
        if isinstance(st, ast.Assign) and isinstance(st.targets[0], ast.Subscript) \
                and ast.unparse(st.targets[0].value) == 'field_zero_padded':
            dims = st.targets[0].slice.elts
            res = tr.env['resolution']
            if not isinstance(res, Sym):
                raise TranslateError('zero_pad: resolution is not a list')
            found['res0'], found['res1'] = res.elts[-2][1], res.elts[-1][1]
            found['lo0'], found['hi0'] = slice_bounds(tr, dims[-2], found['res0'])
            found['lo1'], found['hi1'] = slice_bounds(tr, dims[-1], found['res1'])
    symexec(fn.body, tr, chooser({'type(size) == type(None)': not explicit, "method == 'center'": True}), hook)
    if len(found) != 6:
        raise TranslateError('zero_pad (torch): centred store not found')
    name = 'torchPadExp' if explicit else 'torchPadDef'
    for k, v in found.items():
        defs.append((name + '_' + k, 'H W S0 S1', v))


def torch_crop_center(defs, explicit):
    fn = find_function(parse('odak/learn/tools/matrix.py'), 'crop_center')
    sym = {'field.shape[-2]': 'H', 'field.shape[-1]': 'W', 'size[0]': 'S0', 'size[1]': 'S1',
           'size[-2]': 'S0', 'size[-1]': 'S1'}
    tr = ExprTranslator(sym)
    found = {}

    def hook(st, tr):
        if isinstance(st, ast.Assign) and isinstance(st.targets[0], ast.Name) and st.targets[0].id == 'cropped_padded' \
                and isinstance(st.value, ast.Subscript) and not found:
            dims = st.value.slice.elts
            found['lo0'], found['hi0'] = slice_bounds(tr, dims[-2], 'H')
            found['lo1'], found['hi1'] = slice_bounds(tr, dims[-1], 'W')
    symexec(fn.body, tr, chooser({'type(size) == type(None)': not explicit}), hook)
    if len(found) != 4:
        raise TranslateError('crop_center (torch): slice not found')
    name = 'torchCropExp' if explicit else 'torchCropDef'
    for k, v in found.items():
        defs.append((name + '_' + k, 'H W S0 S1', v))


def numpy_zero_pad(defs, explicit):
    fn = find_function(parse('odak/tools/matrix.py'), 'zero_pad')
    sym = {'field.shape[0]': 'H', 'field.shape[1]': 'W', 'size[0]': 'S0', 'size[1]': 'S1'}
    tr = ExprTranslator(sym)
    found = {}

    def hook(st, tr):
        if isinstance(st, ast.Assign) and isinstance(st.value, ast.Call) and ast.unparse(st.value.func) == 'np.pad' \
                and 'b0' not in found:
            w = st.value.args[1]
            found['b0'], found['a0'] = tr.as_int(w.elts[0].elts[0]), tr.as_int(w.elts[0].elts[1])
            found['b1'], found['a1'] = tr.as_int(w.elts[1].elts[0]), tr.as_int(w.elts[1].elts[1])
        if isinstance(st, ast.Assign) and isinstance(st.value, ast.Subscript) \
                and ast.unparse(st.value.value) == 'field_zero_padded':
            dims = st.value.slice.elts
            found['cutlo0'], found['cuthi0'] = slice_bounds(tr, dims[0], 'P0')
            found['cutlo1'], found['cuthi1'] = slice_bounds(tr, dims[1], 'P1')
    symexec(fn.body, tr, chooser({'type(size) == type(None)': not explicit, 'type(size) != type(None)': explicit,
                                  "method == 'center'": True}), hook)
    if 'b0' not in found:
        raise TranslateError('zero_pad (numpy): np.pad call not found')
    if 'cutlo0' not in found:   # no trailing `[0:size]` cut: the identity slice
        found.update(cutlo0='0', cuthi0='P0', cutlo1='0', cuthi1='P1')
    name = 'npPadExp' if explicit else 'npPadDef'
    for k in ('b0', 'a0', 'b1', 'a1'):
        defs.append((name + '_' + k, 'H W S0 S1', found[k]))
    if explicit:
        for k in ('cutlo0', 'cuthi0', 'cutlo1', 'cuthi1'):
            defs.append((name + '_' + k, 'P0 P1 S0 S1', found[k]))


def numpy_crop_center(defs, explicit):
    fn = find_function(parse('odak/tools/matrix.py'), 'crop_center')
    sym = {'field.shape[0]': 'H', 'field.shape[1]': 'W', 'size[0]': 'S0', 'size[1]': 'S1'}
    tr = ExprTranslator(sym)
    found = {}

    def hook(st, tr):
        if isinstance(st, ast.Assign) and isinstance(st.targets[0], ast.Name) and st.targets[0].id == 'cropped' and not found:
            v = st.value
            if isinstance(v, ast.Call) and ast.unparse(v.func) == 'np.copy':
                v = v.args[0]
            if isinstance(v, ast.Subscript):
                dims = v.slice.elts
                found['lo0'], found['hi0'] = slice_bounds(tr, dims[0], 'H')
                found['lo1'], found['hi1'] = slice_bounds(tr, dims[1], 'W')
    symexec(fn.body, tr, chooser({'type(size) == type(None)': not explicit}), hook)
    if len(found) != 4:
        raise TranslateError('crop_center (numpy): slice not found')
    name = 'npCropExp' if explicit else 'npCropDef'
    for k, v in found.items():
        defs.append((name + '_' + k, 'H W S0 S1', v))


def numpy_gs(defs):
    fn = find_function(parse('odak/wave/classical.py'), 'gerchberg_saxton')
    sym = {'hologram.shape[0]': 'P0', 'hologram.shape[1]': 'P1', 'field.shape[0]': 'H', 'field.shape[1]': 'W'}
    tr = ExprTranslator(sym)
    found = {}

    def hook(st, tr):
        if isinstance(st, ast.Assign) and isinstance(st.value, ast.Subscript) and not found \
                and isinstance(st.value.slice, ast.Tuple) and all(isinstance(e, ast.Slice) for e in st.value.slice.elts):
            dims = st.value.slice.elts
            found['lo0'], found['hi0'] = slice_bounds(tr, dims[0], 'P0')
            found['lo1'], found['hi1'] = slice_bounds(tr, dims[1], 'P1')

    def walk(body):
        symexec(body, tr, lambda s: None, hook)
        for st in body:
            if isinstance(st, (ast.For, ast.While)):
                walk(st.body)
    walk(fn.body)
    if len(found) != 4:
        raise TranslateError('gerchberg_saxton (numpy): crop slice not found')
    for k, v in found.items():
        defs.append(('npGsCrop_' + k, 'P0 P1 H W', v))


def pyramid_pad(defs):
    fn = find_function(parse('odak/learn/perception/spatial_steerable_pyramid.py'), 'pad_image_for_pyramid')
    sym = {'image.size(2)': 'H', 'image.size(3)': 'W', 'image.shape[2]': 'H', 'image.shape[3]': 'W',
           'image.shape[-2]': 'H', 'image.shape[-1]': 'W', '2 ** n_pyramid_levels': 'D'}
    tr = ExprTranslator(sym, positive={'D'})
    found = {}

    def visit(body):
        def hook(st, tr):
            for node in ast.walk(st):
                if isinstance(node, ast.Call) and ast.unparse(node.func).endswith('ReflectionPad2d') and 'l' not in found:
                    t = node.args[0]
                    for k, e in zip('lrtb', t.elts):
                        found[k] = tr.as_int(e)
        symexec(body, tr, lambda s: None, hook)
        for st in body:
            if isinstance(st, ast.If):
                found.setdefault('cond', ast.unparse(st.test))
                visit(st.body)
    visit(fn.body)
    for k in ('required_height', 'required_width'):
        if k not in tr.env:
            raise TranslateError('pad_image_for_pyramid: %s not found' % k)
    if 'l' not in found:
        raise TranslateError('pad_image_for_pyramid: ReflectionPad2d tuple not found')
    defs.append(('pyrReqH', 'H W D', tr.env['required_height'][1]))
    defs.append(('pyrReqW', 'H W D', tr.env['required_width'][1]))
    for k, nm in zip('lrtb', ('pyrPadLeft', 'pyrPadRight', 'pyrPadTop', 'pyrPadBottom')):
        defs.append((nm, 'H W D', found[k]))


PREFIX = {('torch_zero_pad', False): 'torchPadDef_', ('torch_zero_pad', True): 'torchPadExp_',
          ('torch_crop_center', False): 'torchCropDef_', ('torch_crop_center', True): 'torchCropExp_',
          ('numpy_zero_pad', False): 'npPadDef_', ('numpy_zero_pad', True): 'npPadExp_',
          ('numpy_crop_center', False): 'npCropDef_', ('numpy_crop_center', True): 'npCropExp_',
          ('numpy_gs',): 'npGsCrop_', ('pyramid_pad',): 'pyr'}


def generate():
    """returns (lean_text, errors)"""
    defs, errors = [], []
    jobs = [(torch_zero_pad, (False,)), (torch_zero_pad, (True,)), (torch_crop_center, (False,)),
            (torch_crop_center, (True,)), (numpy_zero_pad, (False,)), (numpy_zero_pad, (True,)),
            (numpy_crop_center, (False,)), (numpy_crop_center, (True,)), (numpy_gs, ()), (pyramid_pad, ())]
    # a job that cannot be extracted keeps the definitions it produced last time (read back from the present file)
    old = {}
    try:
        from ..lib.core import LEAN
        with open(os.path.join(LEAN, 'OdakModel', 'Generated', 'IndexExprs.lean')) as fh:
            for line in fh:
                m = re.match(r'def (\w+) \(([^:]*) : Int\) : Int := (.*)$', line.rstrip('\n'))
                if m:
                    old[m.group(1)] = (m.group(1), m.group(2), m.group(3))
    except OSError:
        pass
    for f, a in jobs:
        before = len(defs)
        try:
            f(defs, *a)
        except (TranslateError, KeyError, IndexError, AttributeError, SyntaxError, OSError, TypeError, ValueError) as e:
            errors.append('%s%s: %s' % (f.__name__, a, e))
            del defs[before:]
            pref = PREFIX[(f.__name__,) + tuple(a)]
            defs += [v for k, v in old.items() if k.startswith(pref)]
    out = ['/- GENERATED by harness/translate/index_exprs.py from the source under /repo – do not edit. -/',
           'namespace Odak.Gen', '']
    for name, params, body in defs:
        out.append('def %s (%s : Int) : Int := %s' % (name, params, body))
    out += ['', 'end Odak.Gen', '']
    return '\n'.join(out), errors


generate.partial_ok = True      # failed jobs carry their previous definitions over


if __name__ == '__main__':
    t, e = generate()
    print(t)
    print(e)
