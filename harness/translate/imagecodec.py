"""Regenerates Generated/ImageCodec.lean: the WHOLE value pipeline of `save_image` / `load_image` of odak/tools/file.py (NumPy) and
odak/learn/tools/file.py (torch), statement by statement, as tensor programs over lean/OdakModel/TensorPrelude.lean +
TensorPadPrelude.lean + TensorCodecPrelude.lean (odak is never executed):

  NumPy `save_image`   copy + `astype(np.float32)`, the two boolean-mask assignments that clip at `cmin` / `cmax`, `/= cmax`, the scaling
                       by `2 ** color_depth - 1`, the cast `astype(np.uint8 / np.uint16)` chosen by `color_depth`, the channel swap
                       (`cache_img[:, :, 0] = input_img[:, :, 2]` …) under its two rank / channel-count tests; the RESULT of the program
                       is the array handed to `cv2.imwrite`
  NumPy `load_image`   starts from the array `cv2.imread(…, cv2.IMREAD_UNCHANGED)` returned (parameter `stored`): channel swap,
                       `normalizeby`, `np.moveaxis` for `torch_style`, `astype(float)`
  torch `save_image`   `squeeze(0)` of a rank-4 tensor, the channels-first test `torch.argmin(torch.tensor(img.shape)) == 0`, the
                       allocation and the `for i in range(img.shape[0])` loop that moves CHW to HWC, `.cpu().detach().numpy()`, and the
                       call of the NumPy saver with the arguments as written
  torch `load_image`   the call of the NumPy loader with the arguments as written, `torch.from_numpy(…).float()`

`<f>_ok : Bool` says that no value is cast to an unsigned integer outside `0 .. 2^bits - 1` (such a cast is undefined / wraps).
`cv2.imwrite` / `cv2.imread` themselves stay an uninterpreted lossless codec (`Tensor.pngRoundTrip` in the theorems).
Anything outside the grammar raises TranslateError: the error is returned and `generate_all` keeps the accepted file."""
import ast
import os
from .pyexpr import TranslateError, find_function
from .constants import sci
from .colourtensors import V, lname, intlit
from .padcrop import Prog, TYPES, lean_str

REPO = os.environ.get('ODAK_REPO', '/repo')
FILE = 'ImageCodec.lean'
SRC_NP = 'odak/tools/file.py'
SRC_TORCH = 'odak/learn/tools/file.py'

PARAM_KINDS = {'fn': 'O', 'img': 'T', 'cmin': 'F', 'cmax': 'F', 'color_depth': 'N', 'normalizeby': 'F', 'torch_style': 'B'}
PARAM_TYPES = {'T': 'Tensor α', 'F': 'α', 'N': 'Nat', 'B': 'Bool'}
# (lean name, source, python name)
JOBS = [('np_save_image', SRC_NP, 'save_image'), ('np_load_image', SRC_NP, 'load_image'),
        ('torch_save_image', SRC_TORCH, 'save_image'), ('torch_load_image', SRC_TORCH, 'load_image')]
CROSS = {'odak.tools.save_image': 'np_save_image', 'odak.tools.load_image': 'np_load_image'}
FLOAT_TYPES = {'np.float32': 32, 'numpy.float32': 32, 'float': 64, 'np.float64': 64, 'numpy.float64': 64, 'np.double': 64}
UINT_TYPES = {'np.uint8': 8, 'numpy.uint8': 8, 'np.uint16': 16, 'numpy.uint16': 16}
IDENT_METHODS = ('to', 'double', 'float', 'clone', 'detach', 'contiguous', 'cpu', 'numpy', 'copy')
IDENT_CALLS = ('np.copy', 'np.asarray', 'np.array', 'np.ascontiguousarray', 'torch.clone', 'torch.from_numpy', 'torch.as_tensor')


class CodecProg(Prog):
    def __init__(self, fn, done):
        Prog.__init__(self, fn, {})
        self.done = done              # lean name -> CodecProg of the functions translated so far (for calls across the two files)
        self.inline = 0
        self.cur_oks = None
        self.written = None
        self.reads = False
        self.lambda_vars = []

    # ---------------------------------------------------------------- binding
    def bind(self, name, v):
        if self.inline:
            self.env[name] = v
            return v
        return self.let(name, v)

    def add_ok(self, term):
        if self.inline:
            self.cur_oks.append(term)
        else:
            self.oks.append(self.fresh(V('B', term), 'ok').term)

    # ---------------------------------------------------------------- numbers
    def as_float(self, v, what):
        if v.kind == 'Z':
            return '(Num.int %s)' % v.term
        if v.kind == 'N':
            return '(Num.ofNat %s)' % v.term
        if v.kind == 'F':
            return v.term
        if v.kind == 'I':
            return sci(v.value)
        raise TranslateError('%s: a %s where a number is expected' % (what, v.kind))

    def as_tensor(self, v, what):
        if v.kind == 'T':
            return v.term
        return '(Tensor.scalar %s)' % self.as_float(v, what)

    def ev(self, node):
        if isinstance(node, ast.Constant) and isinstance(node.value, float) and node.value == int(node.value) and abs(node.value) < 2 ** 53:
            return V('F', sci(int(node.value)), value=float(node.value))
        if isinstance(node, ast.Attribute) and ast.unparse(node).startswith('cv2.'):
            return V('O', value=ast.unparse(node))
        return Prog.ev(self, node)

    def binop(self, node):
        what = ast.unparse(node)
        a, b = self.ev(node.left), self.ev(node.right)
        op = node.op
        ints = ('N', 'Z', 'I')
        if a.kind in ints and b.kind in ints:
            if a.kind == 'I' and b.kind == 'I':
                if isinstance(op, ast.Pow) and b.value >= 0:
                    return V('I', value=a.value ** b.value)
                table = {ast.Add: lambda x, y: x + y, ast.Sub: lambda x, y: x - y, ast.Mult: lambda x, y: x * y}
                for t, f in table.items():
                    if isinstance(op, t):
                        return V('I', value=f(a.value, b.value))
                if isinstance(op, ast.FloorDiv) and b.value > 0:
                    return V('I', value=a.value // b.value)
                raise TranslateError('unsupported integer operator in ' + what)
            if isinstance(op, ast.Pow):
                if a.kind in ('N', 'I') and b.kind in ('N', 'I') and not (a.kind == 'I' and a.value < 0) and not (b.kind == 'I' and b.value < 0):
                    return V('N', '(%s ^ %s)' % (self.as_nat(a, what), self.as_nat(b, what)))
                raise TranslateError('unsupported power ' + what)
            if isinstance(op, (ast.Add, ast.Mult)):
                sym = '+' if isinstance(op, ast.Add) else '*'
                if 'Z' in (a.kind, b.kind) or (a.kind == 'I' and a.value < 0) or (b.kind == 'I' and b.value < 0):
                    return V('Z', '(%s %s %s)' % (self.as_int(a, what), sym, self.as_int(b, what)))
                return V('N', '(%s %s %s)' % (self.as_nat(a, what), sym, self.as_nat(b, what)))
            if isinstance(op, ast.Sub):
                return V('Z', '(%s - %s)' % (self.as_int(a, what), self.as_int(b, what)))
            if isinstance(op, ast.FloorDiv) and b.kind == 'I' and b.value > 0:
                if a.kind == 'N':
                    return V('N', '(%s / %d)' % (a.term, b.value))
                return V('Z', '(%s / (%d : Int))' % (self.as_int(a, what), b.value))
            raise TranslateError('unsupported integer operator in ' + what)
        nums = ('F', 'N', 'Z', 'I')
        names = {ast.Add: ('+', 'add'), ast.Sub: ('-', 'sub'), ast.Mult: ('*', 'mul'), ast.Div: ('/', 'div')}
        if a.kind == 'T' or b.kind == 'T':
            if (a.kind != 'T' and a.kind not in nums) or (b.kind != 'T' and b.kind not in nums):
                raise TranslateError('unsupported operands in ' + what)
            if isinstance(op, ast.FloorDiv):
                return V('T', '(Tensor.floorDiv %s %s)' % (self.as_tensor(a, what), self.as_tensor(b, what)))
            for t, (sym, nm) in names.items():
                if isinstance(op, t):
                    return V('T', '(Tensor.%s %s %s)' % (nm, self.as_tensor(a, what), self.as_tensor(b, what)))
            raise TranslateError('unsupported tensor operator in ' + what)
        if a.kind in nums and b.kind in nums:
            if isinstance(op, ast.FloorDiv):
                return V('F', '(Num.floor (%s / %s))' % (self.as_float(a, what), self.as_float(b, what)))
            for t, (sym, nm) in names.items():
                if isinstance(op, t):
                    return V('F', '(%s %s %s)' % (self.as_float(a, what), sym, self.as_float(b, what)))
        raise TranslateError('unsupported operands in ' + what)

    def compare(self, node):
        what = ast.unparse(node)
        if len(node.ops) != 1:
            raise TranslateError('chained comparison ' + what)
        a, b = self.ev(node.left), self.ev(node.comparators[0])
        op = node.ops[0]
        pos = isinstance(op, (ast.Eq, ast.Is))
        if isinstance(op, (ast.Eq, ast.NotEq, ast.Is, ast.IsNot)):
            if a.kind in ('TYPE', 'NONE', 'STR') and b.kind in ('TYPE', 'NONE', 'STR'):
                return V('PC', value=((a.kind, a.value) == (b.kind, b.value)) == pos)
            if a.kind == 'B' and b.kind == 'B':
                if b.term in ('true', 'false'):
                    return V('P', '(%s = %s)' % (a.term, b.term if pos else ('false' if b.term == 'true' else 'true')))
                return V('P', '(%s %s %s)' % (a.term, '=' if pos else '≠', b.term))
        if a.kind == 'T' or b.kind == 'T':
            tn = {ast.Gt: 'gt', ast.Lt: 'lt', ast.GtE: 'ge', ast.LtE: 'le', ast.Eq: 'eq'}
            for t, n in tn.items():
                if isinstance(op, t):
                    return V('TB', '(Tensor.%s %s %s)' % (n, self.as_tensor(a, what), self.as_tensor(b, what)))
            raise TranslateError('unsupported tensor comparison ' + what)
        ints = ('N', 'Z', 'I')
        syms = {ast.Eq: '=', ast.NotEq: '≠', ast.Lt: '<', ast.LtE: '≤', ast.Gt: '>', ast.GtE: '≥'}
        if a.kind in ints and b.kind in ints:
            if a.kind == 'I' and b.kind == 'I':
                fs = {ast.Eq: lambda x, y: x == y, ast.NotEq: lambda x, y: x != y, ast.Lt: lambda x, y: x < y, ast.LtE: lambda x, y: x <= y,
                      ast.Gt: lambda x, y: x > y, ast.GtE: lambda x, y: x >= y}
                for t, f in fs.items():
                    if isinstance(op, t):
                        return V('PC', value=f(a.value, b.value))
            for t, s in syms.items():
                if isinstance(op, t):
                    if 'Z' in (a.kind, b.kind):
                        return V('P', '(%s %s %s)' % (self.as_int(a, what), s, self.as_int(b, what)))
                    return V('P', '(%s %s %s)' % (self.as_nat(a, what), s, self.as_nat(b, what)))
        nums = ('F', 'N', 'Z', 'I')
        if a.kind in nums and b.kind in nums:        # floats: `==` is "≤ both ways" (false for NaN), `!=` its negation
            x, y = self.as_float(a, what), self.as_float(b, what)
            if isinstance(op, ast.Eq):
                return V('P', '(%s ≤ %s ∧ %s ≤ %s)' % (x, y, y, x))
            if isinstance(op, ast.NotEq):
                return V('P', '(¬ (%s ≤ %s ∧ %s ≤ %s))' % (x, y, y, x))
            for t, s in ((ast.Lt, '<'), (ast.LtE, '≤')):
                if isinstance(op, t):
                    return V('P', '(%s %s %s)' % (x, s, y))
            for t, s in ((ast.Gt, '<'), (ast.GtE, '≤')):
                if isinstance(op, t):
                    return V('P', '(%s %s %s)' % (y, s, x))
        raise TranslateError('unsupported comparison ' + what)

    # ---------------------------------------------------------------- subscripts
    def plan(self, sl, what):
        """[(axis, index term as Int)] for a subscript made of full slices and integer indices (literal or a natural-number variable),
        ordered from the right (the axis of every entry is the one it has when the entries to its right have been applied) - or None"""
        elts = list(sl.elts) if isinstance(sl, ast.Tuple) else [sl]
        out = []
        for pos in range(len(elts) - 1, -1, -1):
            e = elts[pos]
            if isinstance(e, ast.Constant) and e.value is Ellipsis:
                return None
            if isinstance(e, ast.Slice):
                if e.lower is None and e.upper is None and e.step is None:
                    continue
                return None
            v = self.ev(e)
            if v.kind == 'I':
                out.append((pos, intlit(v.value)))
            elif v.kind == 'N':
                out.append((pos, '((%s : Nat) : Int)' % v.term))
            else:
                return None
        return out

    def subscript(self, node):
        what = ast.unparse(node)
        base = self.ev(node.value)
        if base.kind == 'T':
            p = self.plan(node.slice, what)
            if p:
                t = base.term
                for axis, k in p:
                    t = '(Tensor.select %s %d %s)' % (t, axis, k)
                return V('T', t)
        return Prog.subscript(self, node)

    # ---------------------------------------------------------------- calls
    def cross_call(self, lean_name, node, what):
        callee = self.done.get(lean_name)
        if callee is None:
            raise TranslateError('%s is called before it could be translated: %s' % (lean_name, what))
        names = [a.arg for a in callee.fn.args.args]
        given = {}
        for k, a in enumerate(node.args):
            if k >= len(names):
                raise TranslateError('too many arguments in ' + what)
            given[names[k]] = a
        for k in node.keywords:
            if k.arg not in names or k.arg in given:
                raise TranslateError('unknown or repeated argument in ' + what)
            given[k.arg] = k.value
        args = []
        if callee.reads:
            self.reads = True
            args.append('stored')
        for n in names:
            kind = PARAM_KINDS.get(n)
            if kind is None:
                raise TranslateError('parameter %s of %s has no declared kind' % (n, lean_name))
            if kind == 'O':
                if n in given and n == 'fn' and ast.unparse(given[n]) != 'fn':
                    self.meta.append(('path', ast.unparse(given[n])))
                continue
            if n not in given:
                if n not in callee.sig_defaults:
                    raise TranslateError('missing argument %s in %s' % (n, what))
                args.append('%s_%s_default' % (lean_name, n))
                continue
            v = self.ev(given[n])
            if kind == 'T' and v.kind == 'T':
                args.append(v.term)
            elif kind == 'F':
                args.append(self.as_float(v, what))
            elif kind == 'N':
                args.append(self.as_nat(v, what))
            elif kind == 'B' and v.kind == 'B':
                args.append(v.term)
            else:
                raise TranslateError('argument %s of %s has the wrong kind: %s' % (n, lean_name, what))
        if callee.oks:
            self.add_ok('(%s_ok %s)' % (lean_name, ' '.join(args)))
        return V('T', '(%s %s)' % (lean_name, ' '.join(args)))

    def call(self, node):
        what = ast.unparse(node)
        f = ast.unparse(node.func)
        if f in CROSS:
            return self.cross_call(CROSS[f], node, what)
        if f == 'float' and len(node.args) == 1:
            v = self.ev(node.args[0])
            if v.kind in ('F', 'N', 'Z', 'I'):
                return V('F', self.as_float(v, what))
            raise TranslateError('unsupported ' + what)
        if f == 'isinstance' and len(node.args) == 2:
            v, t = self.ev(node.args[0]), self.ev(node.args[1])
            if t.kind == 'TYPE' and t.value == 'NoneType':
                return V('PC', value=(v.kind == 'NONE'))
            raise TranslateError('unsupported ' + what)
        if f in ('expanduser', 'odak.tools.expanduser', 'os.path.expanduser', 'str'):
            return V('O', value=what)
        if f == 'cv2.imread':
            flags = [ast.unparse(a) for a in node.args[1:]] + ['%s=%s' % (k.arg, ast.unparse(k.value)) for k in node.keywords]
            self.meta.append(('imread', (ast.unparse(node.args[0]), flags)))
            self.reads = True
            return V('T', 'stored')
        if f in IDENT_CALLS and len(node.args) == 1:
            v = self.ev(node.args[0])
            if v.kind == 'T':
                return v
            raise TranslateError('unsupported ' + what)
        if f == 'torch.tensor' and len(node.args) == 1:
            v = self.ev(node.args[0])
            if v.kind == 'S':
                return V('SV', v.term)
        if f == 'torch.argmin' and len(node.args) == 1 and not node.keywords:
            v = self.ev(node.args[0])
            if v.kind == 'SV':
                return V('N', '(Tensor.argminList %s)' % v.term)
            raise TranslateError('unsupported ' + what)
        if f in ('np.moveaxis', 'numpy.moveaxis', 'torch.moveaxis', 'torch.movedim') and len(node.args) == 3:
            v = self.ev(node.args[0])
            if v.kind != 'T':
                raise TranslateError('unsupported ' + what)
            return V('T', '(Tensor.moveaxis %s %s %s)' % (v.term, intlit(self.int_const(node.args[1], what)), intlit(self.int_const(node.args[2], what))))
        return Prog.call(self, node)

    def method(self, node, what):
        m = node.func.attr
        if m in IDENT_METHODS:
            a = self.ev(node.func.value)
            if a.kind == 'T':
                return a
        if m == 'astype' and len(node.args) == 1:
            a = self.ev(node.func.value)
            ty = ast.unparse(node.args[0])
            if a.kind != 'T':
                raise TranslateError('unsupported ' + what)
            if ty in FLOAT_TYPES:
                return V('T', '(Tensor.castFloat %d %s)' % (FLOAT_TYPES[ty], a.term))
            if ty in UINT_TYPES:
                self.add_ok('(Tensor.castUIntOk %d %s)' % (UINT_TYPES[ty], a.term))
                return V('T', '(Tensor.castUInt %d %s)' % (UINT_TYPES[ty], a.term))
            raise TranslateError('cast to an unknown type: ' + what)
        return Prog.method(self, node, what)

    # ---------------------------------------------------------------- statements
    def store(self, target, value_node, what):
        """`name[...] = value`: returns (name, new value of name)"""
        name = target.value.id
        base = self.env[name]
        if base.kind != 'T':
            raise TranslateError('unsupported store ' + what)
        sl = target.slice
        is_slices = all(isinstance(e, ast.Slice) for e in (sl.elts if isinstance(sl, ast.Tuple) else [sl]))
        if is_slices:
            s = self.slice_list(sl, what)
            vt = self.as_tensor(self.ev(value_node), what)
            self.add_ok('(Tensor.storeOk %s %s %s)' % (base.term, s, vt))
            return name, V('T', '(Tensor.setSlices %s %s %s)' % (base.term, s, vt))
        p = self.plan(sl, what)
        if p is not None and len(p) == 1:
            axis, k = p[0]
            vt = self.as_tensor(self.ev(value_node), what)
            return name, V('T', '(Tensor.setSelect %s %d %s %s)' % (base.term, axis, k, vt))
        if p is None and not isinstance(sl, ast.Tuple):
            m = self.ev(sl)
            if m.kind == 'TB':
                v = self.ev(value_node)
                return name, V('T', '(Tensor.maskedFill %s %s %s)' % (base.term, m.term, self.as_float(v, what)))
        raise TranslateError('unsupported store ' + what)

    def statement(self, st, what):
        """one simple statement (assignment, store, augmented assignment, cv2.imwrite); returns True if handled"""
        if isinstance(st, ast.Expr) and isinstance(st.value, ast.Constant):
            return True
        if isinstance(st, ast.Pass):
            return True
        if isinstance(st, ast.AugAssign) and isinstance(st.target, ast.Name):
            v = self.ev(ast.BinOp(left=ast.Name(id=st.target.id, ctx=ast.Load()), op=st.op, right=st.value))
            self.bind(st.target.id, v)
            return True
        if isinstance(st, ast.Assign) and len(st.targets) == 1:
            t = st.targets[0]
            if isinstance(t, ast.Name):
                v = self.ev(st.value)
                if v.kind == 'UNBIND':
                    raise TranslateError('unbind assigned to one name: ' + what)
                self.bind(t.id, v)
                return True
            if isinstance(t, ast.Subscript) and isinstance(t.value, ast.Name) and t.value.id in self.env:
                name, v = self.store(t, st.value, what)
                self.bind(name, v)
                return True
            raise TranslateError('unsupported assignment ' + what)
        if isinstance(st, ast.Expr) and isinstance(st.value, ast.Call) and ast.unparse(st.value.func) == 'cv2.imwrite' and len(st.value.args) == 2:
            if self.inline or self.written is not None:
                raise TranslateError('cv2.imwrite inside a conditional, or called twice: ' + what)
            self.meta.append(('imwrite', ast.unparse(st.value.args[0])))
            v = self.ev(st.value.args[1])
            if v.kind != 'T':
                raise TranslateError('unsupported ' + what)
            self.written = v
            return True
        return False

    def for_loop(self, st, what):
        if not (isinstance(st.target, ast.Name) and isinstance(st.iter, ast.Call) and ast.unparse(st.iter.func) == 'range'
                and len(st.iter.args) == 1 and not st.orelse):
            raise TranslateError('unsupported loop ' + what)
        n = self.as_nat(self.ev(st.iter.args[0]), what)
        accs = set()
        for b in st.body:
            if isinstance(b, ast.Assign) and len(b.targets) == 1:
                t = b.targets[0]
                accs.add(t.id if isinstance(t, ast.Name) else (t.value.id if isinstance(t, ast.Subscript) and isinstance(t.value, ast.Name) else None))
            else:
                raise TranslateError('unsupported statement in a loop: ' + what)
        if len(accs) != 1 or None in accs:
            raise TranslateError('a loop that updates more than one name: ' + what)
        acc = accs.pop()
        if acc not in self.env or self.env[acc].kind != 'T':
            raise TranslateError('the loop updates something that is not a tensor: ' + what)
        i = st.target.id
        outer = self.env[acc]
        saved_env, saved_oks = dict(self.env), self.cur_oks
        self.inline += 1
        self.cur_oks = []
        try:
            self.env[i] = V('N', lname(i))
            self.env[acc] = V('T', lname(acc))
            for b in st.body:
                if not self.statement(b, what):
                    raise TranslateError('unsupported statement in a loop: ' + what)
            if self.cur_oks:
                raise TranslateError('a cast / store that can fail inside a loop: ' + what)
            body = self.env[acc].term
        finally:
            self.inline -= 1
            self.env, self.cur_oks = saved_env, saved_oks
        self.bind(acc, V('T', '(Tensor.forRange %s (fun (%s : Nat) (%s : Tensor α) => %s) %s)' % (n, lname(i), lname(acc), body, outer.term)))

    def run_inline(self, body, what):
        """the statements of a dynamic branch in a copy of the environment: ({name: value}, [ok terms])"""
        saved_env, saved_oks = dict(self.env), self.cur_oks
        self.inline += 1
        self.cur_oks = []
        try:
            r = self.block(body)
            if r is not None:
                raise TranslateError('return inside a conditional: ' + what)
            changed = {n: v for n, v in self.env.items() if saved_env.get(n) is not v}
            return changed, self.cur_oks
        finally:
            self.inline -= 1
            self.env, self.cur_oks = saved_env, saved_oks

    def block(self, body):
        for st in body:
            what = ' '.join(ast.unparse(st).split())[:100]
            if isinstance(st, ast.Return):
                v = self.ev(st.value)
                if v.kind == 'B' and self.written is not None:       # `return True` of a saver: the program's result is the written array
                    return self.written
                if v.kind != 'T':
                    raise TranslateError('the returned value is not a tensor: ' + what)
                return v
            if self.statement(st, what):
                continue
            if isinstance(st, ast.For):
                self.for_loop(st, what)
                continue
            if isinstance(st, ast.If):
                c = self.cond(st.test)
                if c.kind == 'PC':
                    r = self.block(st.body if c.value else st.orelse)
                    if r is not None:
                        return r
                    continue
                (yes, oky), (no, okn) = self.run_inline(st.body, what), self.run_inline(st.orelse, what)
                if not self.inline:
                    c = self.fresh(V('B', '(decide %s)' % c.term), 'cond')
                    c = V('P', '(%s = true)' % c.term)
                merged = []
                for n in list(yes) + [n for n in no if n not in yes]:
                    if (n not in yes or n not in no) and n not in self.env:
                        continue                                       # a name local to one branch
                    a = yes[n] if n in yes else self.env[n]
                    b = no[n] if n in no else self.env[n]
                    if a.kind != b.kind or a.kind not in TYPES:
                        raise TranslateError('branches of different kinds: ' + what)
                    merged.append((n, V(a.kind, '(if %s then %s else %s)' % (c.term, a.term, b.term))))
                if oky or okn:
                    self.add_ok('(if %s then %s else %s)' % (c.term, ' && '.join(oky) if oky else 'true', ' && '.join(okn) if okn else 'true'))
                if not self.inline:
                    import re
                    for k, (n, v) in enumerate(merged):
                        for n2, v2 in merged[k + 1:]:
                            if re.search(r'(?<![\w.])%s(?![\w])' % re.escape(lname(n)), v2.term):
                                raise TranslateError('branch reads %s after assigning it: %s' % (n, what))
                for n, v in merged:
                    self.bind(n, v)
                continue
            raise TranslateError('unsupported statement ' + what)
        return None

    def run(self):
        args = self.fn.args
        off = len(args.args) - len(args.defaults)
        self.sig_defaults = {}
        for i, a in enumerate(args.args):
            kind = PARAM_KINDS.get(a.arg)
            if kind is None:
                raise TranslateError('parameter %s has no declared kind' % a.arg)
            if i >= off:
                self.sig_defaults[a.arg] = args.defaults[i - off]
            if kind == 'O':
                self.env[a.arg] = V('O', value=a.arg)
                continue
            self.params.append((lname(a.arg), PARAM_TYPES[kind]))
            self.env[a.arg] = V(kind, lname(a.arg))
        r = self.block(self.fn.body)
        if r is None:
            raise TranslateError('no return statement')
        if self.reads:
            self.params.insert(0, ('stored', 'Tensor α'))
        return r.term


def default_term(prog, name, node):
    kind = PARAM_KINDS[name]
    if not isinstance(node, ast.Constant):
        raise TranslateError('the default of %s is not a literal' % name)
    v = node.value
    if kind == 'F' and isinstance(v, (int, float)) and not isinstance(v, bool):
        return 'α', sci(int(v)) if float(v) == int(v) else sci(v)
    if kind == 'N' and isinstance(v, int) and not isinstance(v, bool) and v >= 0:
        return 'Nat', str(v)
    if kind == 'B' and isinstance(v, bool):
        return 'Bool', 'true' if v else 'false'
    raise TranslateError('unsupported default of %s' % name)


def generate():
    errors = []
    out = ['/- GENERATED by harness/translate/imagecodec.py from %s and %s – do not edit. -/' % (SRC_NP, SRC_TORCH),
           'import OdakModel.TensorCodecPrelude', 'namespace Odak.GenIC', 'open Odak', 'variable {α : Type} [Num α]', '']
    trees = {}
    for src in (SRC_NP, SRC_TORCH):
        try:
            with open(os.path.join(REPO, src)) as f:
                trees[src] = ast.parse(f.read())
        except (OSError, SyntaxError) as e:
            errors.append('%s: %s' % (src, e))
    if errors:
        return '\n'.join(out + ['end Odak.GenIC', '']), errors
    done = {}
    for lean_name, src, pyname in JOBS:
        try:
            fn = find_function(trees[src], pyname)
            prog = CodecProg(fn, done)
            res = prog.run()
            for p, node in prog.sig_defaults.items():
                if PARAM_KINDS.get(p) in (None, 'O'):
                    continue
                ty, term = default_term(prog, p, node)
                out.append('/-- default of the parameter `%s` of `%s` (%s) -/' % (p, pyname, src))
                out.append('def %s_%s_default : %s := %s' % (lean_name, p, ty, term))
            meta = []
            for what, x in prog.meta:
                if what == 'imread':
                    meta.append(('imread path', x[0]))
                    meta.append(('imread flags', ', '.join(x[1])))
                elif what == 'imwrite':
                    meta.append(('imwrite path', x))
                elif what == 'alloc':
                    meta.append(('zeros keywords', ', '.join('%s=%s' % kv for kv in x)))
                elif what == 'path':
                    meta.append(('path handed on', x))
            out.append('/-- how `%s` (%s) calls the codec / allocates, as written in the source -/' % (pyname, src))
            out.append('def %s_wiring : List (String × String) := [%s]' % (lean_name, ', '.join('(%s, %s)' % (lean_str(a), lean_str(b)) for a, b in meta)))
            params = ' '.join('(%s : %s)' % p for p in prog.params)
            what = 'the array handed to `cv2.imwrite`' if 'save' in pyname else 'the returned array; `stored` is what `cv2.imread` returned'
            out.append('/-- `%s` (%s), statement by statement: %s -/' % (pyname, src, what))
            out.append('def %s %s : Tensor α :=' % (lean_name, params))
            for n, ty, e in prog.lets:
                out.append('  let %s : %s := %s' % (n, ty, e))
            out.append('  ' + res)
            if prog.oks:
                out.append('/-- no value is cast to an unsigned integer outside `0 .. 2^bits - 1` and every store is accepted in `%s` -/' % lean_name)
                out.append('def %s_ok %s : Bool :=' % (lean_name, params))
                for n, ty, e in prog.lets:
                    out.append('  let %s : %s := %s' % (n, ty, e))
                out.append('  ' + ' && '.join(prog.oks))
            out.append('')
            done[lean_name] = prog
        except (TranslateError, KeyError, IndexError, AttributeError, TypeError) as e:
            errors.append('%s: %s' % (lean_name, e))
    out += ['end Odak.GenIC', '']
    return '\n'.join(out), errors


if __name__ == '__main__':
    t, e = generate()
    print(t)
    print(e)
