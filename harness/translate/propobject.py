"""Regenerates Generated/PropagatorObject.lean: the OBJECT `odak.learn.wave.propagator` (odak/learn/wave/propagators.py) - every method that
stores or tests an attribute - as step functions over (attributes, heap), by symbolic interpretation of the Python `ast` (odak is never executed):

    __init__ and its helpers init_distances, init_kernels, init_channel_power, init_phase_scale, set_aperture
    get_laser_powers / set_laser_powers, get_kernels, __call__, reconstruct (statement by statement; its three loops as folds; the buffer it
    allocates is a local object created per call; the default amplitude / resolution-factor plumbing between the allocation and the loops is one
    opaque numerics block)

The structure `PropagatorAttrs` has one field per `self.x = ...` found ANYWHERE in the class.  The numerics (kernel construction, `custom`, pad,
crop, field construction) are uninterpreted fields of `PropOps`: they are regenerated formula by formula in Pipelines.lean / WaveKernels.lean;
this file is about WHICH attribute and WHICH object every statement reads, writes in place, rebinds or hands out.  See objcore.py."""
import ast
from .pyexpr import TranslateError
from . import objcore as C
from .objcore import OpSpec, Region, V

FILE = 'PropagatorObject.lean'
REL = 'odak/learn/wave/propagators.py'

OPS = C.GENERIC_OPS + [
    ('tensorOfFloat', 'R → T', '`torch.tensor(x)` of a Python float'), ('tensorOfList', 'List R → T', '`torch.tensor([..])` of floats'),
    ('tensorOfInts', 'List Int → T', '`torch.tensor([..])` of ints'),
    ('linspace', 'R → R → Int → T', '`torch.linspace(a, b, n)`'),
    ('zeros', 'List Int → String → T', '`torch.zeros(shape.., dtype = ..)` (dtype "" = default)'), ('zerosLike', 'T → T', '`torch.zeros_like(x)`'),
    ('eye', 'Int → Int → T', '`torch.eye(n, m)`'), ('maxAll', 'T → T', '`torch.max(x)`'),
    ('circularMask', 'Int → Int → T → T', '`circular_binary_mask(rows, columns, size)`'),
    ('zeroPad', 'T → T', '`zero_pad(x)`'), ('cropCenter', 'T → T', '`crop_center(x)`'),
    ('kernel', 'Int → Int → R → R → T → String → List Int → Int → T',
     '`get_propagation_kernel(nu, nv, dx, wavelength, distance, propagation_type, samples, scale)`'),
    ('custom', 'T → T → T → T', '`custom(field, kernel, aperture = aperture)`'),
    ('field', 'T → T → T', '`generate_complex_field(amplitude, phase)`'),
    ('amplitude', 'T → T', '`calculate_amplitude`'), ('phase', 'T → T', '`calculate_phase`'),
    ('abs', 'T → T', '`torch.abs`'), ('cos', 'T → T', '`torch.cos`'),
    ('ifftshift', 'T → T', '`torch.fft.ifftshift`'), ('ifft2', 'T → T', '`torch.fft.ifft2`'),
    ('squeeze', 'T → Int → T', '`x.squeeze(k)`'),
    ('prepareReconstruct', 'Option T → T → Int → List Int → Int → T × T',
     'the statements of `reconstruct` between the allocation of the result and the loops: (amplitude or its default of ones on the strided '
     'lattice, the phases scattered onto that lattice when `resolution_factor != 1`, else the phases themselves) from (amplitude, phases, '
     'number_of_channels, resolution, resolution_factor)'),
]


def torch_tensor(mt, n):
    if len(n.args) != 1:
        raise mt.err('torch.tensor call %s' % ast.unparse(n), n)
    v = mt.unopt(mt.ex(n.args[0]))
    if v.kind == 'R':
        return V('(E.tensorOfFloat %s)' % v.term, 'T')
    if v.kind == ('list', 'R'):
        return V('(E.tensorOfList %s)' % v.term, 'T')
    if v.kind == ('list', 'I'):
        return V('(E.tensorOfInts %s)' % v.term, 'T')
    raise mt.err('torch.tensor of a %s' % (v.kind,), n)


def torch_zeros(mt, n):
    dims = []
    args = n.args
    if len(args) == 1 and isinstance(args[0], (ast.Tuple, ast.List)):
        args = args[0].elts
    for a in args:
        v = mt.unopt(mt.ex(a))
        if v.kind != 'I':
            raise mt.err('size %s of kind %s in %s' % (ast.unparse(a), v.kind, ast.unparse(n)[:40]), n)
        dims.append(v.term)
    dtype = '""'
    for kw in n.keywords:
        if kw.arg == 'dtype':
            d = mt.unopt(mt.ex(kw.value))
            if d.kind != 'S':
                raise mt.err('dtype %s' % ast.unparse(kw.value), n)
            dtype = d.term
        elif kw.arg not in ('device', 'requires_grad'):
            raise mt.err('keyword %s in %s' % (kw.arg, ast.unparse(n)[:40]), n)
    return V('(E.zeros [%s] %s)' % (', '.join(dims), dtype), 'T')


CALLS = {
    'torch.tensor': torch_tensor, 'torch.zeros': torch_zeros,
    'torch.zeros_like': OpSpec('zerosLike', [('input', 'T')], 'T'),
    'torch.linspace': OpSpec('linspace', [('start', 'R'), ('end', 'R'), ('steps', 'I')], 'T'),
    'torch.eye': OpSpec('eye', [('n', 'I'), ('m', 'I')], 'T'),
    'torch.max': OpSpec('maxAll', [('input', 'T')], 'T'),
    'torch.abs': OpSpec('abs', [('input', 'T')], 'T'), 'torch.cos': OpSpec('cos', [('input', 'T')], 'T'),
    'torch.fft.ifftshift': OpSpec('ifftshift', [('input', 'T')], 'T'), 'torch.fft.ifft2': OpSpec('ifft2', [('input', 'T')], 'T'),
    'circular_binary_mask': OpSpec('circularMask', [('rows', 'I'), ('columns', 'I'), ('size', 'T')], 'T'),
    'zero_pad': OpSpec('zeroPad', [('field', 'T')], 'T'), 'crop_center': OpSpec('cropCenter', [('field', 'T')], 'T'),
    'get_propagation_kernel': OpSpec('kernel', [('nu', 'I'), ('nv', 'I'), ('dx', 'R'), ('wavelength', 'R'), ('distance', 'T'),
                                                ('propagation_type', 'S'), ('samples', ('list', 'I')), ('scale', 'I')], 'T'),
    'custom': OpSpec('custom', [('field', 'T'), ('kernel', 'T'), ('aperture', 'T')], 'T'),
    'generate_complex_field': OpSpec('field', [('amplitude', 'T'), ('phase', 'T')], 'T'),
    'calculate_amplitude': OpSpec('amplitude', [('field', 'T')], 'T'), 'calculate_phase': OpSpec('phase', [('field', 'T')], 'T'),
    '.squeeze': OpSpec('squeeze', [('dim', 'I')], 'T'),
}

PARAM_KINDS = {
    'resolution': ('list', 'I'), 'wavelengths': ('list', 'R'), 'pixel_pitch': 'R', 'resolution_factor': 'I', 'number_of_frames': 'I',
    'number_of_depth_layers': 'I', 'volume_depth': 'R', 'image_location_offset': 'R', 'propagation_type': 'S', 'propagator_type': 'S',
    'back_and_forth_distance': 'R', 'laser_channel_power': ('opt', 'T'), 'aperture': ('opt', 'T'), 'aperture_size': ('opt', 'T'),
    'distances': ('opt', 'T'), 'aperture_samples': ('list', 'I'), 'method': 'S', 'device': 'Dev', 'channel_power': ('opt', 'T'),
    'laser_power': 'T', 'input_field': 'T', 'channel_id': 'I', 'depth_id': 'I', 'hologram_phases': 'T', 'amplitude': ('opt', 'T'),
    'no_grad': 'Bool', 'get_complex': 'Bool',
}

METHODS = ['__init__', 'get_laser_powers', 'set_laser_powers', 'get_kernels', '__call__', 'reconstruct']

SPEC = dict(cls='propagator', file=REL, prefix='propagator', struct='PropagatorAttrs', opsname='PropOps', ops=OPS, calls=CALLS,
            param_kinds=PARAM_KINDS, summaries={},
            regions={'reconstruct': [Region('if isinstance(amplitude, type(None))', ['amplitude', 'hologram_phases_scaled'], 'prepareReconstruct',
                                            ['amplitude', 'hologram_phases', 'self.number_of_channels', 'self.resolution', 'self.resolution_factor'],
                                            stop='for frame_id')]})


def generate():
    out = ['import OdakModel.ObjPrelude',
           '/- GENERATED by harness/translate/propobject.py from %s – do not edit. -/' % REL,
           'namespace Odak.Gen', '']
    try:
        cm = C.ClassModel(SPEC)
        extra = [m for m in cm.methods if m not in METHODS and m not in ('init_distances', 'init_kernels', 'init_channel_power', 'init_phase_scale', 'set_aperture')]
        if extra:
            raise TranslateError('propagator has the method(s) %s, which the object model does not know' % extra)
        body = C.render(cm, METHODS, '')
    except C.CATCH as e:
        return '', ['propagator object: %s' % e]
    out += C.ops_struct('PropOps', OPS, 'the numerics the propagator object model does not interpret')
    out += ['variable {T R : Type} [DecidableEq R]', '']
    out += body
    out += ['end Odak.Gen', '']
    return '\n'.join(out), []


if __name__ == '__main__':
    t, e = generate()
    print(t)
    print(e)
