"""Regenerates Generated/Constants.lean: numeric constants of the source as exact decimal literals."""
import ast
import os
from decimal import Decimal
from .pyexpr import TranslateError, find_function

REPO = os.environ.get('ODAK_REPO', '/repo')
FILE = 'Constants.lean'


def parse(rel):
    with open(os.path.join(REPO, rel)) as f:
        return ast.parse(f.read())


def sci(x):
    """python number -> Lean term over [Num α], exact decimal value of repr(x)"""
    if isinstance(x, bool):
        raise TranslateError('boolean constant')
    if isinstance(x, int):
        return '(Num.ofNat %d)' % x if x >= 0 else '(-(Num.ofNat %d))' % (-x)
    d = Decimal(repr(float(x)))
    sign, digits, exp = d.as_tuple()
    m = int(''.join(map(str, digits)))
    if exp >= 0:
        m, e, neg = m * 10 ** exp, 0, False
        t = '(Num.ofNat %d)' % m
    else:
        t = '(Num.ofSci %d true %d)' % (m, -exp)
    return '(-%s)' % t if sign else t


def default_of(fn, name):
    args = fn.args.args
    defaults = fn.args.defaults
    off = len(args) - len(defaults)
    for i, a in enumerate(args):
        if a.arg == name and i >= off:
            d = defaults[i - off]
            if isinstance(d, ast.Constant):
                return d.value
            if isinstance(d, ast.UnaryOp) and isinstance(d.op, ast.USub) and isinstance(d.operand, ast.Constant):
                return -d.operand.value
    raise TranslateError('default of %s.%s not found' % (fn.name, name))


def added_constant(fn, target):
    """the float literal added in `target = ... + <c>` (0 if the assignment adds no literal)"""
    for st in ast.walk(fn):
        if isinstance(st, ast.Assign) and isinstance(st.targets[0], ast.Name) and st.targets[0].id == target:
            v = st.value
            c = 0
            while isinstance(v, ast.BinOp) and isinstance(v.op, ast.Add):
                if isinstance(v.right, ast.Constant) and isinstance(v.right.value, float):
                    c = v.right.value
                v = v.left
            return c
    raise TranslateError('%s: assignment to %s not found' % (fn.name, target))


def generate():
    defs, errors = [], []

    def add(name, f):
        try:
            defs.append((name, sci(f())))
        except (TranslateError, OSError, SyntaxError, KeyError, IndexError, AttributeError) as e:
            errors.append('%s: %s' % (name, e))
            defs.append((name, '(Num.ofNat 0)'))

    lb = 'odak/learn/raytracing/boundary.py'
    nb = 'odak/raytracing/boundary.py'
    add('reflectEpsTorch', lambda: added_constant(find_function(parse(lb), 'reflect'), 'div'))
    add('reflectEpsNumpy', lambda: added_constant(find_function(parse(nb), 'reflect'), 'div'))
    add('refractDefaultError', lambda: default_of(find_function(parse(lb), 'refract'), 'error'))
    add('parametricIterLimit', lambda: default_of(find_function(parse(nb), 'intersect_parametric'), 'iter_no_limit'))
    add('parametricTargetError', lambda: default_of(find_function(parse(nb), 'intersect_parametric'), 'target_error'))
    def cone_coeff(fname):
        fn = find_function(parse('odak/learn/raytracing/ray.py'), fname)
        for st in ast.walk(fn):
            if isinstance(st, ast.Assign) and isinstance(st.targets[0], ast.Name) and st.targets[0].id == 'theta':
                src = ast.unparse(st.value)
                # theta = acos(1 - <c> * rand(...) * (1 - cos_alpha))
                v = st.value
                if not (isinstance(v, ast.Call) and ast.unparse(v.func).endswith('acos')):
                    raise TranslateError('theta is not an acos: ' + src)
                e = v.args[0]
                if not (isinstance(e, ast.BinOp) and isinstance(e.op, ast.Sub) and isinstance(e.left, ast.Constant) and e.left.value == 1):
                    raise TranslateError('unexpected cone expression ' + src)
                coeff, has_rand, has_cap = 1, False, False

                def factors(x):
                    if isinstance(x, ast.BinOp) and isinstance(x.op, ast.Mult):
                        return factors(x.left) + factors(x.right)
                    return [x]
                for fct in factors(e.right):
                    if isinstance(fct, ast.Constant) and isinstance(fct.value, (int, float)):
                        coeff *= fct.value
                    elif 'rand' in ast.unparse(fct):
                        has_rand = True
                    elif ast.unparse(fct).replace(' ', '') in ('1-cos_alpha', '(1-cos_alpha)'):
                        has_cap = True
                    else:
                        raise TranslateError('unexpected factor %s in %s' % (ast.unparse(fct), src))
                if not (has_rand and has_cap):
                    raise TranslateError('unexpected cone expression ' + src)
                return coeff
        raise TranslateError(fname + ': theta assignment not found')
    add('coneCoeffPoint', lambda: cone_coeff('create_ray_from_point_w_luminous_angle'))
    add('coneCoeffGrid', lambda: cone_coeff('create_ray_from_grid_w_luminous_angle'))
    try:
        from . import colour_constants
        colour_constants.collect(add, defs, errors)
    except ImportError:
        pass
    out = ['/- GENERATED by harness/translate/constants.py from the source under /repo – do not edit. -/',
           'import OdakModel.Num', 'namespace Odak.Gen', 'variable {α : Type} [Num α]', '']
    for name, term in defs:
        out.append('def %s : α := %s' % (name, term))
    out += ['', 'end Odak.Gen', '']
    return '\n'.join(out), errors


if __name__ == '__main__':
    t, e = generate()
    print(t, e)
