"""Regenerates Generated/PadCrop.lean: `zero_pad` and `crop_center` of odak/learn/tools/matrix.py (torch) and odak/tools/matrix.py
(NumPy) translated statement by statement at the TENSOR level (odak is never executed).  Every Python statement becomes one Lean
`let` over the tensor vocabulary of lean/OdakModel/TensorPrelude.lean + TensorPadPrelude.lean: the rank handling
(`len(field.shape) < 3`, `unsqueeze(0)`), the channels-last heuristic (`field.shape[-1] < 5`, `permute(0, 3, 1, 2)` and back), the
allocation (`torch.zeros(resolution, ...)`), the slice store `out[:, :, a:b, c:d] = field` / `np.pad(field, ((b0, a0), (b1, a1)))`,
the slice read of `crop_center`, the `squeeze(0)` calls on the way out are written down with the arguments the source gives them; the
index expressions are Python integers (`Int` as soon as a subtraction is involved, so a negative start wraps as in Python).
What the operations MEAN is the hand-written Lean semantics; that the result is "the content at the shifted position, zeros around it"
for every accepted rank / layout is a Lean theorem (OdakProofs/Lemmas/GenPadCrop*.lean, corollaries `C08_gen_*`).

A function is translated once per CASE the source distinguishes statically: `size` given or `None` (`type(size) == type(None)`) and
the value of `method`.  The variant `<f>_default` / `<f>_explicit` uses the default of `method` found in the signature.
Beside every definition `<f>` there is `<f>_ok : Bool`: the conjunction of the conditions under which Python accepts the slice
stores / pads of that run (shape of the stored value broadcastable to the window; non-negative pad widths, one pair per axis).

Additional kinds of values (see colourtensors.py for T, TB, TN, F, I, N, S, TUP, O): Z Python integer as a Lean `Int` term,
B Python bool as a Lean `Bool` term, NONE the value None, STR a string constant, PC a condition decided at translation time.
Anything outside the grammar raises TranslateError: the error is returned and `generate_all` keeps the accepted file."""
import ast
import os
import re
from .pyexpr import TranslateError, find_function
from .constants import sci
from .colourtensors import Fn, V, lname, intlit, TYPES as BASE_TYPES

REPO = os.environ.get('ODAK_REPO', '/repo')
FILE = 'PadCrop.lean'
SRC_TORCH = 'odak/learn/tools/matrix.py'
SRC_NP = 'odak/tools/matrix.py'

TYPES = dict(BASE_TYPES)
TYPES.update({'Z': 'Int', 'B': 'Bool'})
IDENT_CALLS = ('np.copy', 'np.asarray', 'np.array', 'np.ascontiguousarray', 'torch.clone')


def lean_str(s):
    return '"' + s.replace('\\', '\\\\').replace('"', '\\"').replace('\n', '\\n') + '"'


class Prog(Fn):
    """statement-by-statement translation of a function body under fixed static facts (which parameters are None, string values)"""

    def __init__(self, fn, static):
        Fn.__init__(self, fn, False)
        self.static = static          # {param: V}
        self.oks = []                 # names of the Bool lets that say "Python accepts this store / pad"
        self.meta = []                # (what, text): keyword arguments of allocations etc.

    # ---------------------------------------------------------------- lets
    def let(self, name, v):
        if v.kind in TYPES:
            self.lets.append((lname(name), TYPES[v.kind], v.term))
            nv = V(v.kind, lname(name), value=v.value)
        elif v.kind == 'TUP' and v.items and all(x.kind in TYPES for x in v.items):
            items = []
            for k, x in enumerate(v.items):
                nm = '%s_%d' % (lname(name), k)
                self.lets.append((nm, TYPES[x.kind], x.term))
                items.append(V(x.kind, nm, value=x.value))
            nv = V('TUP', items=items)
        else:
            nv = v
        self.env[name] = nv
        return nv

    # ---------------------------------------------------------------- integers
    def as_int(self, v, what):
        if v.kind == 'Z':
            return v.term
        if v.kind == 'N':
            return '((%s : Nat) : Int)' % v.term
        if v.kind == 'I':
            return '(%d : Int)' % v.value if v.value >= 0 else '(-%d : Int)' % (-v.value)
        raise TranslateError('%s: a %s where an integer is expected' % (what, v.kind))

    def ev(self, node):
        if isinstance(node, ast.Constant):
            if isinstance(node.value, bool):
                return V('B', 'true' if node.value else 'false', value=node.value)
            if node.value is None:
                return V('NONE')
            if isinstance(node.value, str):
                return V('STR', value=node.value)
        if isinstance(node, ast.Attribute):
            src = ast.unparse(node)
            if src.endswith('.dtype') or src.endswith('.device'):
                return V('O', value=src)
        return Fn.ev(self, node)

    def binop(self, node):
        what = ast.unparse(node)
        a, b = self.ev(node.left), self.ev(node.right)
        ints = ('N', 'Z', 'I')
        if a.kind in ints and b.kind in ints and not (a.kind == 'I' and b.kind == 'I'):
            if isinstance(node.op, (ast.Add, ast.Mult)):
                sym = '+' if isinstance(node.op, ast.Add) else '*'
                if 'Z' in (a.kind, b.kind) or (a.kind == 'I' and a.value < 0) or (b.kind == 'I' and b.value < 0):
                    return V('Z', '(%s %s %s)' % (self.as_int(a, what), sym, self.as_int(b, what)))
                return V('N', '(%s %s %s)' % (self.as_nat(a, what), sym, self.as_nat(b, what)))
            if isinstance(node.op, ast.Sub):
                return V('Z', '(%s - %s)' % (self.as_int(a, what), self.as_int(b, what)))
            if isinstance(node.op, ast.FloorDiv):
                if b.kind != 'I' or b.value <= 0:
                    raise TranslateError('floor division by something that is not a positive literal: ' + what)
                if a.kind == 'N':
                    return V('N', '(%s / %d)' % (a.term, b.value))
                return V('Z', '(%s / (%d : Int))' % (self.as_int(a, what), b.value))      # Int `/` is floor division for a positive divisor
            raise TranslateError('unsupported integer operator in ' + what)
        if a.kind == 'I' and b.kind == 'I' and isinstance(node.op, ast.FloorDiv) and b.value > 0:
            return V('I', value=a.value // b.value)
        return Fn.binop(self, node)

    def compare(self, node):
        what = ast.unparse(node)
        if len(node.ops) == 1 and isinstance(node.ops[0], (ast.Eq, ast.NotEq, ast.Is, ast.IsNot)):
            a, b = self.ev(node.left), self.ev(node.comparators[0])
            pos = isinstance(node.ops[0], (ast.Eq, ast.Is))
            if a.kind in ('TYPE', 'NONE', 'STR') and b.kind in ('TYPE', 'NONE', 'STR'):
                return V('PC', value=((a.kind, a.value) == (b.kind, b.value)) == pos)
            if a.kind == 'B' and b.kind == 'B':
                if b.value is not None:
                    return V('P', '(%s = %s)' % (a.term, b.term if pos else ('false' if b.value else 'true')))
                return V('P', '(%s %s %s)' % (a.term, '=' if pos else '≠', b.term))
        if len(node.ops) == 1:
            a, b = self.ev(node.left), self.ev(node.comparators[0])
            if 'Z' in (a.kind, b.kind) and a.kind in ('N', 'Z', 'I') and b.kind in ('N', 'Z', 'I'):
                syms = {ast.Eq: '=', ast.NotEq: '≠', ast.Lt: '<', ast.LtE: '≤', ast.Gt: '>', ast.GtE: '≥'}
                for t, s in syms.items():
                    if isinstance(node.ops[0], t):
                        return V('P', '(%s %s %s)' % (self.as_int(a, what), s, self.as_int(b, what)))
        return Fn.compare(self, node)

    def cond(self, node):
        """condition of an `if`: PC (decided now) or P (a Lean proposition)"""
        if isinstance(node, ast.BoolOp):
            parts = [self.cond(x) for x in node.values]
            is_and = isinstance(node.op, ast.And)
            dyn = []
            for p in parts:
                if p.kind == 'PC':
                    if p.value != is_and:          # False in an `and`, True in an `or` decides
                        return V('PC', value=not is_and)
                else:
                    dyn.append(p)
            if not dyn:
                return V('PC', value=is_and)
            return dyn[0] if len(dyn) == 1 else V('P', '(' + (' ∧ ' if is_and else ' ∨ ').join(p.term for p in dyn) + ')')
        if isinstance(node, ast.UnaryOp) and isinstance(node.op, ast.Not):
            p = self.cond(node.operand)
            return V('PC', value=not p.value) if p.kind == 'PC' else V('P', '(¬ %s)' % p.term)
        v = self.ev(node)
        if v.kind == 'B':
            return V('PC', value=v.value) if v.value is not None and v.term in ('true', 'false') else V('P', '(%s = true)' % v.term)
        if v.kind in ('P', 'PC'):
            return v
        raise TranslateError('unsupported condition ' + ast.unparse(node))

    # ---------------------------------------------------------------- subscripts
    def slice_list(self, sl, what):
        elts = list(sl.elts) if isinstance(sl, ast.Tuple) else [sl]
        out = []
        for e in elts:
            if not isinstance(e, ast.Slice) or e.step is not None:
                return None
            if e.lower is None and e.upper is None:
                out.append('none')
                continue
            if e.upper is None:
                raise TranslateError('slice without an upper bound in ' + what)
            lo = '(0 : Int)' if e.lower is None else self.as_int(self.ev(e.lower), what)
            out.append('(some (%s, %s))' % (lo, self.as_int(self.ev(e.upper), what)))
        return '[' + ', '.join(out) + ']'

    def subscript(self, node):
        what = ast.unparse(node)
        base = self.ev(node.value)
        if base.kind == 'S':
            return V('N', '(Tensor.pyGet %s %s)' % (base.term, intlit(self.int_const(node.slice, what))))
        if base.kind == 'T':
            sl = self.slice_list(node.slice, what)
            if sl is not None:
                return V('T', '(Tensor.slices %s %s)' % (base.term, sl))
        return Fn.subscript(self, node)

    # ---------------------------------------------------------------- calls
    def call(self, node):
        what = ast.unparse(node)
        f = ast.unparse(node.func)
        if f == 'type' and len(node.args) == 1:
            v = self.ev(node.args[0])
            if v.kind == 'NONE':
                return V('TYPE', value='NoneType')
            if v.kind in ('S', 'TUP'):
                return V('TYPE', value='list')
            raise TranslateError('unsupported ' + what)
        if f == 'int' and len(node.args) == 1:
            v = self.ev(node.args[0])
            if v.kind in ('N', 'Z', 'I'):
                return v
            raise TranslateError('int() of something that is not an integer: ' + what)
        if f == 'len' and len(node.args) == 1:
            v = self.ev(node.args[0])
            if v.kind == 'TUP':
                return V('I', value=len(v.items))
        if f in IDENT_CALLS and len(node.args) == 1:
            v = self.ev(node.args[0])
            if v.kind == 'T':
                return v
        if f in ('torch.zeros', 'np.zeros'):
            pos = [a for a in node.args]
            k, s = self.shape_args(pos, what)
            sh = s if k == 'S' else '[' + ', '.join(self.as_nat(x, what) for x in s) + ']'
            kws = sorted((kw.arg, ' '.join(ast.unparse(kw.value).split())) for kw in node.keywords)
            self.meta.append(('alloc', kws))
            return V('T', '(Tensor.zeros %s)' % sh)
        if f in ('np.pad', 'numpy.pad'):
            return self.np_pad(node, what)
        return Fn.call(self, node)

    def np_pad(self, node, what):
        a = self.ev(node.args[0])
        wnode = self.kw(node, ('pad_width',), 1)
        if a.kind != 'T' or wnode is None:
            raise TranslateError('unsupported ' + what)
        w = self.ev(wnode)
        if w.kind != 'TUP' or not all(x.kind == 'TUP' and len(x.items) == 2 for x in w.items):
            raise TranslateError('pad widths are not a list of pairs: ' + what)
        mode = self.kw(node, ('mode',), 2)
        if mode is not None and not (isinstance(mode, ast.Constant) and mode.value == 'constant'):
            raise TranslateError('np.pad with a mode other than constant: ' + what)
        cv = self.kw(node, ('constant_values',), None)
        c = V('I', value=0)
        if cv is not None:
            c = self.ev(cv)
            if c.kind == 'TUP':
                if not c.items or any(x.kind != 'I' or x.value != c.items[0].value for x in c.items):
                    raise TranslateError('different constants before and after: ' + what)
                c = c.items[0]
        for k in node.keywords:
            if k.arg not in ('pad_width', 'mode', 'constant_values'):
                raise TranslateError('unsupported keyword of np.pad: ' + what)
        widths = '[' + ', '.join('(%s, %s)' % (self.as_int(x.items[0], what), self.as_int(x.items[1], what)) for x in w.items) + ']'
        src = a if a.term.replace('_', '').isalnum() else self.fresh(a, 'padded')
        self.oks.append(self.fresh(V('B', '(Tensor.padOk %s %s)' % (src.term, widths)), 'ok').term)
        return V('T', '(Tensor.padConst %s %s %s)' % (src.term, widths, self.as_float(c, what)))

    def method(self, node, what):
        m = node.func.attr
        if m == 'squeeze' and not node.args and not node.keywords:
            a = self.ev(node.func.value)
            if a.kind == 'T':
                return V('T', '(Tensor.squeezeAll %s)' % a.term)
        if m == 'copy' and not node.args:
            a = self.ev(node.func.value)
            if a.kind == 'T':
                return a
        return Fn.method(self, node, what)

    # ---------------------------------------------------------------- statements
    def assign(self, target, value_node, what):
        if isinstance(target, ast.Subscript) and isinstance(target.value, ast.Name) and target.value.id in self.env \
                and self.env[target.value.id].kind == 'T':
            sl = self.slice_list(target.slice, what)
            if sl is not None:
                base = self.env[target.value.id]
                v = self.ev(value_node)
                vt = self.as_tensor(v, what)
                self.oks.append(self.fresh(V('B', '(Tensor.storeOk %s %s %s)' % (base.term, sl, vt)), 'ok').term)
                self.let(target.value.id, V('T', '(Tensor.setSlices %s %s %s)' % (base.term, sl, vt)))
                return
        if isinstance(target, ast.Name):
            v = self.ev(value_node)
            if v.kind == 'UNBIND':
                raise TranslateError('unbind assigned to one name: ' + what)
            self.let(target.id, v)
            return
        Fn.assign(self, target, value_node, what)

    def branch(self, body, what):
        """run the simple assignments of a dynamic branch in a copy of the environment; returns {name: value}"""
        saved_env, saved_lets, saved_oks = dict(self.env), list(self.lets), list(self.oks)
        assigned = {}
        try:
            for st in body:
                if isinstance(st, ast.Expr) and isinstance(st.value, ast.Constant):
                    continue
                if isinstance(st, ast.Pass):
                    continue
                if not (isinstance(st, ast.Assign) and len(st.targets) == 1 and isinstance(st.targets[0], ast.Name)):
                    raise TranslateError('unsupported statement inside a conditional: ' + what)
                v = self.ev(st.value)
                if v.kind not in TYPES:
                    raise TranslateError('unsupported value inside a conditional: ' + what)
                self.env[st.targets[0].id] = v          # inline (no let): later statements of the branch see the term
                assigned[st.targets[0].id] = v
            if len(self.lets) != len(saved_lets) or len(self.oks) != len(saved_oks):
                raise TranslateError('a store / pad / temporary inside a conditional: ' + what)
        finally:
            self.env, self.lets, self.oks = saved_env, saved_lets, saved_oks
        return assigned

    def block(self, body):
        """returns the returned value, or None"""
        for st in body:
            what = ' '.join(ast.unparse(st).split())[:100]
            if isinstance(st, ast.Expr) and isinstance(st.value, ast.Constant):
                continue
            if isinstance(st, ast.Pass):
                continue
            if isinstance(st, ast.Return):
                v = self.ev(st.value)
                if v.kind != 'T':
                    raise TranslateError('the returned value is not a tensor: ' + what)
                return v
            if isinstance(st, ast.Assign) and len(st.targets) == 1:
                self.assign(st.targets[0], st.value, what)
                continue
            if isinstance(st, ast.If):
                c = self.cond(st.test)
                if c.kind == 'PC':
                    r = self.block(st.body if c.value else st.orelse)
                    if r is not None:
                        return r
                    continue
                yes, no = self.branch(st.body, what), self.branch(st.orelse, what)
                c = self.fresh(V('B', '(decide %s)' % c.term), 'cond')      # the test is evaluated once, before the branch assigns
                merged = []
                for n in list(yes) + [n for n in no if n not in yes]:
                    for br in (yes, no):
                        if n not in br and n not in self.env:
                            raise TranslateError('%s is assigned in one branch only: %s' % (n, what))
                    a = yes[n] if n in yes else self.env[n]
                    b = no[n] if n in no else self.env[n]
                    if a.kind != b.kind or a.kind not in TYPES:
                        raise TranslateError('branches of different kinds: ' + what)
                    merged.append((n, V(a.kind, '(if %s = true then %s else %s)' % (c.term, a.term, b.term))))
                for k, (n, v) in enumerate(merged):
                    for n2, v2 in merged[k + 1:]:          # a later merged value must not read a name this let is about to shadow
                        if re.search(r'(?<![\w.])%s(?![\w])' % re.escape(lname(n)), v2.term):
                            raise TranslateError('branch reads %s after assigning it: %s' % (n, what))
                    self.let(n, v)
                continue
            raise TranslateError('unsupported statement ' + what)
        return None

    def run(self):
        args = self.fn.args
        off = len(args.args) - len(args.defaults)
        self.sig_defaults = {}
        for i, a in enumerate(args.args):
            if i >= off:
                d = args.defaults[i - off]
                self.sig_defaults[a.arg] = d.value if isinstance(d, ast.Constant) else ast.unparse(d)
            if a.arg in self.static:
                v = self.static[a.arg]
                if v.kind in TYPES:
                    self.params.append((v.term, TYPES[v.kind]))
                self.env[a.arg] = v
            else:
                self.params.append((lname(a.arg), 'Tensor α'))
                self.env[a.arg] = V('T', lname(a.arg))
        r = self.block(self.fn.body)
        if r is None:
            raise TranslateError('no return statement')
        return r.term


def emit(out, lean_name, doc, prog, res):
    params = ' '.join('(%s : %s)' % p for p in prog.params)
    out.append('/-- %s -/' % doc)
    out.append('def %s %s : Tensor α :=' % (lean_name, params))
    for n, ty, e in prog.lets:
        out.append('  let %s : %s := %s' % (n, ty, e))
    out.append('  ' + res)
    if not prog.oks:
        out.append('')
        return
    out.append('/-- Python accepts every slice store / pad of `%s` (otherwise it raises) -/' % lean_name)
    out.append('def %s_ok %s : Bool :=' % (lean_name, params))
    for n, ty, e in prog.lets:
        out.append('  let %s : %s := %s' % (n, ty, e))
    out.append('  ' + ' && '.join(prog.oks))
    out.append('')


# (lean name, source file, python name, size given?, method: None = the default of the signature | a string)
JOBS = [('torch_zero_pad_default', SRC_TORCH, 'zero_pad', False, None),
        ('torch_zero_pad_explicit', SRC_TORCH, 'zero_pad', True, None),
        ('torch_zero_pad_left_default', SRC_TORCH, 'zero_pad', False, 'left'),
        ('torch_zero_pad_left_explicit', SRC_TORCH, 'zero_pad', True, 'left'),
        ('torch_crop_center_default', SRC_TORCH, 'crop_center', False, None),
        ('torch_crop_center_explicit', SRC_TORCH, 'crop_center', True, None),
        ('np_zero_pad_default', SRC_NP, 'zero_pad', False, None),
        ('np_zero_pad_explicit', SRC_NP, 'zero_pad', True, None),
        ('np_zero_pad_left_default', SRC_NP, 'zero_pad', False, 'left aligned'),
        ('np_zero_pad_left_explicit', SRC_NP, 'zero_pad', True, 'left aligned'),
        ('np_crop_center_default', SRC_NP, 'crop_center', False, None),
        ('np_crop_center_explicit', SRC_NP, 'crop_center', True, None)]


def generate():
    errors = []
    out = ['/- GENERATED by harness/translate/padcrop.py from %s and %s – do not edit. -/' % (SRC_TORCH, SRC_NP),
           'import OdakModel.TensorPadPrelude', 'namespace Odak.GenPC', 'open Odak', 'variable {α : Type} [Num α]', '']
    trees = {}
    for src in (SRC_TORCH, SRC_NP):
        try:
            with open(os.path.join(REPO, src)) as f:
                trees[src] = ast.parse(f.read())
        except (OSError, SyntaxError) as e:
            errors.append('%s: %s' % (src, e))
    if errors:
        return '\n'.join(out + ['end Odak.GenPC', '']), errors
    meta_done = set()
    for lean_name, src, pyname, explicit, method in JOBS:
        try:
            fn = find_function(trees[src], pyname)
            names = [a.arg for a in fn.args.args]
            off = len(names) - len(fn.args.defaults)
            static = {}
            if 'size' not in names:
                raise TranslateError('no parameter `size`')
            static['size'] = V('S', 'size') if explicit else V('NONE')
            if not explicit:
                d = fn.args.defaults[names.index('size') - off] if names.index('size') >= off else None
                if not (isinstance(d, ast.Constant) and d.value is None):
                    raise TranslateError('the default of `size` is not None')
            mdefault = None
            if 'method' in names:
                d = fn.args.defaults[names.index('method') - off] if names.index('method') >= off else None
                if not (isinstance(d, ast.Constant) and isinstance(d.value, str)):
                    raise TranslateError('the default of `method` is not a string')
                mdefault = d.value
                static['method'] = V('STR', value=mdefault if method is None else method)
            elif method is not None:
                raise TranslateError('no parameter `method`')
            api = 'torch' if src == SRC_TORCH else 'np'
            if (api, pyname) not in meta_done and mdefault is not None:
                out.append('/-- default of the parameter `method` of %s `%s` -/' % (api, pyname))
                out.append('def %s_%s_method : String := %s' % (api, pyname, lean_str(mdefault)))
                out.append('')
            prog = Prog(fn, static)
            res = prog.run()
            if (api, pyname) not in meta_done:
                allocs = [kws for what, kws in prog.meta if what == 'alloc']
                if allocs:
                    out.append('/-- keyword arguments of the allocation(s) `zeros(...)` of %s `%s` as written in the source -/' % (api, pyname))
                    out.append('def %s_%s_alloc : List (List (String × String)) := [%s]' % (
                        api, pyname, ', '.join('[' + ', '.join('(%s, %s)' % (lean_str(k), lean_str(v)) for k, v in kws) + ']' for kws in allocs)))
                    out.append('')
            meta_done.add((api, pyname))
            doc = '%s `%s` (%s), %s%s, statement by statement' % (
                api, pyname, src, '`size` given' if explicit else '`size = None`',
                '' if 'method' not in static else ', `method = %r`' % static['method'].value)
            emit(out, lean_name, doc, prog, res)
        except (TranslateError, KeyError, IndexError, AttributeError, TypeError) as e:
            errors.append('%s: %s' % (lean_name, e))
    out += ['end Odak.GenPC', '']
    return '\n'.join(out), errors


if __name__ == '__main__':
    t, e = generate()
    print(t)
    print(e)
