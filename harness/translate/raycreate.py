"""Regenerates Generated/RayCreate.lean and Generated/RayCreateBatch.lean: the ray-CREATION routines of odak,

    odak/learn/raytracing/ray.py   (torch)  create_ray  (`direction = False` and `direction = True`)
    odak/raytracing/ray.py         (NumPy)  create_ray, create_ray_from_angles, calculate_intersection_of_two_rays, find_nearest_points

translated statement by statement by the symbolic tensor interpreter of batchcore.py (conventions of geombatch.py: a batch of m
points is `Fin m → Vec3 α`, a definition takes the index of the output ray it describes, every definition is translated under
each assumption on ranks / batch sizes the source distinguishes - `len(xyz.shape) == 1`, a `[3]` point instead of `[1 x 3]` - and
the element terms must agree).  No execution of odak.

What this module adds to the interpreter (class RInterp): `cos` / `sin` / `radians` / `deg2rad`, `np.array` of a list of rows,
`x == c` masks, augmented stores (`a[:, 2] += 5.`), `a = b = value`, unpacking of a `[3]` list, data-dependent `if` whose arms
assign (both arms are run to the return and merged element by element), `np.all`, `np.argsort` of a pair, small `np.dot`, and three
calls that stay calls in the generated text:
  * `rotate_points(points, angles, mode, origin, offset)` -> `npRotatePointsCall mode angles origin offset p anglesZero` row by row
    (OdakModel/GenSamplePrelude.lean; WHICH arguments the call gets - in particular the `offset` - is read off the source, the
    parameter order off the signature of `rotate_points`),
  * `np.linalg.lstsq(A, B, rcond=None)[0]` for a 3 x 2 matrix -> `Num.lstsq32` (normal equations; full column rank only),
  * `np.allclose(x, y)` with the default tolerances -> `Num.allclose3`
(OdakModel/RayCreatePrelude.lean).

The single-ray definitions go to RayCreate.lean, the definition with an explicit batch axis (`create_ray_from_angles` for an
`[m x 3]` array of start points) to RayCreateBatch.lean: each file has its own entry in generate_all (this module and raycreatebatch.py)
and is written only if EVERY definition of it could be translated (never a partial model); an edit that only makes sense for one point (`offset = point[:, 0]`) therefore changes RayCreate.lean -
and breaks its tie theorem - while RayCreateBatch.lean reports a translator error and keeps the accepted text.

Tie theorems: lean/OdakProofs/Lemmas/GenRayCreate.lean; executable tie: harness/props/genrays.py."""
import ast
import copy
import os
from .pyexpr import TranslateError, find_function
from . import batchcore as bc
from . import geombatch as gb
from .batchcore import Engine, T, PList, Opaque, Returned, mk, lit, mknot, N

REPO = os.environ.get('ODAK_REPO', '/repo')
FILE = 'RayCreate.lean'
FILE_BATCH = 'RayCreateBatch.lean'
LR, NR = 'odak/learn/raytracing/ray.py', 'odak/raytracing/ray.py'


def tree(rel):
    if rel not in gb._trees:
        with open(os.path.join(REPO, rel)) as f:
            gb._trees[rel] = ast.parse(f.read())
    return gb._trees[rel]


def resolve(rel, name, depth=0):
    """geombatch.resolve, plus `from .module import *`"""
    r = gb.resolve(rel, name)
    if r is not None or depth > 4:
        return r
    try:
        tr = tree(rel)
    except (OSError, SyntaxError):
        return None
    for n in tr.body:
        if isinstance(n, ast.ImportFrom) and n.level > 0 and n.module:
            d = os.path.dirname(rel)
            for _ in range(n.level - 1):
                d = os.path.dirname(d)
            base = os.path.join(d, *n.module.split('.'))
            for cand in (base + '.py', os.path.join(base, '__init__.py')):
                if not os.path.exists(os.path.join(REPO, cand)):
                    continue
                if any(a.name == '*' for a in n.names) or any((a.asname or a.name) == name for a in n.names):
                    r = resolve(cand, name, depth + 1)
                    if r is not None:
                        return r
    return None


class StrParam:
    """a string parameter that stays a variable of the generated definition (`mode`)"""

    def __init__(self, name):
        self.name = name


class Perm2:
    """`np.argsort(x)` for a pair: `[0, 1]` if `cond` else `[1, 0]`"""

    def __init__(self, cond):
        self.cond = cond


ZERO = '(Num.ofNat 0)'


class RInterp(bc.Interp):
    def fork(self):
        return RInterp(self.e, self.env, self.fname, self.rel)

    # -------------------------------------------------------------------------------------------------- expressions
    def compare(self, node):
        e = self.e
        if len(node.ops) == 1 and isinstance(node.ops[0], (ast.Eq, ast.NotEq)):
            l, r = self.ev(node.left), self.ev(node.comparators[0])
            neg = isinstance(node.ops[0], ast.NotEq)
            num = lambda v: isinstance(v, (int, float)) and not isinstance(v, bool)
            if isinstance(l, T) and l.kind == 'b' and ((isinstance(r, bool) and not r) or (num(r) and r == 0)):
                return l if neg else e.ew1(mknot, l)              # `flag == False`, `np.all(x) == 0`
            if isinstance(l, T) and l.kind == 'b' and isinstance(r, bool) and r:
                return e.ew1(mknot, l) if neg else l
            if isinstance(l, T) and l.kind == 's' and (num(r) or (isinstance(r, T) and r.kind == 's')):
                t = e.ew(lambda x, y: mk('eqb', x, y), l, e.as_t(r), 'b', ' in ' + ast.unparse(node))
                return e.ew1(mknot, t) if neg else t
        return super().compare(node)

    def subscript(self, node):
        if isinstance(node.slice, ast.Call) and ast.unparse(node.slice.func) in ('np.argsort', 'torch.argsort'):
            base, p = self.ev(node.value), self.ev(node.slice)
            if isinstance(base, T) and base.shape == [2] and isinstance(p, Perm2):
                a, b = base.fn([0]), base.fn([1])
                return T([2], lambda idx: mk('ite', p.cond, a, b) if idx[0] == 0 else mk('ite', p.cond, b, a), base.kind)
            raise TranslateError('unsupported permutation ' + ast.unparse(node))
        return super().subscript(node)

    def stack(self, items, src):
        """`np.array([row, row, ...])`: a new leading axis"""
        e = self.e
        rows = []
        for x in items:
            if isinstance(x, (list, tuple)):
                x = self.stack(x, src)
            rows.append(e.as_t(x, ' in ' + src))
        if not rows:
            raise TranslateError('empty array ' + src)
        shape = rows[0].shape
        for r in rows:
            if len(r.shape) != len(shape) or not all(e.deq(a, b) for a, b in zip(r.shape, shape)) or r.kind != rows[0].kind:
                raise TranslateError('rows of different shape in ' + src)

        def fn(idx):
            if not isinstance(idx[0], int):
                raise TranslateError('symbolic index into the literal array ' + src)
            return rows[idx[0]].fn(idx[1:])
        return T([len(rows)] + list(shape), fn, rows[0].kind)

    def builtin(self, f, args, kws, src):
        e = self.e
        one_t = len(args) == 1 and isinstance(args[0], T) and args[0].kind == 's'
        if f in ('np.cos', 'torch.cos', 'math.cos') and one_t and not kws:
            return e.ew1(self.scalar_fn1('Num.cos'), args[0])
        if f in ('np.sin', 'torch.sin', 'math.sin') and one_t and not kws:
            return e.ew1(self.scalar_fn1('Num.sin'), args[0])
        if f in ('np.radians', 'np.deg2rad', 'torch.deg2rad', 'math.radians') and one_t and not kws:
            return e.ew1(self.scalar_fn1('Num.radians'), args[0])
        if f == 'float' and one_t and not self.sig(args[0].shape):
            return args[0]
        if f in ('np.array', 'np.asarray', 'np.stack', 'torch.stack', 'torch.tensor') and len(args) == 1 and isinstance(args[0], (list, tuple)) \
                and not kws:
            return self.stack(args[0], src)
        if f == 'np.linalg.lstsq' and len(args) == 2 and all(isinstance(a, T) and a.kind == 's' for a in args):
            if set(kws) - {'rcond'} or ('rcond' in kws and self.ev(kws['rcond']) is not None):
                raise TranslateError('unsupported lstsq options in ' + src)
            A, B = args
            if A.shape != [3, 2] or B.shape != [3]:
                raise TranslateError('%s: only a 3 x 2 system is modelled (shapes %r, %r)' % (src, A.shape, B.shape))
            c0, c1 = tuple(A.fn([r, 0]) for r in range(3)), tuple(A.fn([r, 1]) for r in range(3))
            b = tuple(B.fn([r]) for r in range(3))
            return PList([T([2], lambda idx: mk('lstsq', idx[0], c0, c1, b)), Opaque(), Opaque(), Opaque()])
        if f == 'np.allclose' and len(args) == 2 and all(isinstance(a, T) and a.kind == 's' for a in args):
            if kws:
                raise TranslateError('allclose with explicit tolerances: ' + src)
            x, y = args
            if x.shape != [3] or y.shape != [3]:
                raise TranslateError('%s: only two [3] arrays are compared (shapes %r, %r)' % (src, x.shape, y.shape))
            n = mk('allclose', tuple(x.fn([c]) for c in range(3)), tuple(y.fn([c]) for c in range(3)))
            return T([], lambda idx: n, 'b')
        if f in ('np.dot', 'np.matmul') and len(args) == 2 and all(isinstance(a, T) and a.kind == 's' for a in args) \
                and len(args[0].shape) == 2 and len(args[1].shape) == 1 and isinstance(args[0].shape[1], int) and args[0].shape[1] != 3:
            a, b = args
            q = a.shape[1]
            if b.shape != [q] or q < 1:
                raise TranslateError('matrix-vector product of %r and %r in %s' % (a.shape, b.shape, src))

            def fn(idx):
                terms = [mk('bin', '*', a.fn([idx[0], c]), b.fn([c])) for c in range(q)]
                r = terms[0]
                for t in terms[1:]:
                    r = mk('bin', '+', r, t)
                return r
            return T([a.shape[0]], fn)
        if f == 'np.all' and len(args) == 1 and isinstance(args[0], T) and not kws:
            t = args[0]
            if not t.shape or not all(isinstance(d, int) for d in t.shape) or len(t.shape) != 1:
                raise TranslateError('%s over a %r array' % (src, t.shape))
            z = lit(ZERO)
            tr = [t.fn([c]) if t.kind == 'b' else mknot(mk('eqb', t.fn([c]), z)) for c in range(t.shape[0])]
            r = tr[0]
            for x in tr[1:]:
                r = mk('and', r, x)
            return T([], lambda idx: r, 'b')
        if f in ('np.argsort', 'torch.argsort') and one_t and not kws:
            t = args[0]
            if t.shape != [2]:
                raise TranslateError('%s: only a pair is sorted (shape %r)' % (src, t.shape))
            return Perm2(mk('cmp', '≤', t.fn([0]), t.fn([1])))          # stable, ascending
        return super().builtin(f, args, kws, src)

    # -------------------------------------------------------------------------------------------------- calls
    def call(self, node):
        if isinstance(node.func, ast.Name) and node.func.id == 'rotate_points':
            return self.rotate_points(node)
        return super().call(node)

    def rotate_points(self, node):
        e = self.e
        src = ast.unparse(node)
        target = resolve(self.rel, 'rotate_points')
        if target is None:
            raise TranslateError('rotate_points is not defined or imported in ' + self.rel)
        rel, fn = target
        if '/learn/' in rel:
            raise TranslateError('torch rotate_points in ' + src)
        names = [a.arg for a in fn.args.args]
        if names != ['points', 'angles', 'mode', 'origin', 'offset']:
            raise TranslateError('rotate_points of %s now has the parameters %s' % (rel, names))
        defaults = dict(zip(names[len(names) - len(fn.args.defaults):], fn.args.defaults))
        given = {}
        for k, a in enumerate(node.args):
            if k >= len(names):
                raise TranslateError('too many arguments in ' + src)
            given[names[k]] = self.ev(a)
        for kw in node.keywords:
            if kw.arg not in names or kw.arg in given:
                raise TranslateError('unexpected argument %s in %s' % (kw.arg, src))
            given[kw.arg] = self.ev(kw.value)
        sub = RInterp(e, {}, 'rotate_points', rel)
        for n in names:
            if n not in given:
                if n not in defaults:
                    raise TranslateError('argument %s of rotate_points is missing in %s' % (n, src))
                given[n] = sub.ev(defaults[n])
        pts = given['points']
        if not isinstance(pts, T) or pts.kind != 's' or not pts.shape or pts.shape[-1] != 3:
            raise TranslateError('%s: the points are not an array of 3-vectors' % src)
        mode = given['mode']
        if isinstance(mode, str):
            mode_n = lit('"%s"' % mode)
        elif isinstance(mode, StrParam):
            mode_n = lit(mode.name)
        else:
            raise TranslateError('%s: the mode is not a string' % src)

        def vec3(v, what):
            if isinstance(v, (list, tuple)):
                v = self.stack(v, src)
            if not isinstance(v, T) or v.kind != 's' or self.sig(v.shape) != [3] or v.shape[-1] != 3:
                raise TranslateError('%s: %s is not a 3-vector' % (src, what))
            lead = [e.zero_idx(d) for d in v.shape[:-1]]
            return tuple(v.fn(lead + [c]) for c in range(3))
        ang, org = vec3(given['angles'], 'angles'), vec3(given['origin'], 'origin')
        off = given['offset']
        if isinstance(off, (list, tuple)):
            off = self.stack(off, src)
        # `np.array(offset) + points` / `result += np.array(offset)`: NumPy broadcasting of the offset against the points
        off = e.broadcast_to(e.as_t(off, ' in ' + src), pts.shape, ' (offset of ' + src + ')')
        rets = [st for st in fn.body if isinstance(st, ast.Return)]
        if not rets or not (isinstance(rets[-1].value, ast.Name) and rets[-1].value.id == 'result'):
            raise TranslateError('rotate_points of %s does not return `result`' % rel)

        def out(idx):
            row = idx[:-1]
            p = tuple(pts.fn(row + [c]) for c in range(3))
            o = tuple(off.fn(row + [c]) for c in range(3))
            if not isinstance(idx[-1], int):
                raise TranslateError('symbolic component index in ' + src)
            return mk('rot', 'np', mode_n, ang, org, o, p, idx[-1])
        return T(pts.shape, out)

    def call_function(self, target, args, kwv, src):
        """batchcore.Interp.call_function with THIS interpreter class for the callee (no references to registered definitions)"""
        e = self.e
        rel, fn = target
        params = fn.args.args
        defaults = fn.args.defaults
        off = len(params) - len(defaults)
        env = {}
        for i, a in enumerate(params):
            if i < len(args):
                env[a.arg] = args[i]
            elif a.arg in kwv:
                env[a.arg] = kwv[a.arg]
            elif i >= off and isinstance(defaults[i - off], ast.Constant):
                env[a.arg] = defaults[i - off].value
            else:
                raise TranslateError('argument %s of %s is missing in %s' % (a.arg, fn.name, src))
        if len(args) > len(params) or set(kwv) - set(a.arg for a in params):
            raise TranslateError('unexpected arguments in ' + src)
        if e.depth > 8:
            raise TranslateError('call depth in ' + src)
        sub = RInterp(e, env, fn.name, rel)
        e.depth += 1
        try:
            sub.exec_block(fn.body)
            raise TranslateError('%s: no return statement' % fn.name)
        except Returned as r:
            return r.value
        finally:
            e.depth -= 1

    # -------------------------------------------------------------------------------------------------- statements
    def assign_name(self, name, val):
        """a computed pair (`distances`) is bound component by component (batchcore binds scalars, 3-vectors, rays and triangles)"""
        if isinstance(val, T) and not val.atomic and val.shape == [2] and val.kind == 's':
            parts = [self.e.bind('%s%d' % (name, c), self.e.getitem(val, [c], name)) for c in range(2)]
            self.env[name] = T([2], lambda idx: parts[idx[0]].fn([]), 's', True)
            return
        super().assign_name(name, val)

    def exec_block(self, stmts):
        stmts = list(stmts)
        for k, st in enumerate(stmts):
            if isinstance(st, ast.AugAssign):
                load = copy.deepcopy(st.target)
                for n in ast.walk(load):
                    if hasattr(n, 'ctx'):
                        n.ctx = ast.Load()
                st = ast.Assign(targets=[st.target], value=ast.BinOp(left=load, op=st.op, right=st.value))
            if isinstance(st, ast.If):
                return self.exec_if(st, stmts[k + 1:])
            if isinstance(st, ast.Assign) and len(st.targets) > 1 and all(isinstance(t, ast.Name) for t in st.targets):
                v = self.ev(st.value)
                for t in st.targets:
                    self.assign_name(t.id, v)
                continue
            if isinstance(st, ast.Assign) and len(st.targets) == 1 and isinstance(st.targets[0], ast.Tuple) and \
                    all(isinstance(x, ast.Name) for x in st.targets[0].elts):
                v = self.ev(st.value)
                names = [x.id for x in st.targets[0].elts]
                if isinstance(v, T):
                    if not v.shape or v.shape[0] != len(names):
                        raise TranslateError('unpacking a %r array into %d names' % (v.shape, len(names)))
                    for i, n in enumerate(names):
                        self.assign_name(n, self.e.getitem(v, [i], ast.unparse(st.value)))
                    continue
                if not isinstance(v, (list, tuple)) or len(v) != len(names):
                    raise TranslateError('unsupported unpacking ' + ast.unparse(st)[:80])
                for n, y in zip(names, v):
                    self.assign_name(n, y)
                continue
            super().exec_block([st])

    def exec_if(self, st, rest):
        t = self.ev(st.test)
        src = ast.unparse(st.test)
        if isinstance(t, bool):
            return self.exec_block(list(st.body if t else st.orelse) + list(rest))
        if isinstance(t, T) and t.kind == 'b' and not t.shape:
            t = self.e.bind('test', t)
            vals = []
            for arm in (st.body, st.orelse):
                f = self.fork()
                try:
                    f.exec_block(list(arm) + list(rest))
                    raise TranslateError('data-dependent branch `%s` without a return on every path' % src)
                except Returned as r:
                    vals.append(r.value)
            raise Returned(self.merge(t.fn([]), vals[0], vals[1], src))
        raise TranslateError('unsupported test ' + src)

    def merge(self, c, a, b, src):
        e = self.e
        if isinstance(a, T) and isinstance(b, T):
            if a.kind != b.kind or len(a.shape) != len(b.shape) or not all(e.deq(x, y) for x, y in zip(a.shape, b.shape)):
                raise TranslateError('the two arms of `%s` give arrays of different shape (%r, %r)' % (src, a.shape, b.shape))
            return T(a.shape, lambda idx: mk('ite', c, a.fn(idx), b.fn(idx)), a.kind)
        if isinstance(a, (list, tuple)) and isinstance(b, (list, tuple)) and len(a) == len(b):
            return PList(self.merge(c, x, y, src) for x, y in zip(a, b))
        if isinstance(a, Opaque) and isinstance(b, Opaque):
            return a
        if isinstance(a, (int, float, bool, str, type(None))) and type(a) is type(b) and a == b:
            return a
        raise TranslateError('the two arms of `%s` give results of different kind' % src)


# ====================================================================================================== printing
class RPrinter(gb.Printer):
    def pr_(self, n):
        op, a = n.op, n.args
        if op == 'eqb':
            return '(Num.eqB %s %s)' % (self.pr(a[0]), self.pr(a[1]))
        if op == 'rot':
            _, mode, ang, org, off, p, comp = a
            v = lambda t: self.vec([self.pr(x) for x in t])
            return '(npRotatePointsCall %s %s %s %s %s anglesZero).%s' % (self.pr(mode), v(ang), v(org), v(off), v(p), 'xyz'[comp])
        if op == 'lstsq':
            comp, c0, c1, b = a
            v = lambda t: self.vec([self.pr(x) for x in t])
            return '(Num.lstsq32 %s %s %s).%d' % (v(c0), v(c1), v(b), comp + 1)
        if op == 'allclose':
            v = lambda t: self.vec([self.pr(x) for x in t])
            return '(Num.allclose3 %s %s)' % (v(a[0]), v(a[1]))
        return super().pr_(n)


# ====================================================================================================== jobs
class Job:
    """params as in geombatch.Job; `consts`: Python constants / StrParam for the remaining parameters; `binders`: extra Lean binders;
    `signature`: the parameter list the job was written for (a changed list is a translator error)"""

    def __init__(self, lean, rel, py, params, index, result, signature, consts=None, binders=(), doc=None, file=FILE):
        self.lean, self.rel, self.py, self.params, self.index, self.result = lean, rel, py, params, index, result
        self.signature, self.consts, self.binders, self.doc, self.file = signature, consts or {}, list(binders), doc, file


def run_world(job, world):
    fn = find_function(tree(job.rel), job.py)
    args = [a.arg for a in fn.args.args]
    if args != job.signature:
        raise TranslateError('%s: parameter list changed to %s' % (job.py, args))
    eng = Engine(world, resolve, {})
    env = {}
    for p in job.params:
        env[p[0]] = gb.input_tensor(eng, world, p)
    env.update(job.consts)
    missing = [a for a in args if a not in env]
    if missing:
        raise TranslateError('%s: parameters %s are not described' % (job.py, missing))
    it = RInterp(eng, env, job.py, job.rel)
    try:
        it.exec_block(fn.body)
        raise TranslateError('%s: no return statement' % job.py)
    except Returned as r:
        return eng, r.value


STRUCT = {'ray': 'Ray', 'vec': 'Vec3', 's': None, 's2': 'Pair'}
TYPE = {'ray': 'Ray α', 'vec': 'Vec3 α', 's': 'α', 's2': '(α × α)'}


def comps_of(eng, job, spec, val):
    """{component: node} of a tensor result"""
    k, pos = spec
    what = job.lean
    t = gb.pick(val, pos, what)
    if not isinstance(t, T) or t.kind != 's':
        raise TranslateError('%s: entry %r of the result is not a numeric array' % (what, pos))
    dims = {'ray': [2, 3], 'vec': [3], 's': [], 's2': [2]}[k]
    comps, _ = gb.eval_tensor(eng, t, list(job.index) + dims)
    return comps


def signature(eng, job, spec, val):
    if spec[0] == 'pair':
        return ('pair', signature(eng, job, spec[1], val), signature(eng, job, spec[2], val))
    comps = comps_of(eng, job, spec, val)
    return (spec[0], tuple(sorted(((c, eng.expand(n)) for c, n in comps.items()), key=lambda x: x[0])))


def result_type(spec):
    if spec[0] == 'pair':
        return '(%s × %s)' % (result_type(spec[1]), result_type(spec[2]))
    return TYPE[spec[0]]


def result_text(eng, pr, job, spec, val, roots):
    if spec[0] == 'pair':
        return '(%s, %s)' % (result_text(eng, pr, job, spec[1], val, roots), result_text(eng, pr, job, spec[2], val, roots))
    comps = comps_of(eng, job, spec, val)
    roots.extend(comps.values())
    txt = {c: pr.pr(n) for c, n in comps.items()}
    if spec[0] == 's2':
        return '(%s, %s)' % (txt[(0,)], txt[(1,)])
    return pr.struct_text(STRUCT[spec[0]], txt)


def run_job(job):
    sigs, text, notes = [], None, []
    for w in gb.worlds(job):
        eng, val = run_world(job, w)
        sg = signature(eng, job, job.result, val)
        syms = gb.job_syms(job)
        desc = ', '.join(['%s = 1' % s for s in syms if w[s] != 'many'] + ['%s without its batch axis' % n for n in sorted(w['_sq'])] +
                         ['%s as [1, ...]' % n for n in sorted(w['_lead'])]) or 'the documented shapes'
        ones = set(s for s in syms if w[s] != 'many')
        if sigs and gb.squeeze_signature(sg, ones) != gb.squeeze_signature(sigs[0][1], ones):
            raise TranslateError('the result for (%s) is not the result for (%s) at the only index' % (desc, sigs[0][0]))
        sigs.append((desc, sg))
        if text is None:
            pr = RPrinter(eng)
            roots = []
            res = result_text(eng, pr, job, job.result, val, roots)
            need = gb.reachable_lets(eng, roots)
            lets = [gb.let_text(eng, pr, lid) for lid in eng.order if lid in need]
            head = 'def %s' % job.lean
            if syms:
                head += ' {%s : Nat}' % ' '.join(gb.SYMS[s].lean for s in syms) + ''.join(' [NeZero %s]' % gb.SYMS[s].lean for s in syms)
            head += ''.join(' ' + gb.binder(p) for p in gb.leaves(job))
            head += ''.join(' ' + b for b in job.binders)
            if any('anglesZero' in l for l in lets + [res]):
                head += ' (anglesZero : Bool)'
            head += ''.join(' (%s : Fin %s)' % (gb.SYMS[s].var, gb.SYMS[s].lean) for s in job.index)
            lines = ['/-- %s -/' % (job.doc or '`%s` (%s)' % (job.py, job.rel)), head + ' : %s :=' % result_type(job.result)]
            text = '\n'.join(lines + lets + ['  ' + res])
            notes = list(eng.notes)
    return text, notes, [d for d, _ in sigs]


def default_text(lean, rel, py, name, kind):
    """the default value of a parameter as a definition of its own"""
    fn = find_function(tree(rel), py)
    args, defaults = fn.args.args, fn.args.defaults
    off = len(args) - len(defaults)
    for i, a in enumerate(args):
        if a.arg == name and i >= off and isinstance(defaults[i - off], ast.Constant):
            v = defaults[i - off].value
            if kind == 'str' and isinstance(v, str):
                return '/-- default of `%s` in `%s` (%s) -/\ndef %s : String := "%s"' % (name, py, rel, lean, v)
            if kind == 'bool' and isinstance(v, bool):
                return '/-- default of `%s` in `%s` (%s) -/\ndef %s : Bool := %s' % (name, py, rel, lean, 'true' if v else 'false')
    raise TranslateError('%s: the default of %s is not a %s constant' % (py, name, kind))


def jobs():
    pts = lambda n: (n, ['M', 3], 'Vec3', ('sq',))
    v1 = lambda n: (n, [3], 'Vec3')
    v1l = lambda n: (n, [3], 'Vec3', ('lead1',))
    r1 = lambda n: (n, [2, 3], 'Ray')
    mode = {'mode': StrParam('mode')}
    return [
        Job('createRayT', LR, 'create_ray', [pts('xyz'), pts('abg')], ['M'], ('ray', None), ['xyz', 'abg', 'direction'],
            consts={'direction': False},
            doc='`create_ray` (%s) with `direction = False`: ray `i` of the returned `[m x 2 x 3]` tensor (`[3]` inputs give `m = 1`)' % LR),
        Job('createRayDirectionT', LR, 'create_ray', [pts('xyz'), pts('abg')], ['M'], ('ray', None), ['xyz', 'abg', 'direction'],
            consts={'direction': True}, doc='`create_ray` (%s) with `direction = True`' % LR),
        Job('createRayN', NR, 'create_ray', [v1('x0y0z0'), v1('abg')], [], ('ray', None), ['x0y0z0', 'abg']),
        Job('createRayFromAnglesN', NR, 'create_ray_from_angles', [v1l('point'), v1('angles')], [], ('ray', None),
            ['point', 'angles', 'mode'], consts=mode, binders=['(mode : String)'],
            doc='`create_ray_from_angles` (%s) for ONE start point (`[3]` or `[1 x 3]`)' % NR),
        Job('intersectionOfTwoRaysN', NR, 'calculate_intersection_of_two_rays', [r1('ray0'), r1('ray1')], [],
            ('pair', ('vec', 0), ('s2', 1)), ['ray0', 'ray1'],
            doc='`calculate_intersection_of_two_rays` (%s): (point, distances)' % NR),
        Job('findNearestPointsN', NR, 'find_nearest_points', [r1('ray0'), r1('ray1')], [], ('pair', ('vec', 0), ('vec', 1)),
            ['ray0', 'ray1'], doc='`find_nearest_points` (%s): (c0, c1)' % NR),
        Job('createRayFromAnglesBatchN', NR, 'create_ray_from_angles', [('point', ['M', 3], 'Vec3'), v1('angles')], ['M'], ('ray', None),
            ['point', 'angles', 'mode'], consts=mode, binders=['(mode : String)'], file=FILE_BATCH,
            doc='`create_ray_from_angles` (%s) for an `[m x 3]` array of start points: ray `i` of the returned `[m x 2 x 3]` array '
                '(`[2 x 3]` for m = 1)' % NR),
    ]


HEAD = {
    FILE: ['/- GENERATED by harness/translate/raycreate.py from %s and %s – do not edit.' % (LR, NR),
           '   Ray creation, one ray (torch `create_ray`: ray `i` of a batch).  `…T` = torch, `…N` = NumPy.  `anglesZero` is the test',
           '   `angles[0] == 0 and angles[1] == 0 and angles[2] == 0` of NumPy `rotate_points`. -/',
           'import OdakModel.RayCreatePrelude', 'namespace Odak.Gen', 'variable {α : Type} [Num α]', ''],
    FILE_BATCH: ['/- GENERATED by harness/translate/raycreate.py from %s – do not edit.' % NR,
                 '   Ray creation with an explicit batch axis: a batch of m start points is `Fin m → Vec3 α`. -/',
                 'import OdakModel.RayCreatePrelude', 'namespace Odak.Gen', 'variable {α : Type} [Num α]', ''],
}
CATCH = (TranslateError, OSError, SyntaxError, KeyError, IndexError, AttributeError, TypeError, ValueError, RecursionError)


def generate_file(which):
    """-> (text of the file `which`, errors); the text is only complete (and only written) when there are no errors"""
    gb._trees.clear()
    N.pool.clear()
    out, errors, notes = list(HEAD[which]), [], []
    for job in jobs():
        if job.file != which:
            continue
        try:
            text, nts, ws = run_job(job)
            out += [text, '-- translated under: ' + '; '.join(ws), '']
            notes += ['%s: %s' % (job.lean, n) for n in nts]
        except CATCH as e:
            errors.append('%s (%s in %s): %s' % (job.lean, job.py, job.rel, e))
    if which == FILE:
        for lean, rel, py, name, kind in (('createRayFromAnglesNDefaultMode', NR, 'create_ray_from_angles', 'mode', 'str'),
                                          ('createRayTDefaultDirection', LR, 'create_ray', 'direction', 'bool')):
            try:
                out += [default_text(lean, rel, py, name, kind), '']
            except CATCH as e:
                errors.append('%s: %s' % (lean, e))
    for n in sorted(set(notes)):
        out.append('-- note: ' + n)
    return '\n'.join(out + ['', 'end Odak.Gen', '']), errors


def generate():
    return generate_file(FILE)


if __name__ == '__main__':
    for f in (FILE, FILE_BATCH):
        t, e = generate_file(f)
        print('=====', f)
        print(t)
        for x in e:
            print('ERROR', x)
