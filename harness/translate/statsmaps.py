"""Regenerates Generated/StatsMaps.lean (work package 15): `calc_statsmaps` of MetamericLoss and MetamericLossUniform STATEMENT BY STATEMENT, from

    odak/learn/perception/metameric_loss.py             MetamericLoss.calc_statsmaps and the `find_stats` it defines
    odak/learn/perception/metameric_loss_uniform.py     MetamericLossUniform.calc_statsmaps and the `find_stats` it defines
    odak/learn/perception/spatial_steerable_pyramid.py  SpatialSteerablePyramid.__init__: WHICH constructor argument each attribute the
                                                        re-creation test reads (`device`, `band_filters`, `filt_h0`) comes from
    odak/learn/perception/steerable_pyramid_filters.py  get_steerable_pyramid_filters: per supported `n_orientations` the number of band
                                                        filters it appends and the leading size of `filters["h0"]`

by symbolic interpretation of the Python `ast` (odak is never executed).  Built on `statemachines.py` (same conventions: a method is a Lean
`do` block in the `Option` monad, `none` = the source raises; `self.x = e` is a record update plus a log entry; reads of attributes that can
be unset are binds; `or` chains short-circuit).  What is new here:

    the state CONTAINS the sub-objects        `self.pyramid_maker` : the constructor arguments of the SpatialSteerablePyramid (the object is
                                              immutable after `__init__`: checked), `self.blurs` : a list of RadiallyVaryingBlur states, each
                                              stepped by the regenerated `radiallyVaryingBlurBlurG` of Generated/StateMachines.lean
    X(kw=..)                                  constructor call of a modelled class -> its regenerated `…InitG` (can raise)
    [C() for i in range(n)]                   List.replicate n CSelf.init
    self.pm.device / len(self.pm.band_filters) / self.pm.filt_h0.size(0)      the regenerated accessor of that attribute
    def f(..) inside the method               a separate definition; the variables it captures become parameters; an OBJECT parameter whose
                                              methods are called is returned (new state, value, log) and written back by the caller
    self.blurs[i].m(..), f(.., self.blurs[i]) step of the i-th list element, stored back with `List.set`; log entries `blurs[i].x`
    for v in range(..):                       `List.foldlM` of a separately defined pass function over the loop-carried variables
                                              (= everything the outermost enclosing loop stores, plus self_ and log_)
    x[i], x[-1], level['h'|'b'|'l']           binds (`none` = IndexError / KeyError)
    xs.append(e), x[x < c] = d, x[mask] = c, x[None, None, ...], x.repeat(1, n, 1, 1), x > c, `/=` on a number
    a cache test at the top level of a method (an `if` that tests an attribute of the state and stores one) ENDS A SEGMENT: the rest of the
    method is the next definition (`…K1G`, `…K2G`), so that every definition stays small

The pure numerics are fields of `StatsOps`; the block that fills `self.fovea_mask` is an opaque region (its per-pixel formula is regenerated
by statemachines.fovea_mask_formula) whose reads are checked to be exactly `image` and `self.blurs[0].lod_map`.
Anything outside this grammar is a TranslateError: the error is returned and `generate_all` keeps the accepted file."""
import ast
import os
from .pyexpr import TranslateError, find_function
from . import statemachines as sm
from .statemachines import V, self_attr, store_root, scan_rw

FILE = 'StatsMaps.lean'
P = sm.P
TP = sm.TP
PM = 'SpatialSteerablePyramid'
RB = 'RadiallyVaryingBlur'

# the uninterpreted numerics of calc_statsmaps: field of `StatsOps` -> (Lean type, what it stands for)
OPS = [
    ('constructPyramid', 'SpatialSteerablePyramidSelf → T → Nat → List (PyrLevel T)', '`pyramid_maker.construct_pyramid(image, n_levels)`: the list of levels'),
    ('anyNan', 'T → Bool', '`torch.any(torch.isnan(x))`'),
    ('sqrt', 'T → T', '`torch.sqrt(x)`'),
    ('fillWhereLt', 'T → R → R → T', '`x[x < a] = b`'),
    ('gtScalar', 'T → R → T', '`x > c` (a boolean mask)'),
    ('unsqueeze2', 'T → T', '`x[None, None, ...]`'),
    ('repeatC', 'T → Nat → T', '`x.repeat(1, n, 1, 1)`'),
    ('zerosLike', 'T → T', '`torch.zeros_like(x)`'),
    ('fillWhere', 'T → T → R → T', '`x[mask] = c`'),
    ('foveaMask', 'T → Shape → T', 'the block of `MetamericLoss.calc_statsmaps` that fills `self.fovea_mask`: level-of-detail map of `self.blurs[0]`, `image.size()` (per pixel: `foveaMaskPixelG` of StateMachines.lean)'),
    ('areaHalf', 'T → T', '`torch.nn.functional.interpolate(x, scale_factor=0.5, mode="area", recompute_scale_factor=False)`'),
    ('uniformBlur', 'T → R → T', '`uniform_blur(image, pooling_size)` of metameric_loss_uniform.py'),
    ('ofNat', 'Nat → R', 'a Python int that later becomes a float (`/=`)'),
    ('divNat', 'R → Nat → R', '`x / n` on Python numbers'),
    ('synthWith', 'MetamericLossCfg R → Option SpatialSteerablePyramidSelf → List T → List T → T → T → Shape → T',
     'the noise-pyramid matching and reconstruction of `MetamerMSELoss.gen_metamer` with the pyramid maker the inner MetamericLoss holds'),
]

MY_ATTR_KINDS = {'pyramid_maker': ('obj', PM), 'blurs': ('list', ('obj', RB)), 'fovea_mask': 'T', 'periphery_mask': 'T'}


def lty(k):
    if k == 'Dev':
        return 'Nat'
    if k == 'Level':
        return '(PyrLevel T)'
    if isinstance(k, tuple) and k[0] == 'obj' and k[1] == PM:
        return 'SpatialSteerablePyramidSelf'
    if isinstance(k, tuple) and k[0] == 'list':
        return '(List %s)' % lty(k[1])
    if isinstance(k, tuple) and k[0] == 'pair':
        return '(%s × %s)' % (lty(k[1]), lty(k[2]))
    if isinstance(k, tuple) and k[0] == 'opt':
        return 'Option %s' % lty(k[1])
    return sm.lty(k)


def src_order_stores(stmts):
    """names a statement list stores (assignment, augmented assignment, `.append`), in source order of the first store"""
    out = []

    def add(n):
        if n not in out:
            out.append(n)

    def target(t):
        if isinstance(t, ast.Name):
            add(t.id)
        elif isinstance(t, (ast.Tuple, ast.List)):
            for e in t.elts:
                target(e)
        elif isinstance(t, ast.Subscript):
            b = t
            while isinstance(b, ast.Subscript):
                b = b.value
            if isinstance(b, ast.Name):
                add(b.id)

    def walk(s):
        if isinstance(s, ast.Assign):
            for t in s.targets:
                target(t)
        elif isinstance(s, ast.AugAssign):
            target(s.target)
        elif isinstance(s, ast.Expr) and isinstance(s.value, ast.Call) and isinstance(s.value.func, ast.Attribute) \
                and s.value.func.attr == 'append' and isinstance(s.value.func.value, ast.Name):
            add(s.value.func.value.id)
        elif isinstance(s, (ast.If, ast.For)):
            for b in s.body + s.orelse:
                walk(b)
    for s in stmts:
        walk(s)
    return out


def names_loaded(stmts):
    out = []
    for s in stmts:
        for n in ast.walk(s):
            if isinstance(n, ast.Name) and isinstance(n.ctx, ast.Load) and n.id not in out:
                out.append(n.id)
    return out


# ------------------------------------------------------------------------------------------------------------------ the pyramid maker
def pyramid_maker_model():
    """SpatialSteerablePyramid: constructor parameters, the filter table, the accessors the re-creation test uses"""
    t = sm.tree(P + 'spatial_steerable_pyramid.py')
    init = find_function(t, '__init__', PM)
    params = [a.arg for a in init.args.args[1:]]
    kinds = {}
    for a, d in zip(init.args.args[len(init.args.args) - len(init.args.defaults):], init.args.defaults):
        if isinstance(d, ast.Constant):
            v = d.value
            kinds[a.arg] = 'Bool' if isinstance(v, bool) else 'Nat' if isinstance(v, int) else 'Str' if isinstance(v, str) else None
        elif a.arg == 'device':
            kinds[a.arg] = 'Dev'
    for p in params:
        if kinds.get(p) is None:
            raise TranslateError('SpatialSteerablePyramid.__init__: kind of parameter %s' % p)
    # the object is immutable after __init__
    for m in ('construct_pyramid', 'reconstruct_from_pyramid'):
        r, w, calls = scan_rw(find_function(t, m, PM))
        if w:
            raise TranslateError('SpatialSteerablePyramid.%s stores self.%s: the pyramid maker is not the record of its constructor arguments' % (m, sorted(w)[0]))
    # filters = get_steerable_pyramid_filters(filter_size, n_orientations, filter_type)
    filt_call = None
    for st in init.body:
        if isinstance(st, ast.Assign) and isinstance(st.targets[0], ast.Name) and st.targets[0].id == 'filters' and isinstance(st.value, ast.Call) \
                and ast.unparse(st.value.func) == 'get_steerable_pyramid_filters':
            filt_call = [ast.unparse(a) for a in st.value.args]
    if filt_call != ['filter_size', 'n_orientations', 'filter_type']:
        raise TranslateError('SpatialSteerablePyramid.__init__: the call of get_steerable_pyramid_filters is %s' % (filt_call,))
    # accessors
    acc = {}
    stores = {}
    for st in init.body:
        if isinstance(st, ast.Assign) and len(st.targets) == 1 and self_attr(st.targets[0]):
            stores.setdefault(self_attr(st.targets[0]), []).append(ast.unparse(st.value))
    if stores.get('device') != ['device']:
        raise TranslateError('SpatialSteerablePyramid.__init__: self.device = %s' % stores.get('device'))
    acc['device'] = ('Dev', 'some pm.device')
    if stores.get('band_filters') != ["filters['b']"]:
        raise TranslateError('SpatialSteerablePyramid.__init__: self.band_filters = %s' % stores.get('band_filters'))
    # in-place edits of the list keep its length: `filters['b'][b] = ..`, `self.band_filters[b] = ..` only
    for n in ast.walk(init):
        if isinstance(n, ast.Call) and isinstance(n.func, ast.Attribute) and n.func.attr in ('append', 'pop', 'insert', 'extend', 'remove', 'clear'):
            raise TranslateError('SpatialSteerablePyramid.__init__ changes the length of a list: %s' % ast.unparse(n))
    acc['band_filters.len'] = ('Nat', '(steerableFilterTableG pm.n_orientations).map (·.1)')
    if stores.get('filt_h0') != ["filters['h0'].to(device)"]:
        raise TranslateError('SpatialSteerablePyramid.__init__: self.filt_h0 = %s' % stores.get('filt_h0'))
    chan_if = [st for st in init.body if isinstance(st, ast.If) and ast.unparse(st.test) == 'n_channels != 1']
    if len(chan_if) != 1:
        raise TranslateError('SpatialSteerablePyramid.__init__: no single `if n_channels != 1:` block')
    blk = chan_if[0]
    helper = [s for s in blk.body if isinstance(s, ast.FunctionDef)]
    ok = len(helper) == 1 and any(isinstance(n, ast.Call) and ast.unparse(n.func) == 'torch.zeros' and len(n.args) >= 2
                                  and ast.unparse(n.args[0]) == 'n_channels' for n in ast.walk(helper[0]))
    h0 = [s for s in blk.body if isinstance(s, ast.Assign) and self_attr(s.targets[0]) == 'filt_h0']
    if not ok or len(h0) != 1 or ast.unparse(h0[0].value) != '%s(self.filt_h0)' % helper[0].name:
        raise TranslateError('SpatialSteerablePyramid.__init__: how the channels are added to filt_h0')
    acc['filt_h0.size0'] = ('Nat', 'if pm.n_channels ≠ 1 then some pm.n_channels else (steerableFilterTableG pm.n_orientations).map (·.2)')
    # the filter table
    ft = sm.tree(P + 'steerable_pyramid_filters.py')
    g = find_function(ft, 'get_steerable_pyramid_filters')
    chain = [st for st in g.body if isinstance(st, ast.If) and ast.unparse(st.test).startswith('n_orientations == ')]
    if len(chain) != 1:
        raise TranslateError('get_steerable_pyramid_filters: no single `if n_orientations == ..` chain')
    rows = []
    node = chain[0]
    while True:
        test = node.test
        if not (isinstance(test, ast.Compare) and ast.unparse(test.left) == 'n_orientations' and isinstance(test.ops[0], ast.Eq)
                and isinstance(test.comparators[0], ast.Constant) and isinstance(test.comparators[0].value, int)):
            raise TranslateError('get_steerable_pyramid_filters: test %s' % ast.unparse(test))
        nb, lead = 0, None
        for st in node.body:
            if isinstance(st, ast.Expr) and isinstance(st.value, ast.Call) and ast.unparse(st.value.func) == "filters['b'].append":
                nb += 1
            elif isinstance(st, ast.Assign) and ast.unparse(st.targets[0]) == "filters['h0']":
                for n in ast.walk(st.value):
                    if isinstance(n, ast.Call) and isinstance(n.func, ast.Attribute) and n.func.attr == 'reshape' and n.args \
                            and isinstance(n.args[0], ast.Constant):
                        lead = n.args[0].value
            elif isinstance(st, ast.Assign) and ast.unparse(st.targets[0]) == "filters['b']" and ast.unparse(st.value) != '[]':
                raise TranslateError("get_steerable_pyramid_filters: filters['b'] = %s" % ast.unparse(st.value))
        if lead is None:
            raise TranslateError('get_steerable_pyramid_filters: leading size of h0 for %s orientations' % test.comparators[0].value)
        rows.append((test.comparators[0].value, nb, lead))
        if len(node.orelse) == 1 and isinstance(node.orelse[0], ast.If):
            node = node.orelse[0]
            continue
        if not (node.orelse and isinstance(node.orelse[-1], ast.Raise)):
            raise TranslateError('get_steerable_pyramid_filters: the chain does not end with a raise')
        break
    # after the chain nothing may change the number of band filters or the leading size of h0
    after = g.body[g.body.index(chain[0]) + 1:]
    for st in after:
        for n in ast.walk(st):
            if isinstance(n, ast.Call) and isinstance(n.func, ast.Attribute) and n.func.attr in ('append', 'pop', 'insert', 'extend', 'remove', 'clear'):
                raise TranslateError('get_steerable_pyramid_filters changes the band list after the table: %s' % ast.unparse(n))
    out = ['/-- the constructor arguments of a `SpatialSteerablePyramid` (%sspatial_steerable_pyramid.py); the object never changes after `__init__` '
           '[checked: `construct_pyramid` / `reconstruct_from_pyramid` store no attribute] -/' % P,
           'structure SpatialSteerablePyramidSelf where']
    out += ['  %s : %s' % (p, lty(kinds[p])) for p in params]
    out += ['deriving DecidableEq', '']
    out += ['/-- `get_steerable_pyramid_filters` (%ssteerable_pyramid_filters.py) per supported `n_orientations`: (number of band filters it appends, leading '
            'size of `filters["h0"]`); `none` = it raises -/' % P,
            'def steerableFilterTableG (n_orientations : Nat) : Option (Nat × Nat) :=']
    for (k, nb, lead) in rows:
        out.append('  if n_orientations = %d then some (%d, %d) else' % (k, nb, lead))
    out[-1] += ' none'
    out.append('')
    out += ['/-- `SpatialSteerablePyramid(%s)`: raises when `get_steerable_pyramid_filters` does -/' % ', '.join(params),
            'def spatialSteerablePyramidInitG %s : Option SpatialSteerablePyramidSelf := do' % ' '.join('(%s : %s)' % (p, lty(kinds[p])) for p in params),
            '  let t_ ← steerableFilterTableG n_orientations',
            '  return { %s }' % ', '.join('%s := %s' % (p, p) for p in params), '']
    names = {'device': 'spatialSteerablePyramidDeviceG', 'band_filters.len': 'spatialSteerablePyramidBandFiltersLenG',
             'filt_h0.size0': 'spatialSteerablePyramidFiltH0Size0G'}
    docs = {'device': '`pm.device` [`self.device = device`]', 'band_filters.len': "`len(pm.band_filters)` [`self.band_filters = filters['b']`]",
            'filt_h0.size0': "`pm.filt_h0.size(0)` [`filters['h0']`, replaced by a `zeros(n_channels, n_channels, ..)` tensor when `n_channels != 1`]"}
    for key in ('device', 'band_filters.len', 'filt_h0.size0'):
        k, body = acc[key]
        out += ['/-- %s -/' % docs[key], 'def %s (pm : SpatialSteerablePyramidSelf) : Option %s :=' % (names[key], lty(k)), '  %s' % body]
    out.append('')
    return out, params, kinds, names


# ------------------------------------------------------------------------------------------------------------------ class info
class StatsInfo(sm.ClassInfo):
    """a loss class with `calc_statsmaps` as the only modelled method; state structure `<Cls>StatsSelf`"""
    def __init__(self, cls, file, registry):
        spec = dict(cls=cls, file=file, methods=['calc_statsmaps'], summaries={}, inner={}, regions={})
        sm.ClassInfo.__init__(self, spec, registry)
        for a in list(self.state):
            if self.state[a] is None and a in MY_ATTR_KINDS:
                self.state[a] = MY_ATTR_KINDS[a]

    def self_ty(self):
        return '%sStatsSelf %s' % (self.name, TP)

    def attr_kind(self, a, value_kind=None):
        k = self.state.get(a)
        if k is None:
            k = MY_ATTR_KINDS.get(a)
        if k is None:
            k = value_kind
        if k is None:
            raise TranslateError('%s: kind of attribute %s' % (self.name, a))
        if value_kind is not None and value_kind != k:
            raise TranslateError('%s: self.%s holds a %s, a %s is stored' % (self.name, a, k, value_kind))
        self.state[a] = k
        return k


class Func:
    """a translated local function / loop pass: name, captured variables, own parameters, whether it returns an object parameter"""
    def __init__(self, name, lean, captured, params, objparam, ret, needs_self=False):
        self.name, self.lean, self.captured, self.params, self.objparam, self.ret = name, lean, captured, params, objparam, ret
        self.needs_self = needs_self        # it reads attributes of the state: `self_` is passed (read only)


class Tr(sm.MethodTranslator):
    def __init__(self, ci, fn, fname, pm_names, pm_params, pm_kinds, out_defs, uses_device=True):
        self.ci, self.fn, self.mname = ci, fn, fn.name
        self.effects = {}
        self.fname = fname
        self.lines, self.ind, self.n, self.env = [], 1, 0, {}
        self.writes = True
        self.ret_kind = None
        self.accum = set()
        self.pm_names, self.pm_params, self.pm_kinds = pm_names, pm_params, pm_kinds
        self.out_defs = out_defs            # finished definitions (nested functions, passes, segments), in dependency order
        self.locals_fn = {}                 # local function name -> Func (shared with the sub-translators)
        self.pending = {}                   # local function name -> FunctionDef, translated at its first call (shared)
        self.base = '%sCalcStatsmaps' % ci.prefix
        self.loop_prefix = ''               # name of the enclosing pass function ('' at method level)
        self.loop_count = 0                 # loops translated so far at this level
        self.prov = {}                      # variable holding a list element -> (attribute, list variable, index term, index is literal)
        self.loop_vars = []                 # enclosing loop variables (name, kind)
        self.divnames = set(n.target.id for n in ast.walk(fn) if isinstance(n, ast.AugAssign) and isinstance(n.target, ast.Name)
                            and isinstance(n.op, ast.Div))
        self.objparam = None                # (name, class) of a parameter object whose state is returned
        self.carried = None
        self.uses_device = uses_device

    # ------------------------------------------------------------------ small overrides
    def head(self, device=True):
        return '(E : GazeOps %s) (S : StatsOps T R Shape) (cfg : %s)' % (TP, self.ci.cfg_ty()) + (' (device : Nat)' if device else '')

    def promote(self, v, node=None):
        return sm.MethodTranslator.promote(self, v, node)

    def attribute(self, n):
        a = self_attr(n)
        if a == 'device':
            return V('device', 'Dev')
        if a is not None and a in self.ci.cfg:
            return V('cfg.%s' % a, self.ci.cfg[a])
        if a is not None:
            return self.bind_attr(a)
        # attribute of a local object parameter / of a list element: blur.lod_map
        base = self.ex(n.value)
        if isinstance(base.kind, tuple) and base.kind[0] == 'obj' and base.kind[1] in self.ci.registry:
            oc = self.ci.registry[base.kind[1]]
            k = oc.state.get(n.attr)
            if k is None:
                raise self.err('attribute %s of a %s' % (n.attr, base.kind[1]), n)
            v = self.fresh('v')
            self.emit('let %s ← %s.%s' % (v, base.term, n.attr))
            return V(v, k)
        if isinstance(base.kind, tuple) and base.kind[0] == 'obj' and base.kind[1] == PM and n.attr == 'device':
            v = self.fresh('v')
            self.emit('let %s ← %s %s' % (v, self.pm_names['device'], base.term))
            return V(v, 'Dev')
        if base.kind == 'T' and n.attr == 'shape':
            return V('(E.shape %s)' % base.term, 'Shape')
        raise self.err('attribute %s' % ast.unparse(n), n)

    def bind_attr(self, a):
        k = self.ci.attr_kind(a)
        v = self.fresh('v')
        self.emit('let %s ← self_.%s' % (v, a))
        return V(v, k)

    def index_term(self, s, n):
        """(term, is literal) of a list index"""
        if isinstance(s, ast.Constant) and isinstance(s.value, int) and not isinstance(s.value, bool) and s.value >= 0:
            return str(s.value), True
        v = self.ex(s)
        if v.kind != 'Nat':
            raise self.err('index %s of kind %s' % (ast.unparse(s), v.kind), n)
        return v.term, False

    def ex(self, n):
        if isinstance(n, ast.List) and not n.elts:
            return V('[]', ('list', 'T'))
        if isinstance(n, ast.Subscript):
            s = n.slice
            # x[None, None, ...]
            if ast.unparse(s) in ('(None, None, ...)', '(None, None, Ellipsis)'):
                b = self.ex(n.value)
                if b.kind == 'T':
                    return V('(S.unsqueeze2 %s)' % b.term, 'T')
                raise self.err('subscript %s' % ast.unparse(n), n)
            base = self.ex(n.value)
            if base.kind == 'Level' and isinstance(s, ast.Constant) and s.value in ('h', 'b', 'l'):
                v = self.fresh('v')
                self.emit('let %s ← %s.%s' % (v, base.term, s.value))
                return V(v, ('list', 'T') if s.value == 'b' else 'T')
            if isinstance(base.kind, tuple) and base.kind[0] == 'list':
                v = self.fresh('v')
                if isinstance(s, ast.UnaryOp) and isinstance(s.op, ast.USub) and isinstance(s.operand, ast.Constant) and s.operand.value == 1:
                    self.emit('let %s ← pyLast %s' % (v, base.term))
                    return V(v, base.kind[1])
                if isinstance(s, ast.Slice):
                    return sm.MethodTranslator.ex(self, n)
                it, lit = self.index_term(s, n)
                self.emit('let %s ← %s[%s]?' % (v, base.term, it))
                a = self_attr(n.value)
                if a is not None:
                    self.prov[v] = (a, base.term, it, lit)
                return V(v, base.kind[1])
            raise self.err('subscript %s' % ast.unparse(n), n)
        if isinstance(n, ast.Compare) and len(n.ops) == 1 and isinstance(n.ops[0], (ast.Gt,)) and isinstance(n.comparators[0], ast.Constant) \
                and isinstance(n.comparators[0].value, float):
            # a tensor compared with a float literal is a mask; numbers compared with numbers are conditions (atom)
            saved = (list(self.lines), self.n, dict(self.prov))
            l = self.ex(n.left)
            if l.kind == 'T':
                return V('(S.gtScalar %s (E.lit "%s"))' % (l.term, repr(n.comparators[0].value)), 'T')
            self.lines, self.n, self.prov = saved
        if isinstance(n, ast.BinOp) and isinstance(n.op, (ast.Sub, ast.Add)):
            saved = (list(self.lines), self.n, dict(self.prov))
            a, b = self.ex(n.left), self.ex(n.right)
            if a.kind == 'Nat' and b.kind == 'Nat':
                return V('(%s %s %s)' % (a.term, '-' if isinstance(n.op, ast.Sub) else '+', b.term), 'Nat')
            self.lines, self.n, self.prov = saved
        if isinstance(n, ast.ListComp):
            # [C() for i in range(n)]
            g = n.generators
            if len(g) == 1 and not g[0].ifs and isinstance(n.elt, ast.Call) and isinstance(n.elt.func, ast.Name) and not n.elt.args \
                    and not n.elt.keywords and n.elt.func.id in self.ci.registry and isinstance(g[0].iter, ast.Call) \
                    and ast.unparse(g[0].iter.func) == 'range' and len(g[0].iter.args) == 1:
                cnt = self.ex(g[0].iter.args[0])
                oc = self.ci.registry[n.elt.func.id]
                if cnt.kind == 'Nat' and not oc.cfg:
                    return V('(List.replicate %s %sSelf.init)' % (cnt.term, oc.name), ('list', ('obj', oc.name)))
            raise self.err('comprehension %s' % ast.unparse(n), n)
        return sm.MethodTranslator.ex(self, n)

    def atom(self, n):
        if isinstance(n, ast.Compare) and len(n.ops) == 1 and isinstance(n.ops[0], (ast.Gt, ast.Lt, ast.GtE, ast.LtE)):
            a, b = self.ex(n.left), self.ex(n.comparators[0])
            if a.kind == 'Nat' and b.kind == 'Nat':
                sym = {ast.Gt: '>', ast.Lt: '<', ast.GtE: '≥', ast.LtE: '≤'}[type(n.ops[0])]
                return '(decide (%s %s %s))' % (a.term, sym, b.term)
            raise self.err('comparison %s of kinds %s, %s' % (ast.unparse(n), a.kind, b.kind), n)
        return sm.MethodTranslator.atom(self, n)

    def pm_accessor(self, node, key):
        """`<pm expression>.<accessor>`"""
        base = self.ex(node)
        if base.kind != ('obj', PM):
            raise self.err('%s is not a pyramid maker' % ast.unparse(node), node)
        v = self.fresh('v')
        self.emit('let %s ← %s %s' % (v, self.pm_names[key], base.term))
        return V(v, 'Nat' if key != 'device' else 'Dev')

    def call(self, n):
        f = n.func
        src = ast.unparse(f)
        args = n.args
        # len(pm.band_filters), pm.filt_h0.size(0)
        if src == 'len' and len(args) == 1 and isinstance(args[0], ast.Attribute) and args[0].attr == 'band_filters':
            return self.pm_accessor(args[0].value, 'band_filters.len')
        if isinstance(f, ast.Attribute) and f.attr == 'size' and isinstance(f.value, ast.Attribute) and f.value.attr == 'filt_h0' \
                and len(args) == 1 and ast.unparse(args[0]) == '0':
            return self.pm_accessor(f.value.value, 'filt_h0.size0')
        # constructor of the pyramid maker
        if isinstance(f, ast.Name) and f.id == PM:
            if args:
                raise self.err('positional arguments in %s' % ast.unparse(n), n)
            kw = {k.arg: k.value for k in n.keywords}
            if set(kw) != set(self.pm_params):
                raise self.err('%s is called with %s, its parameters are %s' % (PM, sorted(kw), self.pm_params), n)
            ts = []
            for p in self.pm_params:
                v = self.ex(kw[p])
                if v.kind != self.pm_kinds[p]:
                    raise self.err('argument %s of %s has kind %s, expected %s' % (p, PM, v.kind, self.pm_kinds[p]), n)
                ts.append(v.term)
            r = self.fresh('r')
            self.emit('let %s ← spatialSteerablePyramidInitG %s' % (r, ' '.join(ts)))
            return V(r, ('obj', PM))
        # pm.construct_pyramid(image, n_levels)
        if isinstance(f, ast.Attribute) and f.attr == 'construct_pyramid' and len(args) == 2 and not n.keywords:
            base = self.ex(f.value)
            a, b = self.ex(args[0]), self.ex(args[1])
            if base.kind == ('obj', PM) and a.kind == 'T' and b.kind == 'Nat':
                return V('(S.constructPyramid %s %s %s)' % (base.term, a.term, b.term), ('list', 'Level'))
            raise self.err('call %s' % ast.unparse(n), n)
        # a local function
        if isinstance(f, ast.Name) and (f.id in self.locals_fn or f.id in self.pending):
            return self.local_call(f.id, n)
        # method of a modelled class on a local object / a list element
        if isinstance(f, ast.Attribute) and not self_attr(f) and not (isinstance(f.value, ast.Attribute) and self_attr(f.value) in self.ci.inner):
            recv = f.value
            is_obj = (isinstance(recv, ast.Name) and isinstance(self.env.get(recv.id), tuple) and self.env[recv.id][0] == 'obj') or \
                (isinstance(recv, ast.Subscript) and self_attr(recv.value) is not None
                 and self.ci.attr_kind(self_attr(recv.value)) == ('list', ('obj', RB)))
            if is_obj:
                return self.object_method_call(recv, f.attr, n)
        simple = {'torch.sqrt': ('sqrt', ['T']), 'torch.zeros_like': ('zerosLike', ['T']), 'uniform_blur': ('uniformBlur', ['T', 'R'])}
        if src in simple and not n.keywords and len(args) == len(simple[src][1]):
            op, kinds = simple[src]
            ts = []
            for a, k in zip(args, kinds):
                v = self.ex(a)
                if v.kind != k:
                    raise self.err('argument %s of %s has kind %s, expected %s' % (ast.unparse(a), src, v.kind, k), n)
                ts.append(v.term)
            return V('(S.%s %s)' % (op, ' '.join(ts)), 'T')
        if src == 'torch.any' and len(args) == 1 and isinstance(args[0], ast.Call) and ast.unparse(args[0].func) == 'torch.isnan' and len(args[0].args) == 1:
            v = self.ex(args[0].args[0])
            if v.kind == 'T':
                return V('(S.anyNan %s)' % v.term, 'Bool')
        if src == 'torch.nn.functional.interpolate' and len(args) == 1 and \
                {k.arg: ast.unparse(k.value) for k in n.keywords} == {'scale_factor': '0.5', 'mode': "'area'", 'recompute_scale_factor': 'False'}:
            v = self.ex(args[0])
            if v.kind == 'T':
                return V('(S.areaHalf %s)' % v.term, 'T')
        if isinstance(f, ast.Attribute) and f.attr == 'repeat' and len(args) == 4 and [ast.unparse(a) for a in (args[0], args[2], args[3])] == ['1', '1', '1'] \
                and not isinstance(f.value, ast.Subscript):
            x, c = self.ex(f.value), self.ex(args[1])
            if x.kind == 'T' and c.kind == 'Nat':
                return V('(S.repeatC %s %s)' % (x.term, c.term), 'T')
        if src == 'torch.zeros' and len(args) == 1 and all(k.arg == 'device' for k in n.keywords):
            v = self.ex(args[0])
            if v.kind == 'Shape':
                return V('(E.zeros %s)' % v.term, 'T')
        return sm.MethodTranslator.call(self, n)

    def write_back(self, var, r, newstate):
        """the object held by `var` was stepped: store its new state where it came from"""
        if var in self.prov:
            a, lst, it, lit = self.prov[var]
            self.emit('self_ := { self_ with %s := some (%s.set %s %s) }' % (a, lst, it, newstate))
            if lit:
                self.emit('log_ := log_ ++ %s.map (fun s_ => "%s[%s]." ++ s_)' % (r, a, it))
            else:
                self.emit('log_ := log_ ++ %s.map (fun s_ => "%s[" ++ toString %s ++ "]." ++ s_)' % (r, a, it))
        elif self.objparam is not None and var == self.objparam[0]:
            self.emit('%s := %s' % (var, newstate))
            self.emit('log_ := log_ ++ %s' % r)
        else:
            raise self.err('the object %s that is stepped is neither a parameter nor an element of a list attribute' % var)

    def object_method_call(self, recv, mname, call):
        obj = self.ex(recv)
        oc = self.ci.registry[obj.kind[1]]
        if mname not in oc.spec['methods']:
            raise self.err('method %s.%s is not modelled' % (oc.name, mname), call)
        fn = find_function(oc.tree, mname, oc.name)
        args = []
        for p, node, is_default in self.bound_args(fn, call):
            want = sm.NAME_KINDS.get(p)
            if is_default and isinstance(node, ast.Constant) and node.value is None:
                raise self.err('default None of %s.%s(%s) is used' % (oc.name, mname, p), call)
            v = self.ex(node)
            if want is None or v.kind != want:
                raise self.err('argument %s of %s.%s: kind %s, expected %s' % (p, oc.name, mname, v.kind, want), call)
            args.append(v.term)
        r = self.fresh('r')
        self.emit('let %s ← %s E %s%s' % (r, oc.fn_name(mname), obj.term, ''.join(' ' + a for a in args)))
        self.write_back(obj.term, '%s.2.2' % r, '%s.1' % r)
        return V('%s.2.1' % r, 'T')

    def local_call(self, name, call):
        if call.keywords:
            raise self.err('call %s' % ast.unparse(call), call)
        vals = [self.ex(a) for a in call.args]
        if name in self.pending:
            self.translate_nested(self.pending[name], [v.kind for v in vals], call)
        fu = self.locals_fn[name]
        if len(vals) != len(fu.params):
            raise self.err('call %s' % ast.unparse(call), call)
        for (p, k), v in zip(fu.params, vals):
            if v.kind != k:
                raise self.err('argument %s of %s has kind %s, expected %s' % (p, fu.name, v.kind, k), call)
        for c in fu.captured:
            if c not in self.env:
                raise self.err('%s captures %s, which is not defined at the call' % (fu.name, c), call)
        r = self.fresh('r')
        self.emit('let %s ← %s E S cfg%s%s%s' % (r, fu.lean, ' self_' if fu.needs_self else '', ''.join(' ' + c for c in fu.captured),
                                               ''.join(' ' + v.term for v in vals)))
        if fu.objparam is not None:
            i = [p for p, _ in fu.params].index(fu.objparam)
            self.write_back(vals[i].term, '%s.2.2' % r, '%s.1' % r)
            return V('%s.2.1' % r, fu.ret)
        return V(r, fu.ret)

    # ------------------------------------------------------------------ statements
    def assign_local(self, name, v):
        k = self.env.get(name)
        if isinstance(k, tuple) and k[0] == 'opt':
            if k[1] != v.kind:
                raise self.err('local %s changes kind (%s -> %s)' % (name, k[1], v.kind))
            self.emit('%s := some %s' % (name, v.term))
        elif name in self.env:
            if k != v.kind:
                raise self.err('local %s changes kind (%s -> %s)' % (name, k, v.kind))
            self.emit('%s := %s' % (name, v.term))
        else:
            self.env[name] = v.kind
            self.emit('let mut %s : %s := %s' % (name, lty(v.kind), v.term))

    def is_fovea_region_start(self, s):
        return isinstance(s, ast.Assign) and self_attr(s.targets[0]) == 'fovea_mask' and ast.unparse(s.value).startswith('torch.zeros(')

    def fovea_region(self, stmts):
        """the statements that fill self.fovea_mask: one opaque call; its reads must be `image` and `self.blurs[0].lod_map`"""
        LOD = 'self.blurs[0].lod_map'
        rebinds = 0
        for s in stmts:
            for n in ast.walk(s):
                if isinstance(n, (ast.Assign, ast.AugAssign)):
                    for t in (n.targets if isinstance(n, ast.Assign) else [n.target]):
                        if store_root(t) != 'fovea_mask':
                            raise self.err('the fovea mask block stores %s' % ast.unparse(t), s)
                if isinstance(n, (ast.Return, ast.Raise)):
                    raise self.err('the fovea mask block returns / raises', s)
            if isinstance(s, ast.Assign) and self_attr(s.targets[0]) == 'fovea_mask':
                rebinds += 1
        text = '\n'.join(ast.unparse(s) for s in stmts)
        reads = set()
        for s in stmts:
            for n in ast.walk(s):
                if isinstance(n, ast.Attribute) and self_attr(n) is not None:
                    reads.add(n.attr)
        loopvars = set(s.target.id for s in stmts if isinstance(s, ast.For) and isinstance(s.target, ast.Name))
        names = set(x for x in names_loaded(stmts) if x not in self.ci.module_names and x != 'self') - loopvars
        if reads != {'fovea_mask', 'blurs'} or names != {'image'} or text.count('self.blurs') != text.count(LOD):
            raise self.err('the fovea mask block reads %s and self.%s; the uninterpreted `foveaMask` receives image.size() and %s'
                           % (sorted(names), sorted(reads), LOD), stmts[0])
        lod = self.ex(ast.parse(LOD, mode='eval').body)
        self.store_attr_term('fovea_mask', V('(S.foveaMask %s (E.shape image))' % lod.term, 'T'), rebinds)

    def store_attr_term(self, a, v, times=1):
        k = self.ci.attr_kind(a, v.kind)
        self.emit('self_ := { self_ with %s := some %s }' % (a, v.term))
        self.emit('log_ := log_ ++ [%s]' % ', '.join('"%s"' % a for _ in range(times)))

    def store_attr(self, a, v):
        if a in self.ci.cfg or a == 'device':
            raise self.err('store to the configuration attribute self.%s' % a)
        if v is None:
            self.ci.attr_kind(a)
            self.emit('self_ := { self_ with %s := none }' % a)
            self.emit('log_ := log_ ++ ["%s"]' % a)
        else:
            self.store_attr_term(a, v)

    def block(self, stmts, regions=()):
        i = 0
        while i < len(stmts):
            s = stmts[i]
            if self.is_fovea_region_start(s):
                j = i
                while j < len(stmts) and (store_root(stmts[j].targets[0]) == 'fovea_mask' if isinstance(stmts[j], ast.Assign) else
                                          isinstance(stmts[j], ast.For) and ast.unparse(stmts[j].iter).startswith('range(self.fovea_mask')):
                    j += 1
                self.fovea_region(stmts[i:j])
                i = j
                continue
            self.stmt(s)
            i += 1

    def stmt(self, s):
        if isinstance(s, ast.FunctionDef):
            if s.args.defaults or s.args.kwonlyargs or s.args.vararg or s.args.kwarg:
                raise self.err('signature of the local function %s' % s.name, s)
            self.pending[s.name] = s                     # translated at its first call, when the kinds of its arguments are known
            self.locals_fn.pop(s.name, None)
            return
        if isinstance(s, ast.Return) and self.carried is not None:
            raise self.err('return inside a loop', s)
        if isinstance(s, ast.Return) and self.objparam is not None and s.value is not None:
            v = self.ex(s.value)
            if self.ret_kind is not None and self.ret_kind != v.kind:
                raise self.err('returns a %s and a %s' % (self.ret_kind, v.kind), s)
            self.ret_kind = v.kind
            self.emit('return (%s, %s, log_)' % (self.objparam[0], v.term))
            return
        # xs.append(e)
        if isinstance(s, ast.Expr) and isinstance(s.value, ast.Call) and isinstance(s.value.func, ast.Attribute) and s.value.func.attr == 'append' \
                and isinstance(s.value.func.value, ast.Name) and len(s.value.args) == 1:
            name = s.value.func.value.id
            v = self.ex(s.value.args[0])
            if self.env.get(name) != ('list', v.kind):
                raise self.err('%s.append of a %s' % (name, v.kind), s)
            self.emit('%s := %s ++ [%s]' % (name, name, v.term))
            return
        if isinstance(s, ast.Assign) and len(s.targets) == 1:
            t = s.targets[0]
            # a, b = f(..)
            if isinstance(t, ast.Tuple) and len(t.elts) == 2 and all(isinstance(e, ast.Name) for e in t.elts):
                v = self.ex(s.value)
                if not (isinstance(v.kind, tuple) and v.kind[0] == 'pair'):
                    raise self.err('tuple assignment from a %s' % (v.kind,), s)
                self.assign_local(t.elts[0].id, V('%s.1' % v.term, v.kind[1]))
                self.assign_local(t.elts[1].id, V('%s.2' % v.term, v.kind[2]))
                return
            # x[x < a] = b ,  x[mask] = c   on a local tensor
            if isinstance(t, ast.Subscript) and isinstance(t.value, ast.Name) and self.env.get(t.value.id) == 'T' and isinstance(s.value, ast.Constant) \
                    and isinstance(s.value.value, float):
                x = t.value.id
                lit = '(E.lit "%s")' % repr(s.value.value)
                sl = t.slice
                if isinstance(sl, ast.Compare) and len(sl.ops) == 1 and isinstance(sl.ops[0], ast.Lt) and ast.unparse(sl.left) == x \
                        and isinstance(sl.comparators[0], ast.Constant) and isinstance(sl.comparators[0].value, float):
                    self.emit('%s := (S.fillWhereLt %s (E.lit "%s") %s)' % (x, x, repr(sl.comparators[0].value), lit))
                    return
                if isinstance(sl, ast.Name) and self.env.get(sl.id) == 'T':
                    self.emit('%s := (S.fillWhere %s %s %s)' % (x, x, sl.id, lit))
                    return
                raise self.err('masked store %s' % ast.unparse(s), s)
            # n = k where n is later divided: a Python number that becomes a float
            if isinstance(t, ast.Name) and t.id in self.divnames and t.id not in self.env:
                v = self.ex(s.value)
                if v.kind == 'Nat':
                    self.assign_local(t.id, V('(S.ofNat %s)' % v.term, 'R'))
                    return
            a = self_attr(t)
            if a is not None and not (isinstance(s.value, ast.Constant) and s.value.value is None):
                self.store_attr(a, self.ex(s.value))
                return
        if isinstance(s, ast.AugAssign) and isinstance(s.target, ast.Name) and isinstance(s.op, ast.Div) and self.env.get(s.target.id) == 'R' \
                and isinstance(s.value, ast.Constant) and isinstance(s.value.value, int) and s.value.value > 0:
            self.emit('%s := (S.divNat %s %d)' % (s.target.id, s.target.id, s.value.value))
            return
        if isinstance(s, ast.For) and not s.orelse and isinstance(s.target, ast.Name) and isinstance(s.iter, ast.Call) \
                and ast.unparse(s.iter.func) == 'range':
            self.for_range(s)
            return
        if isinstance(s, ast.If):
            new = [x for x in self.names_stored(s.body + s.orelse) if x not in self.env and self.loaded_outside(x, [s])]
            if new:
                kinds = {}
                for br in (s.body, s.orelse):
                    if br:
                        kinds.update((k, v) for k, v in self.dry_kinds(br).items() if k in new)
                for x in new:
                    if x not in kinds:
                        raise self.err('kind of local %s' % x, s)
                    self.env[x] = ('opt', kinds[x])
                    self.emit('let mut %s : Option %s := none' % (x, lty(kinds[x])))
            c = self.cond(s.test)
            self.emit('if %s then' % c)
            self.scoped(s.body)
            if s.orelse:
                self.emit('else')
                self.scoped(s.orelse)
            return
        sm.MethodTranslator.stmt(self, s)

    def names_stored(self, stmts):
        comp = set()
        for s in stmts:
            for n in ast.walk(s):
                if isinstance(n, (ast.ListComp, ast.GeneratorExp, ast.SetComp, ast.DictComp)):
                    for g in n.generators:
                        comp |= set(id(x) for x in ast.walk(g.target))
        out = []
        for s in stmts:
            for n in ast.walk(s):
                if isinstance(n, ast.Name) and isinstance(n.ctx, ast.Store) and id(n) not in comp and n.id not in out:
                    out.append(n.id)
        return out

    def dry_kinds(self, stmts):
        saved = (self.lines, self.ind, self.n, dict(self.env), dict(self.ci.state), self.ret_kind, dict(self.prov), list(self.out_defs),
                 dict(self.locals_fn), dict(self.pending), self.loop_count)
        self.lines = []
        try:
            self.block(stmts)
            return dict(self.env)
        finally:
            self.lines, self.ind, self.n, self.env, st, self.ret_kind, self.prov, od, lf, pe, self.loop_count = saved
            self.ci.state.clear()
            self.ci.state.update(st)
            self.out_defs[:] = od
            self.locals_fn.clear()
            self.locals_fn.update(lf)
            self.pending.clear()
            self.pending.update(pe)

    # ------------------------------------------------------------------ nested functions
    def translate_nested(self, fdef, arg_kinds, call):
        own = [a.arg for a in fdef.args.args]
        if len(arg_kinds) != len(own):
            raise self.err('call %s' % ast.unparse(call), call)
        kinds = dict(zip(own, arg_kinds))
        stored = set(src_order_stores(fdef.body))
        free = [x for x in names_loaded(fdef.body) if x not in own and x not in stored]
        captured = [x for x in self.env if x in free and x not in [v for v, _ in self.loop_vars]]
        r, w, calls = scan_rw(fdef)
        if w:
            raise self.err('the local function %s stores self.%s' % (fdef.name, sorted(w)[0]), fdef)
        needs_self = any(a not in self.ci.cfg and a != 'device' for a in r)
        objs = [p for p in own if isinstance(kinds[p], tuple) and kinds[p][0] == 'obj']
        stepped = [p for p in objs if any(isinstance(n, ast.Call) and isinstance(n.func, ast.Attribute) and isinstance(n.func.value, ast.Name)
                                          and n.func.value.id == p for n in ast.walk(fdef))]
        if len(stepped) > 1:
            raise self.err('the local function %s steps two objects' % fdef.name, fdef)
        lean = '%s%sG' % (self.base, sm.camel(fdef.name))
        sub = Tr(self.ci, fdef, lean, self.pm_names, self.pm_params, self.pm_kinds, self.out_defs)
        sub.locals_fn, sub.pending = self.locals_fn, self.pending
        sub.outer_fn = getattr(self, 'outer_fn', self.fn)
        for c in captured:
            sub.env[c] = self.env[c]
        for p in own:
            sub.env[p] = kinds[p]
        sub.objparam = (stepped[0], kinds[stepped[0]][1]) if stepped else None
        sub.writes = bool(stepped)
        if stepped:
            sub.emit('let mut %s := %s' % (stepped[0], stepped[0]))
            sub.emit('let mut log_ : List String := []')
        for p in own:
            if p in stored and p not in stepped:
                sub.emit('let mut %s := %s' % (p, p))
        del self.pending[fdef.name]
        sub.block(fdef.body)
        if sub.ret_kind is None:
            raise self.err('the local function %s returns nothing' % fdef.name, fdef)
        rty = lty(sub.ret_kind)
        res = 'Option (%s × %s × List String)' % (lty(kinds[stepped[0]]), rty) if stepped else 'Option %s' % rty
        head = 'def %s %s%s%s%s : %s := do' % (lean, self.head(device=False), ' (self_ : %s)' % self.ci.self_ty() if needs_self else '',
                                              ''.join(' (%s : %s)' % (c, lty(self.env[c])) for c in captured),
                                              ''.join(' (%s : %s)' % (p, lty(kinds[p])) for p in own), res)
        doc = '/-- `%s(%s)` defined inside `%s.calc_statsmaps` (%s), statement by statement; captured: %s%s -/' % (
            fdef.name, ', '.join(own), self.ci.name, self.ci.spec['file'], ', '.join(captured) if captured else 'nothing',
            '; the object `%s` is stepped: returns (its state after the call, value, attributes it stored)' % stepped[0] if stepped else '')
        self.out_defs.append([doc, head] + sub.lines + [''])
        self.locals_fn[fdef.name] = Func(fdef.name, lean, captured, [(p, kinds[p]) for p in own], stepped[0] if stepped else None, sub.ret_kind,
                                         needs_self)

    # ------------------------------------------------------------------ loops
    def for_range(self, s):
        it = s.iter
        if len(it.args) == 2 and ast.unparse(it.args[0]) == '0':
            bound = it.args[1]
        elif len(it.args) == 1:
            bound = it.args[0]
        else:
            raise self.err('loop %s' % ast.unparse(s).split('\n')[0], s)
        b = self.ex(bound)
        if b.kind != 'Nat':
            raise self.err('loop bound %s of kind %s' % (ast.unparse(bound), b.kind), s)
        carried = self.carried if self.carried is not None else [x for x in src_order_stores(s.body) if x in self.env]
        for x in src_order_stores(s.body):
            if x not in self.env and x != s.target.id and self.loaded_outside(x, [s]):
                raise self.err('the loop defines %s, which is read after it' % x, s)
        self.loop_count += 1
        name = '%sFor%d' % (self.loop_prefix, self.loop_count)
        lean = '%s%sG' % (self.base, name)
        need = set(names_loaded(s.body))
        for fname in list(self.locals_fn) + list(self.pending):
            if fname in need:
                fd = self.pending.get(fname)
                if fd is not None:
                    own = [a.arg for a in fd.args.args]
                    st_ = set(src_order_stores(fd.body))
                    need |= set(x for x in names_loaded(fd.body) if x not in own and x not in st_)
                else:
                    need |= set(self.locals_fn[fname].captured)
        lv = list(self.loop_vars)
        captured = [x for x in self.env if x in need and x not in carried and x not in [v for v, _ in lv]]
        st_ty = ' × '.join([self.ci.self_ty(), 'List String'] + [lty(self.env[x]) for x in carried])
        sub = Tr(self.ci, self.fn, self.fname, self.pm_names, self.pm_params, self.pm_kinds, self.out_defs)
        sub.locals_fn, sub.pending = self.locals_fn, self.pending
        sub.carried = carried
        sub.loop_vars = lv + [(s.target.id, 'Nat')]
        sub.loop_prefix = name
        for x in self.env:
            if x in captured or x in carried:
                sub.env[x] = self.env[x]
        for v, k in lv:
            sub.env[v] = k
        sub.env[s.target.id] = 'Nat'
        names = ['self_', 'log_'] + carried
        projs = self.projections(len(names))
        for nm, pr in zip(names, projs):
            sub.emit('let mut %s := st_%s' % (nm, pr))
        sub.block(s.body)
        sub.emit('return (%s)' % ', '.join(names))
        head = 'def %s %s%s%s\n    (st_ : %s) (%s : Nat) :\n    Option (%s) := do' % (
            lean, self.head(device=False), ''.join(' (%s : %s)' % (c, lty(self.env[c])) for c in captured),
            ''.join(' (%s : Nat)' % v for v, _ in lv), st_ty, s.target.id, st_ty)
        doc = '/-- one pass of `%s` in `%s.calc_statsmaps` (%s); loop-carried: %s; captured: %s -/' % (
            ast.unparse(s).split('\n')[0], self.ci.name, self.ci.spec['file'], ', '.join(names),
            ', '.join(captured + [v for v, _ in lv]) or 'nothing')
        self.out_defs.append([doc, head] + sub.lines + [''])
        st = self.fresh('st')
        self.emit('let %s ← (List.range %s).foldlM (%s E S cfg%s%s) (%s)' % (
            st, b.term, lean, ''.join(' ' + c for c in captured), ''.join(' ' + v for v, _ in lv), ', '.join(names)))
        for nm, pr in zip(names, projs):
            self.emit('%s := %s%s' % (nm, st, pr))

    @staticmethod
    def projections(n):
        return ['.2' * i + ('.1' if i < n - 1 else '') for i in range(n)]


# ------------------------------------------------------------------------------------------------------------------ a whole method, in segments
def is_cache_test(ci, s):
    """a top-level `if` whose test reads an attribute of the STATE and whose body stores one: ends a segment"""
    if not (isinstance(s, ast.If) and not s.orelse):
        return False
    reads = set(n.attr for n in ast.walk(s.test) if isinstance(n, ast.Attribute) and self_attr(n) is not None)
    state_reads = [a for a in reads if a not in ci.cfg and a != 'device']
    stores = [store_root(t) for b in s.body for n in ast.walk(b) if isinstance(n, ast.Assign) for t in n.targets]
    return bool(state_reads) and any(a is not None for a in stores)


def translate_method(ci, pm_names, pm_params, pm_kinds):
    fn = find_function(ci.tree, 'calc_statsmaps', ci.name)
    params = []
    for a in fn.args.args[1:]:
        k = sm.NAME_KINDS.get(a.arg)
        if k is None:
            raise TranslateError('%s.calc_statsmaps: parameter %s has no kind' % (ci.name, a.arg))
        params.append((a.arg, k))
    body = [s for s in fn.body if not (isinstance(s, ast.Expr) and isinstance(s.value, ast.Constant) and isinstance(s.value.value, str))]
    # segments
    segs, cur = [], []
    for s in body:
        cur.append(s)
        if is_cache_test(ci, s):
            segs.append(cur)
            cur = []
    if cur:
        segs.append(cur)
    base = '%sCalcStatsmapsFull' % ci.prefix
    names = [base + ('G' if i == 0 else 'K%dG' % i) for i in range(len(segs))]
    defs = []
    env = dict(params)
    locals_fn, pending = {}, {}
    n0 = 0
    loops = 0
    extra_locals = []            # locals defined in earlier segments
    trs = []
    for i, seg in enumerate(segs):
        tr = Tr(ci, fn, names[i], pm_names, pm_params, pm_kinds, defs)
        tr.env = dict(env)
        tr.locals_fn, tr.pending = locals_fn, pending
        tr.n = n0
        tr.loop_count = loops
        tr.emit('let mut self_ := self_')
        tr.emit('let mut log_ : List String := []' if i == 0 else 'let mut log_ := log_')
        stored = set(src_order_stores(fn.body))
        for p, k in params:
            if p in stored:
                tr.emit('let mut %s := %s' % (p, p))
        for x, k in extra_locals:
            tr.emit('let mut %s := %s' % (x, x))
        tr.block(seg)
        last = i == len(segs) - 1
        if not last:
            new_locals = [(x, k) for x, k in tr.env.items() if x not in dict(params) and x not in dict(extra_locals)]
            extra_locals += new_locals
            tr.emit('%s E S cfg device self_ log_%s%s' % (names[i + 1], ''.join(' ' + p for p, _ in params), ''.join(' ' + x for x, _ in extra_locals)))
        elif tr.ret_kind is None:
            raise TranslateError('%s.calc_statsmaps: no return value' % ci.name)
        env = dict(tr.env)
        n0 = tr.n
        loops = tr.loop_count
        trs.append((tr, list(extra_locals) if not last else list(extra_locals)))
    ret_kind = trs[-1][0].ret_kind
    res = 'Option (%s × %s × List String)' % (ci.self_ty(), lty(ret_kind))
    out = []
    seg_defs = []
    prev_extra = []
    for i, (tr, extra) in enumerate(trs):
        head = 'def %s %s (self_ : %s)%s%s%s : %s := do' % (
            names[i], tr.head(), ci.self_ty(), ' (log_ : List String)' if i > 0 else '',
            ''.join(' (%s : %s)' % (p, lty(k)) for p, k in params), ''.join(' (%s : %s)' % (x, lty(k)) for x, k in prev_extra), res)
        if i == 0:
            doc = ('/-- `%s.calc_statsmaps(%s)` (%s), statement by statement; returns (sub-objects after the call, returned statistics, attributes stored in '
                   'order - `blurs[i].x` = attribute x of the i-th blur object)%s -/'
                   % (ci.name, ', '.join(p for p, _ in params), ci.spec['file'],
                      '; continued in %s' % ', '.join(names[1:]) if len(names) > 1 else ''))
        else:
            doc = '/-- `%s.calc_statsmaps`, continued after its %s cache test -/' % (ci.name, ['first', 'second', 'third', 'fourth'][min(i - 1, 3)])
        seg_defs.append([doc, head] + tr.lines + [''])
        prev_extra = extra
    # the segments call each other forwards: emit the last first
    return defs, list(reversed(seg_defs)), params


# ------------------------------------------------------------------------------------------------------------------ the file
def with_sub():
    params, fields = [], []
    for name, ty, doc in sm.OPS:
        if 'Sub' in ty.replace('×', ' ').replace('→', ' ').split():
            params.append((name, ty))
            fields.append("%s := %s'" % (name, name))
        else:
            fields.append('%s := E.%s' % (name, name))
    def prime(ty):
        return ' '.join("Sub'" if w == 'Sub' else w for w in ty.split(' '))
    return ['/-- the same numerics with another representation of the sub-objects: the fields of `GazeOps` that mention `Sub` are given, every other '
            'field is copied [field list of statemachines.py] -/',
            "def GazeOps.withSub {Sub' : Type} (E : GazeOps %s)%s : GazeOps T G R Shape Sub' :=" % (
                TP, ''.join(" (%s' : %s)" % (n, prime(t)) for n, t in params)),
            '  { %s }' % ', '.join(fields), '']


def generate():
    out = ['import OdakModel.StatsPrelude', 'import OdakModel.Generated.StateMachines',
           '/- GENERATED by harness/translate/statsmaps.py from the source under /repo – do not edit. -/',
           'namespace Odak.Gen', '']
    try:
        sm._trees.clear()
        registry, _ = sm.generate_once()
        if any(ci.guessed for ci in registry.values()):
            for ci in registry.values():
                for a, k in ci.state.items():
                    if k is not None:
                        sm.ATTR_KINDS.setdefault(a, k)
            registry, _ = sm.generate_once()
        pm_lines, pm_params, pm_kinds, pm_names = pyramid_maker_model()
        sections = []
        for cls, file in (('MetamericLoss', P + 'metameric_loss.py'), ('MetamericLossUniform', P + 'metameric_loss_uniform.py')):
            ci = StatsInfo(cls, file, registry)
            defs, segs, params = translate_method(ci, pm_names, pm_params, pm_kinds)
            sections.append((ci, defs, segs))
    except sm.CATCH + (RecursionError,) as e:
        return '', ['calc_statsmaps: %s' % e]
    out += pm_lines
    out.append('/-- the numerics `calc_statsmaps` does not interpret -/')
    out.append('structure StatsOps (T R Shape : Type) where')
    for name, ty, doc in OPS:
        out.append('  /-- %s -/' % doc)
        out.append('  %s : %s' % (name, ty))
    out.append('')
    out.append('variable {%s : Type} [DecidableEq G] [DecidableEq R] [DecidableEq Shape]' % TP)
    out.append('')
    out += with_sub()
    for ci, defs, segs in sections:
        for a, k in ci.state.items():
            if k is None:
                return '', ['calc_statsmaps: kind of attribute %s.%s is unknown' % (ci.name, a)]
        out.append('/-- the sub-objects and attributes of a `%s` that `calc_statsmaps` stores or tests (`none` = unset or None) -/' % ci.name)
        out.append('structure %sStatsSelf (%s : Type) where' % (ci.name, TP))
        for a, k in ci.state.items():
            out.append('  %s : Option %s' % (a, lty(k)))
        out.append('')
        out.append('/-- what `__init__` leaves -/')
        out.append('def %sStatsSelf.init : %s := { %s }' % (ci.name, ci.self_ty(), ', '.join('%s := none' % a for a in ci.state)))
        out.append('')
        for d in defs + segs:
            out += d
    out += ['end Odak.Gen', '']
    return '\n'.join(out), []


if __name__ == '__main__':
    t, e = generate()
    print(t)
    print(e)
