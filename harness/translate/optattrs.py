"""Regenerates Generated/OptimizerAttrs.lean: the ATTRIBUTE FLOW of `multi_color_hologram_optimizer` (odak/learn/wave/optimizers.py) - the numerics
stay opaque - by walking the Python `ast` (odak is never executed):

    per method: the attributes it assigns (`self.x = ..`; conditional or not), writes in place (`self.x[..] = ..`, `self.x.view(..)[..] = ..`,
    `self.x.y = ..`, `self.x += ..`), reads, the methods of self it calls, the methods it calls ON attribute objects (`self.optimizer.step()`, ..)
    `optimizeTrace`: the events of one `optimize` call in source order, the calls of methods of self inlined
    `optimizeVariables`: what `init_optimizer` hands to the optimiser (the tensors `optimizer.step()` updates in place)
    `optimizeReturns`: where every component of the returned tuple comes from; the argument of the final `reconstruct` call and the names
    assigned between that call and the `return`

Anything it cannot read is a TranslateError: the error is returned and `generate_all` keeps the accepted file."""
import ast
import os
from .pyexpr import TranslateError
from .objcore import self_attr, targets_of, read_tree, CATCH

FILE = 'OptimizerAttrs.lean'
REL = 'odak/learn/wave/optimizers.py'
CLS = 'multi_color_hologram_optimizer'


def attr_root(n):
    """(attribute of self, rest of the chain) at the root of an expression made of attribute accesses, subscripts and method calls"""
    chain = []
    while True:
        a = self_attr(n)
        if a is not None:
            return a, list(reversed(chain))
        if isinstance(n, ast.Attribute):
            chain.append(n.attr)
            n = n.value
        elif isinstance(n, ast.Subscript):
            n = n.value
        elif isinstance(n, ast.Call) and isinstance(n.func, ast.Attribute):
            n = n.func.value
        else:
            return None, []


class Walker(ast.NodeVisitor):
    """events of a method in source order: ('read' | 'write' | 'cwrite' | 'inplace' | 'call' | 'attrcall', name)"""
    def __init__(self, methods, inline, depth=0, stack=()):
        self.methods, self.inline, self.depth, self.stack = methods, inline, depth, stack
        self.events = []
        self.attrcalls = []

    def ev(self, kind, name):
        self.events.append((kind, name))

    def store(self, t):
        if isinstance(t, (ast.Tuple, ast.List)):
            for e in t.elts:
                self.store(e)
            return
        a = self_attr(t)
        if a is not None:
            self.ev('write' if self.depth == 0 else 'cwrite', a)
            return
        if isinstance(t, (ast.Subscript, ast.Attribute)):
            r, _ = attr_root(t)
            if r is not None:
                self.ev('inplace', r)
                if isinstance(t, ast.Subscript):
                    self.visit(t.slice)
                return
        if isinstance(t, ast.Subscript):
            self.visit(t.value)
            self.visit(t.slice)

    def visit_Assign(self, n):
        self.visit(n.value)
        for t in n.targets:
            self.store(t)

    def visit_AugAssign(self, n):
        self.visit(n.value)
        a = self_attr(n.target)
        if a is not None:
            self.ev('read', a)
            self.ev('write' if self.depth == 0 else 'cwrite', a)
        else:
            self.store(n.target)

    def visit_Attribute(self, n):
        a = self_attr(n)
        if a is not None:
            if isinstance(n.ctx, ast.Load) and a not in self.methods:
                self.ev('read', a)
            return
        self.generic_visit(n)

    def visit_Call(self, n):
        f = n.func
        a = self_attr(f)
        for x in n.args:
            self.visit(x)
        for k in n.keywords:
            self.visit(k.value)
        if a is not None and a in self.methods:
            self.ev('call', a)
            if self.inline:
                if a in self.stack:
                    raise TranslateError('%s is recursive' % a)
                w = Walker(self.methods, True, self.depth, self.stack + (a,))
                for st in self.methods[a].body:
                    w.visit(st)
                self.events += w.events
                self.attrcalls += w.attrcalls
            return
        if isinstance(f, ast.Attribute):
            r, chain = attr_root(f)
            if r is not None and r not in self.methods:
                self.ev('read', r)
                self.ev('attrcall', r)
                self.attrcalls.append('.'.join([r] + chain))
                return
        if isinstance(f, ast.Name) and f.id == 'self':
            raise TranslateError('self(...) call')
        self.visit(f)

    def nested(self, stmts):
        self.depth += 1
        for s in stmts:
            self.visit(s)
        self.depth -= 1

    def visit_If(self, n):
        self.visit(n.test)
        self.nested(n.body)
        self.nested(n.orelse)

    def visit_For(self, n):
        self.visit(n.iter)
        self.nested(n.body)
        self.nested(n.orelse)

    def visit_While(self, n):
        self.visit(n.test)
        self.nested(n.body)

    def visit_With(self, n):
        for it in n.items:
            self.visit(it.context_expr)
        for s in n.body:
            self.visit(s)

    def visit_Try(self, n):
        self.nested(n.body)
        for h in n.handlers:
            self.nested(h.body)
        self.nested(n.orelse)
        self.nested(n.finalbody)

    def visit_FunctionDef(self, n):
        raise TranslateError('nested function %s' % n.name)

    visit_Lambda = visit_FunctionDef


def uniq(xs):
    out = []
    for x in xs:
        if x not in out:
            out.append(x)
    return out


def lst(xs):
    return '[%s]' % ', '.join('"%s"' % x for x in xs)


def pairs(xs):
    return '[%s]' % ', '.join('("%s", "%s")' % x for x in xs)


def describe(e):
    if isinstance(e, ast.Name):
        return 'local:' + e.id
    r, chain = attr_root(e)
    if r is not None:
        return 'attr:' + '.'.join([r] + chain)
    if isinstance(e, ast.Call) and isinstance(e.func, ast.Name) and len(e.args) == 1:
        return e.func.id + ':' + describe(e.args[0])
    return 'expr:' + ast.unparse(e)[:60]


def generate():
    out = ['/- GENERATED by harness/translate/optattrs.py from %s – do not edit. -/' % REL, 'namespace Odak.Gen', '']
    try:
        tree = read_tree(REL)
        node = None
        for n in tree.body:
            if isinstance(n, ast.ClassDef) and n.name == CLS:
                node = n
        if node is None:
            raise TranslateError('class %s not found' % CLS)
        methods = {m.name: m for m in node.body if isinstance(m, ast.FunctionDef)}
        for m in methods.values():
            if m.decorator_list:
                raise TranslateError('%s is decorated' % m.name)
        names = []
        for mname, fn in methods.items():
            w = Walker(methods, False)
            for st in fn.body:
                w.visit(st)
            ev = w.events
            cam = ''.join(p[:1].upper() + p[1:] for p in mname.strip('_').split('_'))
            names.append((mname, cam))
            out.append('/-- `%s.%s`: attributes it assigns (c = under a condition / in a loop), writes in place, reads, methods of self it calls, methods it '
                       'calls on attribute objects [recomputed from the source] -/' % (CLS, mname))
            out.append('def opt%sWrites : List String := %s' % (cam, lst(uniq([a for k, a in ev if k in ('write', 'cwrite')]))))
            out.append('def opt%sConditionalWrites : List String := %s' % (cam, lst(uniq([a for k, a in ev if k == 'cwrite']))))
            out.append('def opt%sInPlace : List String := %s' % (cam, lst(uniq([a for k, a in ev if k == 'inplace']))))
            out.append('def opt%sReads : List String := %s' % (cam, lst(uniq([a for k, a in ev if k == 'read']))))
            out.append('def opt%sCalls : List String := %s' % (cam, lst(uniq([a for k, a in ev if k == 'call']))))
            out.append('def opt%sAttrCalls : List String := %s' % (cam, lst(uniq(w.attrcalls))))
            out.append('')
        out.append('/-- the methods of the class, in source order -/')
        out.append('def optMethods : List String := %s' % lst([m for m, _ in names]))
        out.append('')
        if 'optimize' not in methods or '__init__' not in methods or 'init_optimizer' not in methods:
            raise TranslateError('optimize / __init__ / init_optimizer not found')
        for mname, lean in (('optimize', 'optimizeTrace'), ('__init__', 'optInitTrace')):
            w = Walker(methods, True, 0, (mname,))
            for st in methods[mname].body:
                w.visit(st)
            ev = [(k, a) for k, a in w.events if k != 'call']
            out.append('/-- the events of one `%s` call in source order, calls of methods of self inlined: (read | write | cwrite | inplace | attrcall, attribute) -/' % mname)
            out.append('def %s : List (String × String) := %s' % (lean, pairs(ev)))
            out.append('/-- the methods called on attribute objects during one `%s` call, in order -/' % mname)
            out.append('def %sAttrCalls : List String := %s' % (lean, lst(uniq(w.attrcalls))))
            out.append('')
        # what init_optimizer hands to the optimiser
        io = methods['init_optimizer']
        var, extra, ctor = None, [], None
        for st in io.body:
            if isinstance(st, ast.Assign) and isinstance(st.targets[0], ast.Name) and isinstance(st.value, ast.List):
                var = st.targets[0].id
                extra += [(describe(e), False) for e in st.value.elts]
            for n in ast.walk(st):
                if isinstance(n, ast.Call) and isinstance(n.func, ast.Attribute) and n.func.attr == 'append' and isinstance(n.func.value, ast.Name) \
                        and n.func.value.id == var and len(n.args) == 1:
                    extra.append((describe(n.args[0]), True))
                if isinstance(n, ast.Call) and ast.unparse(n.func).startswith('torch.optim.'):
                    ctor = n
        if var is None or ctor is None or not ctor.args or not (isinstance(ctor.args[0], ast.Name) and ctor.args[0].id == var):
            raise TranslateError('init_optimizer: the list handed to torch.optim.* was not found')
        out.append('/-- what `init_optimizer` hands to `%s` (the tensors `optimizer.step()` updates IN PLACE), with "always" / "conditional" -/' % ast.unparse(ctor.func))
        out.append('def optimizeVariables : List (String × String) := %s' % pairs([(d, 'conditional' if c else 'always') for d, c in extra]))
        out.append('')
        # the return of optimize
        op = methods['optimize']
        ret = op.body[-1]
        if not (isinstance(ret, ast.Return) and isinstance(ret.value, ast.Tuple)):
            raise TranslateError('optimize does not end in `return (..)`')
        out.append('/-- where the components of the tuple `optimize` returns come from -/')
        out.append('def optimizeReturns : List String := %s' % lst([describe(e) for e in ret.value.elts]))
        rec_i, rec_arg, rec_target = None, None, None
        for i, st in enumerate(op.body):
            for n in ast.walk(st):
                if isinstance(n, ast.Call) and isinstance(n.func, ast.Attribute) and n.func.attr == 'reconstruct':
                    rec_i = i
                    rec_arg = describe(n.args[0]) if len(n.args) == 1 and not n.keywords else 'expr:' + ast.unparse(n)[:60]
                    rec_target = describe(st.targets[0]) if isinstance(st, ast.Assign) and len(st.targets) == 1 else 'none'
        if rec_i is None:
            raise TranslateError('optimize: no reconstruct call')
        between = []
        for st in op.body[rec_i + 1:-1]:
            for n in ast.walk(st):
                for t in targets_of(n):
                    for e in ast.walk(t):
                        if isinstance(e, ast.Name) and isinstance(e.ctx, ast.Store):
                            between.append(e.id)
        # assignments to the reconstruct argument between its LAST assignment and the reconstruct call are part of the hologram that is returned;
        # what matters is that nothing is assigned to it (or to the reconstruction) afterwards
        out.append('/-- the argument of the final `reconstruct` call, the name its result is bound to, the locals assigned between that call and the `return` -/')
        out.append('def optimizeReconstructArg : String := "%s"' % rec_arg)
        out.append('def optimizeReconstructResult : String := "%s"' % rec_target)
        out.append('def optimizeAssignedAfterReconstruct : List String := %s' % lst(uniq(between)))
        out.append('')
    except CATCH as e:
        return '', ['optimizer attributes: %s' % e]
    out += ['end Odak.Gen', '']
    return '\n'.join(out), []


if __name__ == '__main__':
    t, e = generate()
    print(t)
    print(e)
