"""Regenerates Generated/PlyGen.lean: the PLY writers / reader of odak/tools/asset.py and the wiring of the remaining file helpers of
odak/tools/file.py.

  write_PLY_from_points   for an `shape0 x shape1` grid: the vertex table (which element `points[i, j, k]` goes to which row, in the order of
                          the appends) and the face list (BOTH index formulas per grid cell, as written, with their row stride), the colour
                          columns, the record dtypes, the element names / order handed to `PlyData`, the `text` flag
  write_PLY               `k` triangles -> vertex rows (`triangles[t][i][c]`) + faces (`[3t, 3t+1, 3t+2]`)
  read_PLY                faces -> triangles: which face entry looks which vertex row up, in which corner order; the `rotate_point` call is
                          left as a call (`npRotatePointCall`: WHICH keywords it gets - angles, offset; mode / origin from the defaults of its
                          signature; the `mode` parameter of read_PLY is not handed over), `[0]` of its result; the final cast
  save_dictionary / load_dictionary / write_to_text_file / list_files / check_directory / expanduser
                          which library call with which arguments (string tables)

The loop programs are translated by the interpreter of loopcore.py (every `for` a `List.flatMap`, the lists in the order of the appends);
odak is never executed.  Tie theorems: lean/OdakProofs/Lemmas/GenPly.lean; executable tie: harness/props/genply.py."""
import ast
import os
from .pyexpr import TranslateError, find_function
from .loopcore import Interp, Hooks, V, Returned, definition, par, ty, term_of, lit, prune, block_term
from .samplers_more import vec_default, lean_str

REPO = os.environ.get('ODAK_REPO', '/repo')
FILE = 'PlyGen.lean'
AS, FS, NT = 'odak/tools/asset.py', 'odak/tools/file.py', 'odak/tools/transformation.py'
_trees = {}
PYNAMES = {'saveDictionaryWiring': 'save_dictionary', 'loadDictionaryWiring': 'load_dictionary', 'writeToTextFileWiring': 'write_to_text_file',
           'listFilesWiring': 'list_files', 'checkDirectoryWiring': 'check_directory', 'expanduserWiring': 'expanduser'}


def tree(rel):
    if rel not in _trees:
        with open(os.path.join(REPO, rel)) as f:
            _trees[rel] = ast.parse(f.read())
    return _trees[rel]


def norm(node):
    return ' '.join(ast.unparse(node).split())


class PHooks(Hooks):
    def __init__(self):
        self.dtypes = {}          # list variable -> dtype text of the np.asarray that packs it
        self.written = None       # [(element name, list value)] in the order handed to PlyData
        self.text_flag = None
        self.write_arg = None
        self.opened = None        # read_PLY: arguments of open(...)
        self.lookups = []         # read_PLY: element / property names looked up
        self.casts = []
        self.rotate = None

    # ---------------- writers
    def call(self, it, node, f):
        src = ast.unparse(node)
        kws = {k.arg: k.value for k in node.keywords}
        if f in ('np.asarray', 'np.array') and 'dtype' in kws and node.args and isinstance(node.args[0], ast.Name):
            if isinstance(kws['dtype'], ast.List):
                self.dtypes[node.args[0].id] = norm(kws['dtype'])
            else:
                self.casts.append((node.args[0].id, norm(kws['dtype'])))
            return None
        if f == 'PlyElement.describe':
            if len(node.args) != 2 or not (isinstance(node.args[1], ast.Constant) and isinstance(node.args[1].value, str)):
                raise TranslateError('unsupported call ' + src)
            v = it.ev(node.args[0])
            if v.kind != 'list':
                raise TranslateError('the data of the PLY element %r is not a list' % node.args[1].value)
            return V('plyel', items=[v], const=node.args[1].value, name=node.args[0].id if isinstance(node.args[0], ast.Name) else None)
        if f == 'PlyData.read':
            return V('plydata')
        if f == 'rotate_point':
            fn = find_function(tree(NT), 'rotate_point')
            names = [a.arg for a in fn.args.args]
            defaults = dict(zip(names[len(names) - len(fn.args.defaults):], fn.args.defaults))
            if names != ['point', 'angles', 'mode', 'origin', 'offset']:
                raise TranslateError('rotate_point now has the parameters %s' % names)
            given = {}
            for k, a in enumerate(node.args):
                given[names[k]] = it.ev(a)
            for kw in node.keywords:
                if kw.arg not in names or kw.arg in given:
                    raise TranslateError('unexpected argument %s in %s' % (kw.arg, src))
                given[kw.arg] = it.ev(kw.value)
            if 'point' not in given or given['point'].kind != 'v':
                raise TranslateError('unsupported rotate_point call ' + src)
            if 'mode' in given:
                if given['mode'].kind != 'py' or not isinstance(given['mode'].const, str):
                    raise TranslateError('the mode handed to rotate_point is not a literal: ' + src)
                mode = given['mode'].const
            else:
                mode = defaults['mode'].value
            terms = []
            for n in ('angles', 'origin', 'offset'):
                if n in given:
                    if given[n].kind != 'v':
                        raise TranslateError('%s of %s is not a 3-vector' % (n, src))
                    terms.append(given[n].term)
                else:
                    terms.append(vec_default(defaults[n]))
            self.rotate = sorted(k for k in given if k != 'point')
            rets = [st for st in fn.body if isinstance(st, ast.Return)]
            rv = rets[-1].value if rets else None
            if not (isinstance(rv, ast.Tuple) and isinstance(rv.elts[0], ast.Name) and rv.elts[0].id == 'result'):
                raise TranslateError('rotate_point does not return a tuple that starts with `result`')
            res = V('v', '(npRotatePointCall %s %s %s %s %s)' % (lean_str(mode), par(terms[0]), par(terms[1]), par(terms[2]), par(given['point'].term)))
            return V('tuple', items=[res] + [V('o')] * (len(rv.elts) - 1))
        return None

    def statement(self, it, st):
        # PlyData([el1, el2], text=...).write(savefn)
        if isinstance(st, ast.Expr) and isinstance(st.value, ast.Call) and isinstance(st.value.func, ast.Attribute) and st.value.func.attr == 'write' \
                and isinstance(st.value.func.value, ast.Call) and it.func_name(st.value.func.value.func) == 'PlyData':
            inner = st.value.func.value
            if len(inner.args) != 1 or not isinstance(inner.args[0], (ast.List, ast.Tuple)):
                raise TranslateError('unsupported PlyData call ' + ast.unparse(inner))
            els = [it.ev(e) for e in inner.args[0].elts]
            if any(e.kind != 'plyel' for e in els):
                raise TranslateError('PlyData is given something that is not a described element')
            if self.written is not None:
                raise TranslateError('more than one PlyData(...).write')
            self.written = [(e.const, e.items[0], e.name) for e in els]
            kws = {k.arg: norm(k.value) for k in inner.keywords}
            self.text_flag = kws.pop('text', '')
            if kws:
                raise TranslateError('unexpected keywords of PlyData: %s' % sorted(kws))
            self.write_arg = [norm(a) for a in st.value.args]
            return True
        # with open(fn, 'rb') as f: <body>
        if isinstance(st, ast.With) and len(st.items) == 1 and isinstance(st.items[0].context_expr, ast.Call) and \
                it.func_name(st.items[0].context_expr.func) == 'open' and isinstance(st.items[0].optional_vars, ast.Name):
            c = st.items[0].context_expr
            self.opened = [norm(a) for a in c.args] + ['%s=%s' % (k.arg, norm(k.value)) for k in c.keywords]
            it.env[st.items[0].optional_vars.id] = V('o')
            it.exec_block(st.body)
            return True
        return False

    # ---------------- reader
    def subscript(self, it, node, base):
        key = node.slice.value if isinstance(node.slice, ast.Constant) and isinstance(node.slice.value, str) else None
        if base.kind == 'plydata':
            if key is None:
                raise TranslateError('unsupported lookup ' + ast.unparse(node))
            self.lookups.append(('element', key))
            return V('plyelem', const=key)
        if base.kind == 'plyelemdata':
            if key is None:
                raise TranslateError('unsupported lookup ' + ast.unparse(node))
            self.lookups.append(('property of ' + base.const, key))
            return V('list', 'faces', elem=V('list', elem=V('nat')))
        if base.kind == 'plyelem':
            v = it.ev(node.slice)
            if v.kind != 'nat':
                raise TranslateError('unsupported row lookup ' + ast.unparse(node))
            self.lookups.append(('row of ' + base.const, 'by index'))
            return V('v', '(vertex %s)' % par(v.term))
        return None

    def attribute(self, it, node, base):
        if base.kind == 'plyelem' and node.attr == 'data':
            return V('plyelemdata', const=base.const)
        return None


def run_writer(py, params, lean_prefix, doc_dims):
    fn = find_function(tree(AS), py)
    names = [a.arg for a in fn.args.args]
    if names != [p for p, _ in params]:
        raise TranslateError('%s: parameter list changed to %s' % (py, names))
    env = {}
    for pyname, v in params:
        env[pyname] = v
    hooks = PHooks()
    it = Interp(env, hooks)
    try:
        it.exec_block(fn.body)
    except Returned:
        pass
    if hooks.written is None:
        raise TranslateError('%s: no PlyData(...).write found' % py)
    by = {n: (v, var) for n, v, var in hooks.written}
    if sorted(by) != ['face', 'vertex']:
        raise TranslateError('%s writes the elements %s' % (py, [n for n, _, _ in hooks.written]))
    out = []
    binders = doc_dims[0]
    vert, vvar = by['vertex']
    face, fvar = by['face']
    out.append(definition(lean_prefix + 'Vertices', [binders], ty(vert), it.scopes[0].lets, vert.term,
                          '`%s` (%s), %s: the rows of the `vertex` element in order; a row lists the array elements it stores, `%s` written `(i, j, k)`'
                          % (py, AS, doc_dims[1], doc_dims[2])))
    out.append('')
    out.append(definition(lean_prefix + 'Faces', [binders], ty(face), it.scopes[0].lets, face.term,
                          '`%s` (%s), %s: the rows of the `face` element in order: `(vertex indices, red, green, blue)`' % (py, AS, doc_dims[1])))
    out.append('')
    table = [('elements', ', '.join(n for n, _, _ in hooks.written)), ('vertex dtype', hooks.dtypes.get(vvar, '')),
             ('face dtype', hooks.dtypes.get(fvar, '')), ('text', hooks.text_flag), ('write', ', '.join(hooks.write_arg or []))]
    out.append('/-- `%s`: what is handed to `plyfile` (element order, record dtypes, the `text` flag as written, the argument of `write`) -/' % py)
    out.append('def %sWiring : List (String × String) := [%s]' % (lean_prefix, ', '.join('(%s, %s)' % (lean_str(a), lean_str(b)) for a, b in table)))
    out.append('')
    return '\n'.join(out), it.notes


def run_reader():
    fn = find_function(tree(AS), 'read_PLY')
    names = [a.arg for a in fn.args.args]
    if names != ['fn', 'offset', 'angles', 'mode']:
        raise TranslateError('read_PLY: parameter list changed to %s' % names)
    env = {'fn': V('o'), 'offset': V('v', 'offset'), 'angles': V('v', 'angles'), 'mode': V('o')}
    hooks = PHooks()
    it = Interp(env, hooks)
    try:
        it.exec_block(fn.body)
        raise TranslateError('read_PLY: no return statement')
    except Returned as r:
        val = r.value
    if val.kind != 'list' or ty(val) != 'List (List (Vec3 α))':
        raise TranslateError('read_PLY: the returned value is not a list of corner lists')
    defaults = dict(zip(names[len(names) - len(fn.args.defaults):], fn.args.defaults))
    out = [definition('plyReadTriangles', ['(offset angles : Vec3 α) (vertex : Nat → Vec3 α) (faces : List (List Nat))'], ty(val), it.scopes[0].lets,
                      val.term, '`read_PLY` (%s): the returned triangles in order, each a list of corners; `vertex k` is row `k` of the `vertex` element, '
                      '`faces` the `vertex_indices` column of the `face` element' % AS), '']
    table = [('open', ', '.join(hooks.opened or [])), ('lookups', '; '.join('%s: %s' % l for l in dict.fromkeys(hooks.lookups))),
             ('rotate_point keywords', ', '.join(hooks.rotate or [])), ('casts', '; '.join('%s -> %s' % c for c in hooks.casts)),
             ('default offset', norm(defaults['offset'])), ('default angles', norm(defaults['angles'])), ('default mode', norm(defaults['mode']))]
    out.append('/-- `read_PLY`: how the file is opened, which elements / properties are looked up, which keywords `rotate_point` is given (the `mode`')
    out.append('    parameter of `read_PLY` is among them only if listed here), the final cast, the defaults of the signature -/')
    out.append('def plyReadWiring : List (String × String) := [%s]' % ', '.join('(%s, %s)' % (lean_str(a), lean_str(b)) for a, b in table))
    out.append('')
    return '\n'.join(out), it.notes


# ------------------------------------------------------------------------------------------------------------------ odak/tools/file.py wiring

def body_of(fn):
    return [st for st in fn.body if not (isinstance(st, ast.Expr) and isinstance(st.value, ast.Constant))]


def call_table(call, positional):
    """arguments of a call as (parameter, source text): positional ones named by `positional`, keywords by their own name"""
    rows = []
    for k, a in enumerate(call.args):
        if k >= len(positional):
            raise TranslateError('too many positional arguments in ' + norm(call))
        rows.append((positional[k], norm(a)))
    rows += [(k.arg, norm(k.value)) for k in call.keywords]
    return rows


def defaults_of(fn):
    names = [a.arg for a in fn.args.args]
    return [(n, norm(d)) for n, d in zip(names[len(names) - len(fn.args.defaults):], fn.args.defaults)]


def file_wiring():
    t = tree(FS)
    out = {}
    # save_dictionary: with open(<path>, <mode>, encoding=...) as f: json.dump(settings, f, ...); return settings
    fn = find_function(t, 'save_dictionary')
    b = body_of(fn)
    if not (len(b) == 2 and isinstance(b[0], ast.With) and len(b[0].items) == 1 and isinstance(b[1], ast.Return) and len(b[0].body) == 1
            and isinstance(b[0].body[0], ast.Expr) and isinstance(b[0].body[0].value, ast.Call)):
        raise TranslateError('save_dictionary: unexpected shape of the body')
    op, dump = b[0].items[0].context_expr, b[0].body[0].value
    if not (isinstance(op, ast.Call) and norm(op.func) == 'open' and isinstance(b[0].items[0].optional_vars, ast.Name)):
        raise TranslateError('save_dictionary: the with statement does not open a file')
    out['saveDictionaryWiring'] = [('parameters', ', '.join(a.arg for a in fn.args.args)), ('file variable', b[0].items[0].optional_vars.id)] + \
        [('open ' + k, v) for k, v in call_table(op, ['file', 'mode'])] + [('call', norm(dump.func))] + \
        [('dump ' + k, v) for k, v in call_table(dump, ['obj', 'fp'])] + [('returns', norm(b[1].value))]
    # load_dictionary: settings = json.load(open(<path>)); return settings
    fn = find_function(t, 'load_dictionary')
    b = body_of(fn)
    if not (len(b) == 2 and isinstance(b[0], ast.Assign) and isinstance(b[0].value, ast.Call) and isinstance(b[1], ast.Return)
            and len(b[0].value.args) == 1 and isinstance(b[0].value.args[0], ast.Call) and norm(b[0].value.args[0].func) == 'open'):
        raise TranslateError('load_dictionary: unexpected shape of the body')
    load, op = b[0].value, b[0].value.args[0]
    out['loadDictionaryWiring'] = [('parameters', ', '.join(a.arg for a in fn.args.args)), ('call', norm(load.func))] + \
        [('open ' + k, v) for k, v in call_table(op, ['file', 'mode'])] + [('load ' + k.arg, norm(k.value)) for k in load.keywords] + \
        [('assigned to', norm(b[0].targets[0])), ('returns', norm(b[1].value))]
    # write_to_text_file: with open(<path>, <flag>) as f: for line in content: f.write(fmt.format(line)); return True
    fn = find_function(t, 'write_to_text_file')
    b = body_of(fn)
    if not (len(b) == 2 and isinstance(b[0], ast.With) and len(b[0].items) == 1 and isinstance(b[1], ast.Return) and len(b[0].body) == 1
            and isinstance(b[0].body[0], ast.For) and len(b[0].body[0].body) == 1):
        raise TranslateError('write_to_text_file: unexpected shape of the body')
    op, loop = b[0].items[0].context_expr, b[0].body[0]
    out['writeToTextFileWiring'] = [('parameters', ', '.join(a.arg for a in fn.args.args))] + [('default ' + k, v) for k, v in defaults_of(fn)] + \
        [('open ' + k, v) for k, v in call_table(op, ['file', 'mode'])] + [('file variable', norm(b[0].items[0].optional_vars)),
                                                                          ('loop', 'for %s in %s' % (norm(loop.target), norm(loop.iter))),
                                                                          ('loop body', norm(loop.body[0])), ('returns', norm(b[1].value))]
    # list_files
    fn = find_function(t, 'list_files')
    b = body_of(fn)
    if not (len(b) == 5 and isinstance(b[0], ast.If) and isinstance(b[1], ast.Assign) and isinstance(b[2], ast.For) and isinstance(b[3], ast.Assign)
            and isinstance(b[4], ast.Return)):
        raise TranslateError('list_files: unexpected shape of the body')
    rows = [('parameters', ', '.join(a.arg for a in fn.args.args))] + [('default ' + k, v) for k, v in defaults_of(fn)]
    node = b[0]
    while isinstance(node, ast.If):
        rows.append(('if ' + norm(node.test), '; '.join(norm(s) for s in node.body)))
        if len(node.orelse) == 1 and isinstance(node.orelse[0], ast.If):
            node = node.orelse[0]
        else:
            if node.orelse:
                rows.append(('else', '; '.join(norm(s) for s in node.orelse)))
            node = None
    rows += [('then', norm(b[1])), ('loop', 'for %s in %s: %s' % (norm(b[2].target), norm(b[2].iter), '; '.join(norm(s) for s in b[2].body))),
             ('then ', norm(b[3])), ('returns', norm(b[4].value))]
    out['listFilesWiring'] = rows
    # check_directory
    fn = find_function(t, 'check_directory')
    b = body_of(fn)
    if not (len(b) == 2 and isinstance(b[0], ast.If) and not b[0].orelse and isinstance(b[1], ast.Return)):
        raise TranslateError('check_directory: unexpected shape of the body')
    out['checkDirectoryWiring'] = [('parameters', ', '.join(a.arg for a in fn.args.args)), ('if', norm(b[0].test)),
                                   ('then', '; '.join(norm(s) for s in b[0].body)), ('otherwise returns', norm(b[1].value))]
    # expanduser
    fn = find_function(t, 'expanduser')
    b = body_of(fn)
    out['expanduserWiring'] = [('parameters', ', '.join(a.arg for a in fn.args.args))] + [('statement', norm(s)) for s in b]
    return out


def generate():
    _trees.clear()
    out = ['/- GENERATED by harness/translate/plygen.py from %s and %s (and the signature of rotate_point in %s) – do not edit. -/' % (AS, FS, NT),
           'import OdakModel.GenLoopPrelude', 'namespace Odak.Gen', 'variable {α : Type} [Num α]', '']
    errors, notes = [], []
    grid = V('arr3', name='points', shape=['shape0', 'shape1', '3'])
    tris = V('arr3', name='triangles', shape=['k', '3', '3'])
    steps = [
        ('write_PLY_from_points', lambda: run_writer('write_PLY_from_points', [('points', grid), ('savefn', V('o'))], 'plyPoints',
                                                     ('(shape0 shape1 : Nat)', 'for a `shape0 x shape1 x 3` array `points`', 'points[i, j, k]'))),
        ('write_PLY', lambda: run_writer('write_PLY', [('triangles', tris), ('savefn', V('o'))], 'plyWrite',
                                         ('(k : Nat)', 'for `k` triangles (`triangles` is `k x 3 x 3`)', 'triangles[i][j][k]'))),
        ('read_PLY', run_reader),
    ]
    for name, step in steps:
        try:
            text, nts = step()
            out.append(text)
            notes += ['%s: %s' % (name, n) for n in nts]
        except (TranslateError, OSError, SyntaxError, KeyError, IndexError, AttributeError, TypeError, ValueError) as e:
            errors.append('%s (%s): %s' % (name, AS, e))
    try:
        for lean, rows in file_wiring().items():
            out.append('/-- `%s` (%s): which call with which arguments, as written -/' % (PYNAMES[lean], FS))
            out.append('def %s : List (String × String) := [%s]' % (lean, ', '.join('(%s, %s)' % (lean_str(a), lean_str(b)) for a, b in rows)))
            out.append('')
    except (TranslateError, OSError, SyntaxError, KeyError, IndexError, AttributeError, TypeError, ValueError) as e:
        errors.append('file helpers (%s): %s' % (FS, e))
    for n in sorted(set(notes)):
        out.append('-- note: ' + n)
    out += ['', 'end Odak.Gen', '']
    return '\n'.join(out), errors


if __name__ == '__main__':
    t, e = generate()
    print(t)
    print(e)
