"""Regenerates Generated/FoveationGen.lean from

    odak/learn/perception/foveation.py                   the eccentricity / distance / pooling-size / level-of-detail / radial maps
    odak/learn/perception/radially_varying_blur.py       RadiallyVaryingBlur.blur: blend fraction, per-level masks and blending, mip chain sizes
    odak/learn/perception/spatial_steerable_pyramid.py   pad_image_for_pyramid: early-return test, pad call, which tuple entry pads which axis

by symbolic interpretation of the Python `ast` (odak is never executed).

The maps are translated PER PIXEL.  A tensor value is `T(shape, comps)`: `shape` is a list of dimensions, each a Python int (a literal
size such as the 3 of a stacked x/y/z map) or the Lean `Nat` term of an image side (`h`, `w`); `comps` holds one Lean term of type α
per index of the LITERAL dimensions - a symbolic dimension is "the coordinate of the pixel under consideration", written `⟪h⟫` / `⟪w⟫`
inside terms until the shape of the result tells which of them is the row index `i` and which the column index `j`.  Broadcasting,
`x[None, :, None]`, `.repeat`, `torch.cat`, `torch.sum(dim = 0)` are therefore exact bookkeeping on `shape`; a layout the code cannot
have (a row coordinate broadcast against a column count) is a TranslateError, as is anything outside the grammar.  On any error the
error is returned and `generate_all` keeps the accepted file."""
import ast
import itertools
import os
from .pyexpr import TranslateError, find_function, ExprTranslator
from .constants import sci

REPO = os.environ.get('ODAK_REPO', '/repo')
FILE = 'FoveationGen.lean'
F_FOV = 'odak/learn/perception/foveation.py'
F_BLUR = 'odak/learn/perception/radially_varying_blur.py'
F_PYR = 'odak/learn/perception/spatial_steerable_pyramid.py'
LIBS = ('torch', 'math', 'np', 'numpy')
IDENT_METHODS = ('to', 'clone', 'detach', 'float', 'double', 'contiguous', 'cpu')
CATCH = (TranslateError, OSError, SyntaxError, KeyError, IndexError, AttributeError, TypeError, ValueError)

_trees = {}


def tree(rel):
    if rel not in _trees:
        with open(os.path.join(REPO, rel)) as f:
            _trees[rel] = ast.parse(f.read())
    return _trees[rel]


def lit(x):
    if isinstance(x, bool):
        raise TranslateError('boolean used as a number')
    if isinstance(x, float) and x == int(x) and abs(x) < 2 ** 53:
        x = int(x)
    return sci(x)


class T:
    """per-pixel tensor (kind 't': α terms, kind 'b': Bool terms)"""
    def __init__(self, shape, comps, kind='t', const=None):
        self.shape, self.comps, self.kind, self.const = list(shape), list(comps), kind, const
        n = 1
        for d in self.shape:
            n *= d if isinstance(d, int) else 1
        if n != len(self.comps):
            raise TranslateError('internal: %d components for shape %s' % (len(self.comps), self.shape))

    def __repr__(self):
        return 'T(%s, %s)' % (self.shape, self.comps)


class Dim:
    def __init__(self, term):
        self.term = term


class Py:
    """python constant: None / bool / str; or an opaque library object"""
    def __init__(self, const=None, opaque=False):
        self.const, self.opaque = const, opaque


class Lst:
    def __init__(self, items):
        self.items = items


class Flag:
    """a Bool parameter of the Lean definition (`mode == "quadratic"`); `Mode` is the string parameter it is computed from"""
    def __init__(self, term):
        self.term = term


class Mode:
    pass


def scalar(term, const=None):
    return T([], [term], const=const)


def lits(shape):
    return [d if isinstance(d, int) else 1 for d in shape]


def flat(shape, idx):
    k = 0
    for s, i in zip(lits(shape), idx):
        k = k * s + i
    return k


def ph(dim):
    return '⟪%s⟫' % dim


def broadcast(a, b, what):
    n = max(len(a.shape), len(b.shape))
    sa, sb = [1] * (n - len(a.shape)) + a.shape, [1] * (n - len(b.shape)) + b.shape
    out = []
    for x, y in zip(sa, sb):
        if x == y:
            out.append(x)
        elif x == 1:
            out.append(y)
        elif y == 1:
            out.append(x)
        else:
            raise TranslateError('shapes %s and %s do not broadcast in %s' % (a.shape, b.shape, what))
    pairs = []
    for idx in itertools.product(*[range(s) for s in lits(out)]):
        ia = [i if isinstance(d, int) and d > 1 else 0 for d, i in zip(sa, idx)]
        ib = [i if isinstance(d, int) and d > 1 else 0 for d, i in zip(sb, idx)]
        pairs.append((a.comps[flat(sa, ia)], b.comps[flat(sb, ib)]))
    return out, pairs


class Interp:
    def __init__(self, env, registry, self_attrs=None):
        self.env, self.registry = dict(env), registry
        self.self_attrs = self_attrs or {}
        self.lets, self.counter = [], 0

    def fresh(self, base):
        self.counter += 1
        return '%s_%d' % (base, self.counter)

    def emit(self, name, ty, term):
        self.lets.append('let %s : %s := %s' % (name, ty, term))

    def bind(self, base, v):
        if isinstance(v, T):
            n = self.fresh(base)
            ty = 'α' if v.kind == 't' else 'Bool'
            if len(v.comps) == 1:
                self.emit(n, ty, v.comps[0])
                return T(v.shape, [n], v.kind, v.const)
            names = []
            for k, c in enumerate(v.comps):
                self.emit('%s_c%d' % (n, k), ty, c)
                names.append('%s_c%d' % (n, k))
            return T(v.shape, names, v.kind)
        return v

    # ------------------------------------------------------------------ coercions
    def ten(self, v, what):
        if isinstance(v, T) and v.kind == 't':
            return v
        if isinstance(v, Dim):
            return scalar('(Num.ofNat %s)' % v.term)
        raise TranslateError('expected a number or tensor in %s, got %s' % (what, type(v).__name__))

    def nat(self, v, what):
        """a Python int as a Lean `Nat` term"""
        if isinstance(v, Dim):
            return v.term
        if isinstance(v, T) and v.shape == [] and isinstance(v.const, int) and v.const >= 0:
            return str(v.const)
        raise TranslateError('expected an integer in %s' % what)

    # ------------------------------------------------------------------ expressions
    def ev(self, node):
        src = ast.unparse(node)
        if src in self.self_attrs:
            return self.self_attrs[src]
        if isinstance(node, ast.Constant):
            c = node.value
            if isinstance(c, bool) or c is None or isinstance(c, str):
                return Py(c)
            if isinstance(c, (int, float)):
                return scalar(lit(c), const=c)
            raise TranslateError('unsupported constant ' + src)
        if isinstance(node, ast.Name):
            if node.id in self.env:
                return self.env[node.id]
            raise TranslateError('unknown name ' + node.id)
        if isinstance(node, ast.Attribute):
            if src in ('math.pi', 'torch.pi', 'np.pi', 'numpy.pi'):
                return scalar('Num.pi')
            if isinstance(node.value, ast.Name) and node.value.id in LIBS and node.value.id not in self.env:
                return Py(opaque=True)
            raise TranslateError('unsupported attribute ' + src)
        if isinstance(node, (ast.Tuple, ast.List)):
            return Lst([self.ev(e) for e in node.elts])
        if isinstance(node, ast.Subscript):
            return self.subscript(self.ev(node.value), node.slice, src)
        if isinstance(node, ast.UnaryOp) and isinstance(node.op, ast.USub):
            a = self.ten(self.ev(node.operand), src)
            c = -a.const if a.const is not None else None
            return T(a.shape, ['(-%s)' % t for t in a.comps], const=c)
        if isinstance(node, ast.BinOp):
            return self.binop(type(node.op), self.ev(node.left), self.ev(node.right), src)
        if isinstance(node, ast.Compare) and len(node.ops) == 1:
            return self.compare(type(node.ops[0]), self.ev(node.left), self.ev(node.comparators[0]), src)
        if isinstance(node, ast.Call):
            return self.call(node, src)
        raise TranslateError('unsupported expression ' + src)

    def compare(self, op, a, b, src):
        if isinstance(a, Mode) and isinstance(b, Py) and op is ast.Eq:
            if b.const == 'quadratic':
                return Flag('quadratic')
            raise TranslateError('comparison of the mode with an unknown string in ' + src)
        a, b = self.ten(a, src), self.ten(b, src)
        shape, pairs = broadcast(a, b, src)
        fm = {ast.Lt: '(decide (%s < %s))', ast.LtE: '(decide (%s ≤ %s))'}
        rv = {ast.Gt: '(decide (%s < %s))', ast.GtE: '(decide (%s ≤ %s))'}
        if op in fm:
            return T(shape, [fm[op] % (x, y) for x, y in pairs], kind='b')
        if op in rv:
            return T(shape, [rv[op] % (y, x) for x, y in pairs], kind='b')
        raise TranslateError('unsupported comparison ' + src)

    def binop(self, op, a, b, src):
        if op is ast.Pow:
            return self.power(a, b, src)
        sym = {ast.Add: '+', ast.Sub: '-', ast.Mult: '*', ast.Div: '/'}.get(op)
        if sym is None:
            raise TranslateError('unsupported operator in ' + src)
        if isinstance(a, Dim) and isinstance(b, Dim) and sym in '+*':
            return Dim('(%s %s %s)' % (a.term, sym, b.term))
        a, b = self.ten(a, src), self.ten(b, src)
        shape, pairs = broadcast(a, b, src)
        return T(shape, ['(%s %s %s)' % (x, sym, y) for x, y in pairs])

    def power(self, a, e, src):
        a = self.ten(a, src)
        if not (isinstance(e, T) and e.const is not None):
            raise TranslateError('unsupported exponent in ' + src)
        if e.const == 2:
            return T(a.shape, ['(Num.sq %s)' % t for t in a.comps])
        if e.const == 0.5:
            return T(a.shape, ['(Num.sqrt %s)' % t for t in a.comps])
        raise TranslateError('unsupported exponent in ' + src)

    def subscript(self, base, sl, src):
        if isinstance(base, Lst):
            k = None
            if isinstance(sl, ast.Constant) and isinstance(sl.value, int):
                k = sl.value
            elif isinstance(sl, ast.UnaryOp) and isinstance(sl.op, ast.USub) and isinstance(sl.operand, ast.Constant):
                k = -sl.operand.value
            if k is None or not -len(base.items) <= k < len(base.items):
                raise TranslateError('unsupported list index ' + src)
            return base.items[k]
        if isinstance(base, T):
            elts = list(sl.elts) if isinstance(sl, ast.Tuple) else [sl]
            n_real = sum(1 for e in elts if not (isinstance(e, ast.Constant) and (e.value is None or e.value is Ellipsis)))
            out, k = [], 0
            for e in elts:
                if isinstance(e, ast.Constant) and e.value is None:
                    out.append(1)
                elif isinstance(e, ast.Constant) and e.value is Ellipsis:
                    take = len(base.shape) - n_real
                    out += base.shape[k:k + take]
                    k += take
                elif isinstance(e, ast.Slice) and e.lower is None and e.upper is None and e.step is None:
                    if k >= len(base.shape):
                        raise TranslateError('too many indices in ' + src)
                    out.append(base.shape[k])
                    k += 1
                else:
                    raise TranslateError('unsupported subscript ' + src)
            out += base.shape[k:]
            return T(out, base.comps, base.kind)      # only size-1 dimensions were inserted: the component order is unchanged
        raise TranslateError('unsupported subscript ' + src)

    def kw(self, node, k, name):
        if k is not None and k < len(node.args):
            return node.args[k]
        for x in node.keywords:
            if x.arg == name:
                return x.value
        return None

    def unary(self, fn, v, src):
        a = self.ten(v, src)
        return T(a.shape, [fn % t for t in a.comps])

    def reduce_sum(self, a, dim, src):
        if dim is None:
            if any(not isinstance(d, int) for d in a.shape):
                raise TranslateError('sum over image pixels in ' + src)
            t = a.comps[0]
            for c in a.comps[1:]:
                t = '(%s + %s)' % (t, c)
            return scalar(t)
        if not (0 <= dim < len(a.shape)) or not isinstance(a.shape[dim], int):
            raise TranslateError('sum over a pixel axis in ' + src)
        shape = a.shape[:dim] + a.shape[dim + 1:]
        comps = []
        for idx in itertools.product(*[range(s) for s in lits(shape)]):
            terms = [a.comps[flat(a.shape, list(idx[:dim]) + [r] + list(idx[dim:]))] for r in range(a.shape[dim])]
            t = terms[0]
            for c in terms[1:]:
                t = '(%s + %s)' % (t, c)
            comps.append(t)
        return T(shape, comps)

    def call(self, node, src):
        f = ast.unparse(node.func)
        lib, _, short = f.rpartition('.')
        is_lib = lib.split('.')[0] in LIBS and lib.split('.')[0] not in self.env
        if isinstance(node.func, ast.Attribute) and not is_lib:               # method of a value
            recv = self.ev(node.func.value)
            m = node.func.attr
            if m in IDENT_METHODS:
                return recv
            if m == 'repeat' and isinstance(recv, T):
                reps = [self.ev(a) for a in node.args]
                if len(reps) == 1 and isinstance(reps[0], Lst):
                    reps = reps[0].items
                if len(reps) < len(recv.shape) or node.keywords:
                    raise TranslateError('unsupported repeat ' + src)
                shape = [1] * (len(reps) - len(recv.shape)) + recv.shape
                out = []
                for d, r in zip(shape, reps):
                    if isinstance(r, T) and r.const == 1:
                        out.append(d)
                    elif isinstance(r, Dim) and d == 1:
                        out.append(r.term)
                    else:
                        raise TranslateError('repeat of a dimension that is not of size 1 in ' + src)
                return T(out, recv.comps, recv.kind)
            if m == 'size' and isinstance(recv, Lst) and len(node.args) == 1:      # image.size(-1) of an image given by its shape
                return self.subscript(recv, node.args[0], src)
            raise TranslateError('unsupported method ' + src)
        if is_lib:
            if short == 'linspace':
                if len(node.args) != 3 or any(k.arg not in ('dtype', 'device') for k in node.keywords):
                    raise TranslateError('unsupported linspace arguments in ' + src)
                lo, hi = self.ten(self.ev(node.args[0]), src), self.ten(self.ev(node.args[1]), src)
                cnt = self.ev(node.args[2])
                if lo.shape or hi.shape or not isinstance(cnt, Dim):
                    raise TranslateError('unsupported linspace arguments in ' + src)
                return T([cnt.term], ['(linspace %s %s %s %s)' % (lo.comps[0], hi.comps[0], cnt.term, ph(cnt.term))])
            if short == 'ones' and len(node.args) >= 1:
                a = self.ev(node.args[0])
                items = a.items if isinstance(a, Lst) else [self.ev(x) for x in node.args]
                shape = []
                for it in items:
                    if isinstance(it, Dim):
                        shape.append(it.term)
                    elif isinstance(it, T) and it.const == 1:
                        shape.append(1)
                    else:
                        raise TranslateError('unsupported shape in ' + src)
                return T(shape, [lit(1)])
            if short == 'tensor' and len(node.args) == 1:
                a = self.ev(node.args[0])
                if isinstance(a, Lst) and all(isinstance(x, (T, Dim)) for x in a.items):
                    items = [self.ten(x, src) for x in a.items]
                    if all(x.shape == [] for x in items):
                        return T([len(items)], [x.comps[0] for x in items])
                raise TranslateError('unsupported tensor literal ' + src)
            if short == 'cat':
                a = self.ev(node.args[0])
                d = self.kw(node, 1, 'dim')
                if d is not None and not (isinstance(d, ast.Constant) and d.value == 0):
                    raise TranslateError('unsupported cat dimension in ' + src)
                if not isinstance(a, Lst) or not all(isinstance(x, T) and x.kind == 't' and x.shape for x in a.items):
                    raise TranslateError('unsupported cat ' + src)
                rest = a.items[0].shape[1:]
                if any(x.shape[1:] != rest or not isinstance(x.shape[0], int) for x in a.items):
                    raise TranslateError('cat of tensors of different shapes in ' + src)
                return T([sum(x.shape[0] for x in a.items)] + rest, [c for x in a.items for c in x.comps])
            if short == 'sum':
                a = self.ten(self.ev(node.args[0]), src)
                d = self.kw(node, 1, 'dim') or self.kw(node, None, 'axis')
                if d is None:
                    return self.reduce_sum(a, None, src)
                if not (isinstance(d, ast.Constant) and isinstance(d.value, int)):
                    raise TranslateError('unsupported sum dimension in ' + src)
                return self.reduce_sum(a, d.value % max(1, len(a.shape)), src)
            simple = {'sqrt': '(Num.sqrt %s)', 'acos': '(Num.acos %s)', 'arccos': '(Num.acos %s)', 'sin': '(Num.sin %s)',
                      'cos': '(Num.cos %s)', 'tan': '(tanN %s)', 'abs': '(Num.abs %s)', 'absolute': '(Num.abs %s)',
                      'log2': '(Num.log2 %s)', 'log': '(Num.log %s)', 'exp': '(Num.exp %s)', 'floor': '(Num.floor %s)'}
            if short in simple and len(node.args) == 1 and not node.keywords:
                return self.unary(simple[short], self.ev(node.args[0]), src)
            if short == 'pow' and len(node.args) == 2:
                return self.power(self.ev(node.args[0]), self.ev(node.args[1]), src)
            if short == 'fmod' and len(node.args) == 2:
                a, b = self.ten(self.ev(node.args[0]), src), self.ten(self.ev(node.args[1]), src)
                shape, pairs = broadcast(a, b, src)
                return T(shape, ['(Num.tfmod %s %s)' % p for p in pairs])
            if short == 'clamp' and len(node.args) == 1 and sorted(k.arg for k in node.keywords) == ['max', 'min']:
                a = self.ten(self.ev(node.args[0]), src)
                lo, hi = self.ten(self.ev(self.kw(node, None, 'min')), src), self.ten(self.ev(self.kw(node, None, 'max')), src)
                if lo.shape or hi.shape:
                    raise TranslateError('unsupported clamp bounds in ' + src)
                return T(a.shape, ['(Num.clamp %s %s %s)' % (t, lo.comps[0], hi.comps[0]) for t in a.comps])
            if short == 'logical_and' and len(node.args) == 2:
                a, b = self.ev(node.args[0]), self.ev(node.args[1])
                if isinstance(a, T) and isinstance(b, T) and a.kind == b.kind == 'b':
                    shape, pairs = broadcast(a, b, src)
                    return T(shape, ['(%s && %s)' % p for p in pairs], kind='b')
            raise TranslateError('unsupported call ' + src)
        if isinstance(node.func, ast.Name) and f in self.registry:
            return self.call_job(self.registry[f], node, src)
        raise TranslateError('call of a function that is not translated: ' + src)

    def call_job(self, job, node, src):
        fn = job['fn']
        names = [a.arg for a in fn.args.args]
        given = {}
        for k, a in enumerate(node.args):
            if k >= len(names):
                raise TranslateError('too many arguments in ' + src)
            given[names[k]] = a
        for kwd in node.keywords:
            if kwd.arg not in names or kwd.arg in given:
                raise TranslateError('unsupported keyword in ' + src)
            given[kwd.arg] = kwd.value
        args, size = [], None
        for pname, kind in job['params']:
            if pname not in given:
                raise TranslateError('argument %s is not passed in %s' % (pname, src))
            v = self.ev(given[pname])
            if kind == 'pair':
                if not (isinstance(v, Lst) and len(v.items) == 2):
                    raise TranslateError('%s is not a pair in %s' % (pname, src))
                args += [self.ten(x, src).comps[0] for x in v.items]
            elif kind == 'size':
                if not (isinstance(v, Lst) and len(v.items) == 2 and all(isinstance(x, Dim) for x in v.items)):
                    raise TranslateError('%s is not an image size in %s' % (pname, src))
                size = [x.term for x in v.items]
                args += size
            elif kind == 's':
                v = self.ten(v, src)
                if v.shape:
                    raise TranslateError('%s is not a scalar in %s' % (pname, src))
                args.append(v.comps[0])
            elif kind == 'mode':
                if isinstance(v, Mode):
                    args.append('quadratic')
                elif isinstance(v, Py) and isinstance(v.const, str):
                    args.append('true' if v.const == 'quadratic' else 'false')
                else:
                    raise TranslateError('%s is not a mode in %s' % (pname, src))
        if size is None:
            raise TranslateError('internal: job without a size')
        term = '(%s %s %s %s)' % (job['lean'], ' '.join(args), ph(size[0]), ph(size[1]))
        res = job['result']
        if res == 1:
            return T(size, [term])
        n = self.fresh(job['py'])
        self.emit(n, ' × '.join(['α'] * abs(res)), term)
        projs = ['%s.%s' % (n, '.'.join(['2'] * k + ['1'])) if k < abs(res) - 1 else '%s.%s' % (n, '.'.join(['2'] * k))
                 for k in range(abs(res))]
        if res < 0:                 # a stacked map [n, h, w]
            return T([abs(res)] + size, projs)
        return Lst([T(size, [p]) for p in projs])

    # ------------------------------------------------------------------ statements
    def run(self, body):
        for st in body:
            src = ast.unparse(st)
            if isinstance(st, ast.Expr) and isinstance(st.value, ast.Constant):
                continue
            if isinstance(st, ast.Return):
                if st.value is None:
                    raise TranslateError('bare return')
                return self.ev(st.value)
            if isinstance(st, ast.Assign) and len(st.targets) == 1:
                self.assign(st.targets[0], st.value, src)
                continue
            if isinstance(st, ast.AugAssign) and isinstance(st.target, ast.Name):
                cur = self.ev(st.target)
                self.env[st.target.id] = self.bind(st.target.id, self.binop(type(st.op), cur, self.ev(st.value), src))
                continue
            if isinstance(st, ast.If):
                r = self.branch(st, src)
                if r is not None:
                    return r
                continue
            raise TranslateError('unsupported statement ' + src[:80])
        return None

    def assign(self, target, value, src):
        if isinstance(target, ast.Name):
            self.env[target.id] = self.bind(target.id, self.ev(value))
            return
        if isinstance(target, ast.Tuple) and all(isinstance(t, ast.Name) for t in target.elts):
            v = self.ev(value)
            if isinstance(v, Lst) and len(v.items) == len(target.elts):
                for t, x in zip(target.elts, v.items):
                    if t.id != '_':
                        self.env[t.id] = self.bind(t.id, x)
                return
        if isinstance(target, ast.Subscript) and isinstance(target.value, ast.Name) and target.value.id in self.env:
            # masked store  x[mask] = v
            base, mask, v = self.env[target.value.id], self.ev(target.slice), self.ten(self.ev(value), src)
            if isinstance(base, T) and isinstance(mask, T) and mask.kind == 'b' and mask.shape == base.shape and v.shape == []:
                new = T(base.shape, ['(if %s then %s else %s)' % (self.undecide(m), v.comps[0], b) for m, b in zip(mask.comps, base.comps)])
                self.env[target.value.id] = self.bind(target.value.id, new)
                return
        raise TranslateError('unsupported assignment ' + src[:80])

    @staticmethod
    def undecide(m):
        return m[len('(decide ('):-2] if m.startswith('(decide (') and m.endswith('))') else '%s = true' % m

    def branch(self, st, src):
        c = self.ev(st.test)
        if isinstance(c, Py) and isinstance(c.const, bool):
            return self.run(st.body if c.const else st.orelse)
        if not isinstance(c, Flag):
            raise TranslateError('condition is neither static nor the mode test: ' + ast.unparse(st.test))
        base = dict(self.env)
        envs = []
        for body in (st.body, st.orelse):
            self.env = dict(base)
            if self.run(body) is not None:
                raise TranslateError('return inside a mode branch')
            envs.append(self.env)
        self.env = dict(base)
        for name in sorted(set(envs[0]) | set(envs[1])):
            a, b = envs[0].get(name), envs[1].get(name)
            if a is b:
                continue
            if not (isinstance(a, T) and isinstance(b, T) and a.shape == b.shape and a.kind == b.kind == 't'):
                raise TranslateError('variable %s differs between the mode branches in a way that is not translated' % name)
            self.env[name] = self.bind(name, T(a.shape, ['(if %s then %s else %s)' % (c.term, x, y) for x, y in zip(a.comps, b.comps)]))
        return None


# ---------------------------------------------------------------------------------------------------------------------
# map jobs

def job(py, lean, params, result, doc):
    """params: (python parameter, kind) in the order of the Python signature; result: 1 = one map, n > 1 = a tuple of n maps,
    -n = a stacked map [n, h, w]"""
    return {'py': py, 'lean': lean, 'params': params, 'result': result, 'doc': doc}


MAP_JOBS = [
    job('make_3d_location_map', 'locationMapG', [('image_pixel_size', 'size'), ('real_image_width', 's'), ('real_viewing_distance', 's')], -3,
        'elements [0, i, j], [1, i, j], [2, i, j] (x, y, z of the pixel on the screen)'),
    job('make_eccentricity_distance_maps', 'eccDistG', [('gaze_location', 'pair'), ('image_pixel_size', 'size'), ('real_image_width', 's'),
                                                        ('real_viewing_distance', 's')], 2, '(eccentricity, distance) at pixel [i, j]'),
    job('make_pooling_size_map_pixels', 'poolingPixelsG', [('gaze_location', 'pair'), ('image_pixel_size', 'size'), ('alpha', 's'),
                                                           ('real_image_width', 's'), ('real_viewing_distance', 's'), ('mode', 'mode')], 1,
        'pooling size in pixels at pixel [i, j]'),
    job('make_pooling_size_map_lod', 'poolingLodG', [('gaze_location', 'pair'), ('image_pixel_size', 'size'), ('alpha', 's'),
                                                     ('real_image_width', 's'), ('real_viewing_distance', 's'), ('mode', 'mode')], 1,
        'level of detail at pixel [i, j]'),
    job('make_equi_pooling_size_map_pixels', 'equiPoolingPixelsG', [('gaze_angles', 'pair'), ('image_pixel_size', 'size'), ('alpha', 's'),
                                                                    ('mode', 'mode')], 1, 'pooling size in pixels at pixel [i, j]'),
    job('make_equi_pooling_size_map_lod', 'equiPoolingLodG', [('gaze_angles', 'pair'), ('image_pixel_size', 'size'), ('alpha', 's'),
                                                              ('mode', 'mode')], 1, 'level of detail at pixel [i, j]'),
]

LEAN_NAMES = {'gaze_location': 'g', 'gaze_angles': 'a', 'gaze': 'g', 'image_pixel_size': ('h', 'w'), 'size': ('s0', 's1'),
              'real_image_width': 'width', 'real_viewing_distance': 'dist', 'alpha': 'alpha'}


def binders_and_env(j):
    binders, env = [], {}
    for pname, kind in j['params']:
        ln = LEAN_NAMES.get(pname, pname)
        if kind == 'pair':
            binders.append('(%s0 %s1 : α)' % (ln, ln))
            env[pname] = Lst([scalar(ln + '0'), scalar(ln + '1')])
        elif kind == 'size':
            binders.append('(%s %s : Nat)' % ln)
            env[pname] = Lst([Dim(ln[0]), Dim(ln[1])])
            size = list(ln)
        elif kind == 's':
            binders.append('(%s : α)' % ln)
            env[pname] = scalar(ln)
        elif kind == 'mode':
            binders.append('(quadratic : Bool)')
            env[pname] = Mode()
    return binders, env, size


def finish(lines, size, what):
    """replace the pixel-coordinate placeholders by the row / column index"""
    if size[0] == size[1]:
        raise TranslateError('%s: rows and columns carry the same name' % what)
    text = '\n'.join(lines).replace(ph(size[0]), 'i').replace(ph(size[1]), 'j')
    if '⟪' in text:
        raise TranslateError('%s: a coordinate of an axis that is not an axis of the result is used' % what)
    return text


def run_map_job(j, registry, rel=F_FOV, stop_before_return=None):
    fn = find_function(tree(rel), j['py'])
    j['fn'] = fn
    names = [a.arg for a in fn.args.args]
    if names != [p for p, _ in j['params']]:
        raise TranslateError('%s: the parameter list is %s, the translator expects %s' % (j['py'], names, [p for p, _ in j['params']]))
    binders, env, size = binders_and_env(j)
    it = Interp(env, registry)
    res = it.run(fn.body)
    if res is None:
        raise TranslateError('%s: no return statement' % j['py'])
    n = j['result']
    if n == 1:
        parts = [res]
    elif n > 1:
        if not (isinstance(res, Lst) and len(res.items) == n):
            raise TranslateError('%s: does not return %d maps' % (j['py'], n))
        parts = res.items
    else:
        parts = [res]
    terms = []
    for p in parts:
        want = ([abs(n)] if n < 0 else []) + size
        if not (isinstance(p, T) and p.kind == 't' and p.shape == want):
            raise TranslateError('%s: the result has shape %s, expected %s' % (j['py'], getattr(p, 'shape', None), want))
        terms += p.comps
    ty = ' × '.join(['α'] * len(terms))
    head = ['/-- `%s` (%s): %s -/' % (j['py'], rel, j['doc']),
            'def %s %s (i j : Nat) : %s :=' % (j['lean'], ' '.join(binders), ty)]
    body = ['  ' + l for l in it.lets] + ['  ' + (terms[0] if len(terms) == 1 else '(' + ', '.join(terms) + ')')]
    return finish(head + body, size, j['py'])


def radial_map(registry):
    """`make_radial_map`: the un-normalised radii per pixel, then `radii / torch.max(radii)`"""
    j = job('make_radial_map', 'radialRadiiG', [('size', 'size'), ('gaze', 'pair')], 1, 'distance in pixels from the gaze, before normalisation')
    fn = find_function(tree(F_FOV), j['py'])
    if [a.arg for a in fn.args.args] != ['size', 'gaze']:
        raise TranslateError('make_radial_map: unexpected parameter list')
    ret = fn.body[-1]
    ok = isinstance(ret, ast.Return) and isinstance(ret.value, ast.BinOp) and isinstance(ret.value.op, ast.Div) \
        and isinstance(ret.value.left, ast.Name) and isinstance(ret.value.right, ast.Call) \
        and ast.unparse(ret.value.right.func) == 'torch.max' and len(ret.value.right.args) == 1 and not ret.value.right.keywords \
        and ast.unparse(ret.value.right.args[0]) == ret.value.left.id
    if not ok:
        raise TranslateError('make_radial_map: the return statement is not `x / torch.max(x)`')
    var = ret.value.left.id
    binders, env, size = binders_and_env(j)
    it = Interp(env, registry)
    if it.run(fn.body[:-1]) is not None:
        raise TranslateError('make_radial_map: early return')
    res = it.env.get(var)
    if not (isinstance(res, T) and res.kind == 't' and res.shape == size):
        raise TranslateError('make_radial_map: %s is not a map of the image size' % var)
    head = ['/-- `make_radial_map` (%s): `%s[i, j]`, the distance in pixels from the gaze before normalisation -/' % (F_FOV, var),
            'def radialRadiiG %s (i j : Nat) : α :=' % ' '.join(binders)]
    text = finish(head + ['  ' + l for l in it.lets] + ['  ' + res.comps[0]], size, 'make_radial_map')
    text += ('\n\n/-- `make_radial_map`: `%s / torch.max(%s)` at pixel [i, j] -/\n'
             'def radialMapG %s (i j : Nat) : α :=\n  (radialRadiiG s0 s1 g0 g1 i j) / (gridMax s0 s1 fun i j => radialRadiiG s0 s1 g0 g1 i j)'
             % (var, var, ' '.join(binders)))
    return text


# ---------------------------------------------------------------------------------------------------------------------
# pad_image_for_pyramid

PAD_CLASSES = {'ReflectionPad2d': 'reflect', 'ZeroPad2d': 'constant'}
PAD_MODES = {'reflect': '.reflect', 'constant': '.constant'}


def pyramid_pad():
    fn = find_function(tree(F_PYR), 'pad_image_for_pyramid')
    if [a.arg for a in fn.args.args] != ['image', 'n_pyramid_levels']:
        raise TranslateError('pad_image_for_pyramid: unexpected parameter list')
    sym = {'image.size(2)': 'H', 'image.size(3)': 'W', 'image.shape[2]': 'H', 'image.shape[3]': 'W', 'image.size(-2)': 'H',
           'image.size(-1)': 'W', 'image.shape[-2]': 'H', 'image.shape[-1]': 'W', '2 ** n_pyramid_levels': 'D'}
    tr = ExprTranslator(sym, positive={'D'})
    body = [s for s in fn.body if not (isinstance(s, ast.Expr) and isinstance(s.value, ast.Constant))]
    k = 0
    while k < len(body) and isinstance(body[k], ast.Assign) and len(body[k].targets) == 1 and isinstance(body[k].targets[0], ast.Name):
        tr.env[body[k].targets[0].id] = tr.tr(body[k].value)
        k += 1
    if not (k == len(body) - 2 and isinstance(body[k], ast.If) and not body[k].orelse and isinstance(body[k + 1], ast.Return)):
        raise TranslateError('pad_image_for_pyramid: expected assignments, one `if` that pads, and a final return')
    if ast.unparse(body[k + 1].value) != 'image':
        raise TranslateError('pad_image_for_pyramid: the fall-through does not return the image itself')

    def cond(node):
        if isinstance(node, ast.BoolOp):
            op = ' ∨ ' if isinstance(node.op, ast.Or) else ' ∧ '
            return '(' + op.join(cond(v) for v in node.values) + ')'
        if isinstance(node, ast.Compare) and len(node.ops) == 1:
            a, b = tr.as_int(node.left), tr.as_int(node.comparators[0])
            fm = {ast.Gt: '%s > %s', ast.GtE: '%s ≥ %s', ast.Lt: '%s < %s', ast.LtE: '%s ≤ %s', ast.NotEq: '%s ≠ %s', ast.Eq: '%s = %s'}
            t = type(node.ops[0])
            if t not in fm:
                raise TranslateError('unsupported comparison ' + ast.unparse(node))
            return fm[t] % ('(%s)' % a, '(%s)' % b)
        raise TranslateError('unsupported pad condition ' + ast.unparse(node))
    test = cond(body[k].test)
    # the padding branch: optional `pad = <PadClass>(tuple)` then `return pad(image)`, or `return F.pad(image, tuple, mode=...)`
    inner = [s for s in body[k].body if not (isinstance(s, ast.Expr) and isinstance(s.value, ast.Constant))]
    objs = {}
    mode = widths = None
    for s in inner[:-1]:
        if isinstance(s, ast.Assign) and len(s.targets) == 1 and isinstance(s.targets[0], ast.Name) and isinstance(s.value, ast.Call):
            cls = ast.unparse(s.value.func).rpartition('.')[2]
            if cls in PAD_CLASSES and len(s.value.args) == 1 and not s.value.keywords:
                objs[s.targets[0].id] = (PAD_CLASSES[cls], s.value.args[0])
                continue
        raise TranslateError('pad_image_for_pyramid: unsupported statement in the padding branch: ' + ast.unparse(s)[:60])
    last = inner[-1] if inner else None
    if not (isinstance(last, ast.Return) and isinstance(last.value, ast.Call)):
        raise TranslateError('pad_image_for_pyramid: the padding branch does not return a pad call')
    c = last.value
    fname = ast.unparse(c.func)
    if isinstance(c.func, ast.Name) and c.func.id in objs and len(c.args) == 1 and ast.unparse(c.args[0]) == 'image' and not c.keywords:
        mode, widths = objs[c.func.id]
    elif isinstance(c.func, ast.Call) and ast.unparse(c.func.func).rpartition('.')[2] in PAD_CLASSES and len(c.func.args) == 1 \
            and len(c.args) == 1 and ast.unparse(c.args[0]) == 'image':
        mode, widths = PAD_CLASSES[ast.unparse(c.func.func).rpartition('.')[2]], c.func.args[0]
    elif fname.rpartition('.')[2] == 'pad' and fname.split('.')[0] in ('F', 'torch') and len(c.args) >= 2 and ast.unparse(c.args[0]) == 'image':
        widths = c.args[1]
        mode = 'constant'
        for kwd in c.keywords:
            if kwd.arg == 'mode' and isinstance(kwd.value, ast.Constant):
                mode = kwd.value.value
            elif kwd.arg == 'value' and isinstance(kwd.value, ast.Constant) and kwd.value.value in (0, 0.0, None):
                pass
            else:
                raise TranslateError('pad_image_for_pyramid: unsupported pad keyword ' + str(kwd.arg))
        if len(c.args) > 2:
            raise TranslateError('pad_image_for_pyramid: positional pad mode')
    else:
        raise TranslateError('pad_image_for_pyramid: unsupported pad call ' + ast.unparse(c)[:60])
    if mode not in PAD_MODES:
        raise TranslateError('pad_image_for_pyramid: unsupported pad mode %r' % (mode,))
    if not (isinstance(widths, ast.Tuple) and len(widths.elts) in (2, 4)):
        raise TranslateError('pad_image_for_pyramid: the pad widths are not a tuple of 2 or 4 entries')
    w = [tr.as_int(e) for e in widths.elts]
    # torch convention: the tuple starts with the LAST dimension: (left, right[, top, bottom]) = (width before, after[, height before, after])
    left, right = w[0], w[1]
    top, bottom = (w[2], w[3]) if len(w) == 4 else ('0', '0')
    call_text = ast.unparse(c)
    for nm, (md, wd) in objs.items():
        if isinstance(c.func, ast.Name) and c.func.id == nm:
            call_text = '%s(%s)(image)' % ([k for k, v in PAD_CLASSES.items() if v == md][0], ast.unparse(wd))
    out = ['/-! ### `pad_image_for_pyramid` (%s): `if %s:` pad with `%s` (mode %s), else `return image` -/'
           % (F_PYR, ast.unparse(body[k].test), ' '.join(call_text.split())[:120], mode), '',
           '/-- the test that guards the padding (when it is false the image itself is returned) -/',
           'def pyrNeedsPadG (H W D : Int) : Bool := decide %s' % test,
           '/-- which kind of padding the call performs -/',
           'def pyrPadModeG : Index.PadMode := %s' % PAD_MODES[mode]]
    for nm, t, d in (('pyrTopG', top, 'rows added before the first row'), ('pyrBottomG', bottom, 'rows added after the last row'),
                     ('pyrLeftG', left, 'columns added before the first column'), ('pyrRightG', right, 'columns added after the last column')):
        out += ['/-- %s -/' % d, 'def %s (H W D : Int) : Int := %s' % (nm, t)]
    out += ['/-- the index map of `pad_image_for_pyramid` on the height axis (`axis = 0`) or the width axis -/',
            'def pyrPadG (axis : Nat) (H W D : Int) : Bool × Index.AxisMap :=',
            '  if pyrNeedsPadG H W D then',
            '    match axis with',
            '    | 0 => Index.padAxis pyrPadModeG H (pyrTopG H W D) (pyrBottomG H W D)',
            '    | _ => Index.padAxis pyrPadModeG W (pyrLeftG H W D) (pyrRightG H W D)',
            '  else',
            '    match axis with',
            '    | 0 => Index.keepAxis H',
            '    | _ => Index.keepAxis W']
    return '\n'.join(out)


# ---------------------------------------------------------------------------------------------------------------------
# RadiallyVaryingBlur.blur

def blur_parts(registry):
    fn = find_function(tree(F_BLUR), 'blur', 'RadiallyVaryingBlur')
    out = []
    # ---- which map function fills the cache, and the blend fraction
    assigns = [s for s in ast.walk(fn) if isinstance(s, ast.Assign) and len(s.targets) == 1]
    calls = [s.value for s in assigns if ast.unparse(s.targets[0]) == 'self.lod_map' and isinstance(s.value, ast.Call)
             and isinstance(s.value.func, ast.Name)]
    used = sorted(set(c.func.id for c in calls))
    if used != ['make_equi_pooling_size_map_lod', 'make_pooling_size_map_lod']:
        raise TranslateError('blur: self.lod_map is filled by %s' % used)
    for c in calls:
        want = {'make_pooling_size_map_lod': ['centre', '(image.size(-2), image.size(-1))', 'alpha', 'real_image_width', 'real_viewing_distance', 'mode'],
                'make_equi_pooling_size_map_lod': ['centre', '(image.size(-2), image.size(-1))', 'alpha', 'mode']}[c.func.id]
        if [ast.unparse(a) for a in c.args] != want or c.keywords:
            raise TranslateError('blur: %s is called with %s' % (c.func.id, [ast.unparse(a) for a in c.args]))
    it = Interp({'image': Py(opaque=True)}, registry, self_attrs={'self.lod_map': T(['h', 'w'], ['lod']), 'image.size(1)': Dim('c'),
                                                                      'image.device': Py(opaque=True)})
    frac = None
    for s in fn.body:
        for a in ([s] if isinstance(s, ast.Assign) else [x for x in ast.walk(s) if isinstance(x, ast.Assign)]):
            if len(a.targets) == 1 and ast.unparse(a.targets[0]) == 'self.lod_fraction':
                frac = it.ev(a.value)
                it.self_attrs['self.lod_fraction'] = frac
    if not (isinstance(frac, T) and frac.kind == 't' and [d for d in frac.shape if d != 1 and d != 'c'] == ['h', 'w'] and not it.lets):
        raise TranslateError('blur: self.lod_fraction is not a per-pixel function of self.lod_map')
    out += ['/-- `self.lod_fraction` of `RadiallyVaryingBlur.blur` at a pixel whose level of detail is `lod` -/',
            'def blurFractionG (lod : α) : α := %s' % frac.comps[0], '']
    # ---- the output loop
    loops = [s for s in fn.body if isinstance(s, ast.For)]
    inits = [s for s in fn.body if isinstance(s, ast.Assign) and ast.unparse(s.targets[0]) == 'output']
    if len(inits) != 1 or not ast.unparse(inits[0].value).startswith('torch.zeros(image.size()'):
        raise TranslateError('blur: output is not initialised with zeros of the image size')
    loop = [l for l in loops if any(isinstance(x, ast.Assign) and ast.unparse(x.targets[0]) == 'output[mask]' for x in ast.walk(l))]
    if len(loop) != 1 or ast.unparse(loop[0].iter) != 'range(len(mipmap))' or not isinstance(loop[0].target, ast.Name):
        raise TranslateError('blur: the output loop `for l in range(len(mipmap))` was not found')
    lv = loop[0].target.id
    if fn.body.index(loop[0]) < fn.body.index(inits[0]) or ast.unparse(fn.body[-1]) != 'return output':
        raise TranslateError('blur: unexpected statement order around the output loop')

    def nat(node):
        s = ast.unparse(node)
        if isinstance(node, ast.Name) and node.id == lv:
            return 'l'
        if isinstance(node, ast.Constant) and isinstance(node.value, int) and node.value >= 0:
            return str(node.value)
        if s == 'len(mipmap)':
            return 'levels'
        if isinstance(node, ast.BinOp) and isinstance(node.op, (ast.Add, ast.Sub)):
            return '(%s %s %s)' % (nat(node.left), '+' if isinstance(node.op, ast.Add) else '-', nat(node.right))
        raise TranslateError('blur: unsupported level expression ' + s)

    def real(node):
        s = ast.unparse(node)
        if s == 'self.lod_map':
            return 'lod'
        if s == 'self.lod_fraction':
            return 'frac'
        if isinstance(node, ast.Subscript) and ast.unparse(node.value) == 'mipmap':
            return '(mip %s)' % nat(node.slice)
        if isinstance(node, ast.Constant) and isinstance(node.value, (int, float)) and not isinstance(node.value, bool):
            return lit(node.value)
        try:
            return '(Num.ofNat %s)' % nat(node)              # an integer expression of the level counter: computed in Python ints
        except TranslateError:
            pass
        if isinstance(node, ast.BinOp) and type(node.op) in (ast.Add, ast.Sub, ast.Mult):
            return '(%s %s %s)' % (real(node.left), {ast.Add: '+', ast.Sub: '-', ast.Mult: '*'}[type(node.op)], real(node.right))
        raise TranslateError('blur: unsupported expression ' + s)

    def boolean(node):
        if isinstance(node, ast.Compare) and len(node.ops) == 1:
            a, b, t = node.left, node.comparators[0], type(node.ops[0])
            fm = {ast.Lt: '(decide (%s < %s))', ast.LtE: '(decide (%s ≤ %s))'}
            rv = {ast.Gt: '(decide (%s < %s))', ast.GtE: '(decide (%s ≤ %s))'}
            if t in fm:
                return fm[t] % (real(a), real(b))
            if t in rv:
                return rv[t] % (real(b), real(a))
        if isinstance(node, ast.Call) and ast.unparse(node.func) == 'torch.logical_and' and len(node.args) == 2:
            return '(%s && %s)' % (boolean(node.args[0]), boolean(node.args[1]))
        raise TranslateError('blur: unsupported mask ' + ast.unparse(node))

    def level_test(node):
        if isinstance(node, ast.Compare) and len(node.ops) == 1 and isinstance(node.ops[0], ast.Eq):
            return '%s = %s' % (nat(node.left), nat(node.comparators[0]))
        raise TranslateError('blur: unsupported level test ' + ast.unparse(node))

    state = {}

    def layout_only(value, name):
        """`mask[None, None, ...]`, `mask.repeat(1, c, 1, 1)`: the same per-pixel value"""
        v = value
        while True:
            if isinstance(v, ast.Subscript):
                v = v.value
            elif isinstance(v, ast.Call) and isinstance(v.func, ast.Attribute) and v.func.attr in ('repeat', 'to'):
                v = v.func.value
            else:
                break
        return isinstance(v, ast.Name) and v.id == name

    def stmts(body, tr_value, var):
        """the value assigned to `var` by an if/elif/else chain or a plain assignment, as a Lean term"""
        res = None
        for s in body:
            if isinstance(s, ast.Assign) and len(s.targets) == 1 and isinstance(s.targets[0], ast.Name) and s.targets[0].id == var:
                if layout_only(s.value, var) and res is not None:
                    continue
                res = tr_value(s.value)
            elif isinstance(s, ast.If) and any(isinstance(x, ast.Assign) and isinstance(x.targets[0], ast.Name) and x.targets[0].id == var
                                                for x in ast.walk(s)):
                a, b = stmts(s.body, tr_value, var), stmts(s.orelse, tr_value, var)
                if a is None or b is None:
                    raise TranslateError('blur: %s is not assigned on every path' % var)
                res = '(if %s then %s else %s)' % (level_test(s.test), a, b)
        return res
    mask = stmts(loop[0].body, boolean, 'mask')
    blended = stmts(loop[0].body, real, 'blended_levels')
    store = loop[0].body[-1]
    if mask is None or blended is None or not (isinstance(store, ast.Assign) and ast.unparse(store) == 'output[mask] = blended_levels[mask]'):
        raise TranslateError('blur: the loop body is not mask / blended_levels / output[mask] = blended_levels[mask]')
    other = [s for s in loop[0].body[:-1] if not (isinstance(s, ast.If) or (isinstance(s, ast.Assign) and isinstance(s.targets[0], ast.Name)
                                                                             and s.targets[0].id in ('mask', 'blended_levels')))]
    if other:
        raise TranslateError('blur: unsupported statement in the output loop: ' + ast.unparse(other[0])[:60])
    out += ['/-- the mask of level `l` among `levels` mip levels at a pixel whose level of detail is `lod` -/',
            'def blurMaskG (levels l : Nat) (lod : α) : Bool :=', '  ' + mask,
            '/-- `blended_levels` of level `l` (`mip k` = the pixel\'s value in mip level `k`, up-sampled to the image size) -/',
            'def blurBlendedG (levels l : Nat) (frac : α) (mip : Nat → α) : α :=', '  ' + blended,
            '/-- one output pixel: `output = zeros; for l in range(levels): output[mask] = blended_levels[mask]` -/',
            'def blurPixelG (levels : Nat) (lod frac : α) (mip : Nat → α) : α :=',
            '  (List.range levels).foldl (fun out l => if blurMaskG levels l lod then blurBlendedG levels l frac mip else out) %s' % lit(0), '']
    # ---- the mip chain: sizes only
    k0 = None
    for k, s in enumerate(fn.body):
        if isinstance(s, ast.Assign) and ast.unparse(s) == 'mipmap = [image]':
            k0 = k
    if k0 is None or not isinstance(fn.body[k0 + 1], ast.While):
        raise TranslateError('blur: `mipmap = [image]` followed by the while loop was not found')
    wh = fn.body[k0 + 1]

    def size_of(node, last):
        """mipmap[-1].size(-1) -> the width of the last level"""
        s = ast.unparse(node)
        for idx, nm in (('-1', last + '.2'), ('-2', last + '.1')):
            if s == 'mipmap[-1].size(%s)' % idx:
                return nm
        if isinstance(node, ast.Constant) and isinstance(node.value, int):
            return str(node.value)
        raise TranslateError('blur: unsupported size expression ' + s)

    def size_cond(node, last):
        if isinstance(node, ast.BoolOp) and isinstance(node.op, ast.And):
            return '(' + ' && '.join(size_cond(v, last) for v in node.values) + ')'
        if isinstance(node, ast.Compare) and len(node.ops) == 1:
            t = type(node.ops[0])
            fm = {ast.Gt: '(decide (%s > %s))', ast.Eq: '(decide (%s = %s))', ast.GtE: '(decide (%s ≥ %s))', ast.Lt: '(decide (%s < %s))'}
            if t in fm:
                return fm[t] % (size_of(node.left, last), size_of(node.comparators[0], last))
        raise TranslateError('blur: unsupported size condition ' + ast.unparse(node))
    wcond = size_cond(wh.test, 's')
    app = wh.body[0] if len(wh.body) == 1 else None
    ok = isinstance(app, ast.Expr) and isinstance(app.value, ast.Call) and ast.unparse(app.value.func) == 'mipmap.append' \
        and isinstance(app.value.args[0], ast.Call) and ast.unparse(app.value.args[0].func).endswith('interpolate')
    if not ok:
        raise TranslateError('blur: the while loop does not append an interpolated level')
    ic = app.value.args[0]
    kws = {k.arg: ast.unparse(k.value) for k in ic.keywords}
    if ast.unparse(ic.args[0]) != 'mipmap[-1]' or kws.get('scale_factor') != '0.5' or kws.get('mode') not in ("'area'", '"area"'):
        raise TranslateError('blur: the next mip level is not `interpolate(mipmap[-1], scale_factor=0.5, mode="area")`')
    tails = []
    for s in fn.body[k0 + 2:]:
        if isinstance(s, ast.For):
            break
        if not (isinstance(s, ast.If) and not s.orelse and len(s.body) == 2):
            raise TranslateError('blur: unexpected statement after the mip loop: ' + ast.unparse(s)[:60])
        a, b = s.body
        okk = isinstance(a, ast.Assign) and isinstance(a.value, ast.Subscript) and isinstance(a.value.value, ast.Call) \
            and ast.unparse(a.value.value.func) == 'torch.mean' and ast.unparse(b) == 'mipmap.append(%s)' % ast.unparse(a.targets[0])
        if not okk:
            raise TranslateError('blur: unexpected final-level statement ' + ast.unparse(s)[:60])
        mc = a.value.value
        src_lvl = ast.unparse(mc.args[0])
        axis = {k.arg: ast.unparse(k.value) for k in mc.keywords}.get('axis') or {k.arg: ast.unparse(k.value) for k in mc.keywords}.get('dim')
        if src_lvl not in ('mipmap[-1]', 'mipmap[-2]') or axis not in ('-1', '-2'):
            raise TranslateError('blur: unexpected mean in ' + ast.unparse(a)[:60])
        keep = ast.unparse(a.value.slice).replace(' ', '')
        if keep not in ('...,None', '...,None,:', '(...,None)', '(...,None,:)') or (axis == '-1') != (keep in ('...,None', '(...,None)')):
            raise TranslateError('blur: the averaged axis is not kept as a size-1 axis in ' + ast.unparse(a)[:60])
        lvl = 'lastD m' if src_lvl == 'mipmap[-1]' else 'beforeLastD m'
        new = '((%s).1, 1)' % lvl if axis == '-1' else '(1, (%s).2)' % lvl
        tails.append((size_cond(s.test, '(lastD m)'), new))
    out += ['/-- size `(h, w)` of the last / second-to-last entry of a size list -/',
            'def lastD (m : List (Nat × Nat)) : Nat × Nat := m.getLastD (0, 0)',
            'def beforeLastD (m : List (Nat × Nat)) : Nat × Nat := m.dropLast.getLastD (0, 0)',
            '/-- the guard of `while …: mipmap.append(interpolate(mipmap[-1], scale_factor = 0.5, mode = "area"))` on the size `s` of the last level -/',
            'def mipContinueG (s : Nat × Nat) : Bool := %s' % wcond,
            '/-- size of the appended level: `floor(0.5 · size)` on both axes -/',
            'def mipHalveG (s : Nat × Nat) : Nat × Nat := (s.1 / 2, s.2 / 2)',
            '/-- the while loop with at most `fuel` iterations, on the list of level sizes -/',
            'def mipWhileG : Nat → List (Nat × Nat) → List (Nat × Nat)',
            '  | 0, m => m',
            '  | fuel + 1, m => if mipContinueG (lastD m) then mipWhileG fuel (m ++ [mipHalveG (lastD m)]) else m']
    lines = []
    for k, (c, new) in enumerate(tails):
        lines.append('  let m : List (Nat × Nat) := if %s then m ++ [%s] else m' % (c, new))
    out += ['/-- sizes of all entries of `mipmap` for an `H × W` image: the while loop, then the final averaging steps -/',
            'def mipSizesG (fuel H W : Nat) : List (Nat × Nat) :=',
            '  let m : List (Nat × Nat) := mipWhileG fuel [(H, W)]'] + lines + ['  m']
    return '\n'.join(out)


def generate():
    _trees.clear()
    out = ['/- GENERATED by harness/translate/foveation.py from %s, %s and %s – do not edit. -/' % (F_FOV, F_BLUR, F_PYR),
           'import OdakModel.FovPrelude', 'namespace Odak.Gen', 'variable {α : Type} [Num α]', '']
    errors = []
    registry = {}
    out += ['/-! ### the maps of %s, per pixel `[i, j]` of an `h × w` image -/' % F_FOV, '']
    for j in MAP_JOBS:
        try:
            out += [run_map_job(j, registry), '']
            registry[j['py']] = j
        except CATCH as e:
            errors.append('%s: %s' % (j['py'], e))
    for name, f in (('make_radial_map', lambda: radial_map(registry)), ('RadiallyVaryingBlur.blur', lambda: blur_parts(registry)),
                    ('pad_image_for_pyramid', pyramid_pad)):
        try:
            out += [f(), '']
        except CATCH as e:
            errors.append('%s: %s' % (name, e))
    out += ['end Odak.Gen', '']
    return '\n'.join(out), errors


if __name__ == '__main__':
    t, e = generate()
    print(t)
    print(e)
