"""Regenerates Generated/Effects.lean: an alias/effect IR (OdakModel/Heap.lean) of EVERY function and method under odak/,
a summary table sigma computed here as a least fixpoint (untrusted: Lean re-checks `isPostFixpoint`), and name tables.

Over-approximation rules (trusted base item 5 of DESIGN.md):
  alias   : plain assignment, np.asarray/asanyarray/atleast_*, torch.as_tensor/from_numpy, view/reshape/squeeze/unsqueeze/T/permute/
            transpose/ravel/flatten/detach/real/imag/numpy()/expand/narrow, basic slicing, attribute loads, iteration variables
  join    : .to()/.cpu()/.cuda()/.float()/.double()/.type()/.contiguous()/np.array(copy=False)-like maybe-copies, conditional expressions
  fresh   : everything else (arithmetic, constructors, copies, unknown external calls)
  inplace : augmented assignment on a non-scalar name, subscript stores, attribute stores on non-self objects, list/dict mutators,
            torch methods ending in '_', `out=` keyword, shuffle
  call    : calls of functions of this table (by name; all candidates of an ambiguous name, as branches)
`self` is not a parameter of the analysis (mutating one's own object state is what methods do); `self.attr` is a variable of its own.
"""
import ast
import os
from .pyexpr import TranslateError

REPO = os.environ.get('ODAK_REPO', '/repo')
FILE = 'Effects.lean'

ALIAS_FUNCS = {'np.asarray', 'np.asanyarray', 'np.atleast_1d', 'np.atleast_2d', 'np.atleast_3d', 'torch.as_tensor', 'torch.from_numpy',
               'np.squeeze', 'np.reshape', 'np.transpose', 'np.ravel', 'np.swapaxes', 'np.moveaxis', 'np.expand_dims', 'torch.squeeze',
               'torch.unsqueeze', 'torch.reshape', 'torch.transpose', 'torch.permute', 'torch.flatten', 'torch.swapaxes', 'torch.movedim',
               'torch.real', 'torch.imag', 'np.real', 'np.imag', 'torch.view_as_real', 'torch.view_as_complex', 'torch.narrow',
               'torch.unbind', 'torch.split', 'torch.chunk', 'np.split', 'np.broadcast_to', 'torch.broadcast_to', 'np_cpu.asarray'}
ALIAS_METHODS = {'view', 'reshape', 'squeeze', 'unsqueeze', 'permute', 'transpose', 'ravel', 'flatten', 'detach', 'numpy', 'expand',
                 'expand_as', 'narrow', 'swapaxes', 'view_as', 'unbind', 'split', 'chunk', 't', 'movedim', 'unfold', 'diagonal',
                 'requires_grad_', 'conj'}
ALIAS_ATTRS = {'T', 'real', 'imag', 'data', 'mT', 'H'}
JOIN_METHODS = {'to', 'cpu', 'cuda', 'float', 'double', 'half', 'int', 'long', 'type', 'contiguous', 'astype_nocopy', 'type_as', 'get',
                'values', 'items', 'keys'}
MUTATORS = {'append', 'extend', 'insert', 'pop', 'remove', 'clear', 'sort', 'reverse', 'update', 'setdefault', 'popitem', 'fill',
            'put', 'itemset', 'resize', 'setfield', 'setflags', 'partition', 'byteswap_inplace'}
MUTATING_FUNCS = {'np.copyto': 0, 'np.put': 0, 'np.place': 0, 'np.putmask': 0, 'random.shuffle': 0, 'np.random.shuffle': 0,
                  'np.fill_diagonal': 0, 'torch.nn.init.normal_': 0, 'torch.nn.init.zeros_': 0}
NONALIAS_ATTRS = {'shape', 'device', 'dtype', 'ndim', 'size', 'is_cuda', 'requires_grad', 'itemsize', 'nbytes', 'names', 'layout',
                  'is_complex', '__name__', '__class__', 'start', 'stop', 'step'}
EXTERNAL_METHOD_NAMES = {'to', 'forward', 'item', 'step', 'zero_grad', 'backward', 'parameters', 'eval', 'train', 'write', 'read', 'close',
                         'format', 'join', 'split', 'keys', 'values', 'items', 'get', 'copy', 'clone', 'mean', 'sum', 'max', 'min', 'abs',
                         'size', 'dim', 'numel', 'tolist', 'astype', 'set_description', 'update_bar', 'info', 'warning', 'run', 'start',
                         'load_state_dict', 'state_dict', 'save', 'load', 'render', 'show', 'add', 'set', 'reset', 'blur', 'plot'}
MODULE_NAMES = {'np', 'torch', 'math', 'os', 'F', 'cv2', 'json', 'nn', 'random', 'shutil', 'sys', 'logging', 'time', 'plt', 'odak', 'scipy',
                'np_cpu', 'np_ply', 'subprocess', 'pathlib', 'copy', 'itertools', 'functools', 'tqdm', 'plyfile', 'go', 'pio'}
SHALLOW_COPIES = {'list', 'tuple', 'dict', 'sorted', 'reversed', 'set', 'copy.copy', 'zip', 'enumerate', 'iter'}
SCALAR_PARAMS = {('calc_statsmaps', 'pooling_size'), ('convert_bytes', 'num')}      # reviewed: numbers, validated by the dynamic probe
SCALAR_CALLS = {'len', 'int', 'float', 'round', 'min', 'max', 'abs', 'bool', 'str', 'sum', 'range', 'math.ceil', 'math.floor', 'math.sqrt',
                'np.ceil', 'np.floor', 'np.sqrt', 'np.int64', 'np.float64', 'np.float32', 'ord', 'chr', 'isinstance', 'type', 'np.radians',
                'np.cos', 'np.sin', 'math.cos', 'math.sin', 'np.abs', 'np.amax', 'np.amin', 'np.max', 'np.min', 'np.sum', 'np.mean', 'time.time'}


class Fn:
    def __init__(self, qual, module, cls, node):
        self.qual, self.module, self.cls, self.node = qual, module, cls, node
        args = node.args
        names = [a.arg for a in args.posonlyargs + args.args]
        self.is_method = cls is not None and names[:1] in (['self'], ['cls'])
        self.params = names[1:] if self.is_method else names
        self.params += [a.arg for a in args.kwonlyargs]
        defaults = {}
        pos = args.posonlyargs + args.args
        for a, d in zip(pos[len(pos) - len(args.defaults):], args.defaults):
            defaults[a.arg] = d
        for a, d in zip(args.kwonlyargs, args.kw_defaults):
            if d is not None:
                defaults[a.arg] = d
        self.defaults = defaults
        self.vararg = args.vararg.arg if args.vararg else None
        self.kwarg = args.kwarg.arg if args.kwarg else None


def collect():
    fns, errors = [], []
    for root, _, files in sorted(os.walk(os.path.join(REPO, 'odak'))):
        for fn in sorted(files):
            if not fn.endswith('.py'):
                continue
            path = os.path.join(root, fn)
            rel = os.path.relpath(path, REPO)
            try:
                tree = ast.parse(open(path).read())
            except SyntaxError as e:
                errors.append('%s: %s' % (rel, e))
                continue
            mod = rel[:-3].replace('/', '.')
            for n in tree.body:
                if isinstance(n, (ast.FunctionDef, ast.AsyncFunctionDef)):
                    fns.append(Fn('%s:%s' % (mod, n.name), mod, None, n))
                elif isinstance(n, ast.ClassDef):
                    for m in n.body:
                        if isinstance(m, (ast.FunctionDef, ast.AsyncFunctionDef)):
                            fns.append(Fn('%s:%s.%s' % (mod, n.name, m.name), mod, n.name, m))
    return fns, errors


def is_scalar_expr(e, scalars):
    if isinstance(e, ast.Constant):
        return not isinstance(e.value, (bytes,)) or True
    if isinstance(e, ast.Name):
        return e.id in scalars
    if isinstance(e, ast.UnaryOp):
        return is_scalar_expr(e.operand, scalars)
    if isinstance(e, ast.BinOp):
        return is_scalar_expr(e.left, scalars) and is_scalar_expr(e.right, scalars)
    if isinstance(e, ast.Compare):
        return True
    if isinstance(e, ast.BoolOp):
        return all(is_scalar_expr(v, scalars) for v in e.values)
    if isinstance(e, ast.IfExp):
        return is_scalar_expr(e.body, scalars) and is_scalar_expr(e.orelse, scalars)
    if isinstance(e, ast.Call):
        f = ast.unparse(e.func)
        if f in SCALAR_CALLS:
            return True
        if isinstance(e.func, ast.Attribute) and e.func.attr in ('item', 'size', 'dim', 'numel', 'index', 'count', 'format', 'join',
                                                                 'split_str', 'lower', 'upper', 'strip', 'rstrip', 'tolist_scalar'):
            return e.func.attr != 'size' or len(e.args) == 1
        return False
    if isinstance(e, ast.Subscript):
        b = e.value
        if isinstance(b, ast.Attribute) and b.attr == 'shape':
            return True
        return False
    if isinstance(e, ast.Attribute):
        return e.attr in ('ndim', 'pi', 'e', 'inf', 'nan')
    if isinstance(e, ast.JoinedStr):
        return True
    return False


class Translator:
    def __init__(self, fn, by_name, by_method, classes, ids):
        self.fn, self.by_name, self.by_method, self.classes, self.ids = fn, by_name, by_method, classes, ids
        self.vars = {}
        for p in fn.params:
            self.var(p)
        self.k = len(fn.params)
        self.rv = self.var('%return')
        self.scalars = self.infer_scalars()
        self.tmp = 0

    def var(self, name):
        if name not in self.vars:
            self.vars[name] = len(self.vars)
        return self.vars[name]

    def fresh_tmp(self, out):
        self.tmp += 1
        v = self.var('%%t%d' % self.tmp)
        out.append(('fresh', v))
        return v

    def infer_scalars(self):
        fn = self.fn
        scal = set()
        for p in fn.params:
            d = fn.defaults.get(p)
            if d is not None and isinstance(d, ast.Constant) and isinstance(d.value, (int, float, bool, str)) and d.value is not None:
                scal.add(p)
            if d is not None and isinstance(d, ast.UnaryOp) and isinstance(d.operand, ast.Constant):
                scal.add(p)
            if (fn.node.name, p) in SCALAR_PARAMS:
                scal.add(p)
        changed = True
        assigns = {}
        loopvars = set()
        for n in ast.walk(fn.node):
            if isinstance(n, ast.Assign):
                for t in n.targets:
                    if isinstance(t, ast.Name):
                        assigns.setdefault(t.id, []).append(n.value)
                    elif isinstance(t, (ast.Tuple, ast.List)):
                        for e in t.elts:
                            if isinstance(e, ast.Name):
                                assigns.setdefault(e.id, []).append(None)
            if isinstance(n, ast.AugAssign) and isinstance(n.target, ast.Name):
                assigns.setdefault(n.target.id, []).append(n.value)
            if isinstance(n, ast.For) and isinstance(n.target, ast.Name) and isinstance(n.iter, ast.Call) \
                    and ast.unparse(n.iter.func) in ('range', 'enumerate_range'):
                loopvars.add(n.target.id)
            if isinstance(n, ast.NamedExpr) and isinstance(n.target, ast.Name):
                assigns.setdefault(n.target.id, []).append(None)
        scal |= loopvars
        while changed:
            changed = False
            for name, vals in assigns.items():
                if name in scal or name in self.fn.params and name not in scal and False:
                    continue
                if name in self.fn.params:
                    continue          # a parameter is scalar only through its default (or the reviewed list)
                if name in loopvars and all(v is not None and is_scalar_expr(v, scal) for v in vals):
                    continue
                if vals and all(v is not None and is_scalar_expr(v, scal) for v in vals):
                    scal.add(name)
                    changed = True
        return scal

    # ---- expressions: returns a variable holding (an over-approximation of the aliases of) the value
    def ev(self, e, out):
        if isinstance(e, ast.Name):
            return self.var(e.id)
        if isinstance(e, ast.Attribute):
            src = ast.unparse(e)
            if isinstance(e.value, ast.Name) and e.value.id in ('self', 'cls') and self.fn.is_method:
                return self.var(src)                      # self.attr is its own variable
            if e.attr in NONALIAS_ATTRS:
                self.side(e.value, out)
                return self.fresh_tmp(out)
            base = self.ev(e.value, out)
            t = self.var('%%t_attr_%d' % len(self.vars))
            out.append(('alias', t, base) if e.attr in ALIAS_ATTRS else ('load', t, base))
            return t
        if isinstance(e, ast.Subscript):
            base = self.ev(e.value, out)
            self.side(e.slice, out)
            t = self.var('%%t_sub_%d' % len(self.vars))
            out.append(('load', t, base))
            return t
        if isinstance(e, ast.Starred):
            return self.ev(e.value, out)
        if isinstance(e, ast.IfExp):
            self.side(e.test, out)
            a, b = self.ev(e.body, out), self.ev(e.orelse, out)
            t = self.fresh_tmp(out)
            out.append(('join', t, a)); out.append(('join', t, b))
            return t
        if isinstance(e, ast.BoolOp):
            vs = [self.ev(v, out) for v in e.values]
            t = self.fresh_tmp(out)
            for v in vs:
                out.append(('join', t, v))
            return t
        if isinstance(e, (ast.Tuple, ast.List, ast.Set)):
            vs = [self.ev(v, out) for v in e.elts]
            t = self.fresh_tmp(out)
            for v in vs:
                out.append(('store', t, v))         # a new container holding the elements
            return t
        if isinstance(e, ast.Dict):
            vs = [self.ev(v, out) for v in e.values if v is not None]
            t = self.fresh_tmp(out)
            for v in vs:
                out.append(('store', t, v))
            return t
        if isinstance(e, ast.NamedExpr):
            v = self.ev(e.value, out)
            if isinstance(e.target, ast.Name):
                out.append(('alias', self.var(e.target.id), v))
            return v
        if isinstance(e, ast.Call):
            return self.call(e, out)
        if isinstance(e, (ast.ListComp, ast.SetComp, ast.GeneratorExp, ast.DictComp)):
            body = []
            for g in e.generators:
                it = self.ev(g.iter, body)
                self.bind_target(g.target, it, body, load=True)
                for c in g.ifs:
                    self.side(c, body)
            t = self.fresh_tmp(out)
            elt_vals = [e.elt] if not isinstance(e, ast.DictComp) else [e.key, e.value]
            for x in elt_vals:
                v = self.ev(x, body)
                body.append(('store', t, v))
            out.append(('loop', body))
            return t
        # arithmetic, comparisons, constants, f-strings, lambdas …: evaluate operands for their effects, result is fresh
        self.side(e, out, skip_self=True)
        return self.fresh_tmp(out)

    def side(self, e, out, skip_self=False):
        """evaluate sub-expressions only for the calls they contain"""
        if e is None:
            return
        for child in (ast.iter_child_nodes(e) if skip_self else [e]):
            if isinstance(child, ast.Call):
                self.call(child, out)
            elif isinstance(child, (ast.ListComp, ast.SetComp, ast.GeneratorExp, ast.DictComp, ast.IfExp, ast.NamedExpr)):
                self.ev(child, out)
            elif isinstance(child, (ast.Lambda, ast.FunctionDef)):
                continue
            elif isinstance(child, ast.AST):
                self.side(child, out, skip_self=True)

    def candidates(self, e):
        """table functions a call may reach: [(fn, receiver expr or None)]"""
        f = e.func
        if isinstance(f, ast.Name):
            if f.id in self.classes:
                init = self.classes[f.id].get('__init__')
                return [(c, None) for c in init] if init else []
            return [(c, None) for c in self.by_name.get(f.id, [])]
        if isinstance(f, ast.Attribute):
            if isinstance(f.value, ast.Name) and f.value.id in ('self', 'cls') and self.fn.is_method:
                own = self.classes.get(self.fn.cls, {}).get(f.attr)
                if own:
                    return [(c, f.value) for c in own]
            if f.attr in self.classes and not isinstance(f.value, ast.Call):
                init = self.classes[f.attr].get('__init__')
                return [(c, None) for c in init] if init else []
            # module-qualified function call:  odak.tools.foo(...), tools.foo(...)
            chain = ast.unparse(f.value)
            if all(part.isidentifier() for part in chain.split('.')) and chain.split('.')[0] not in self.vars \
                    and chain.split('.')[0] not in ('self',):
                if f.attr in self.by_name and chain.split('.')[0] not in ('np', 'torch', 'math', 'os', 'F', 'cv2', 'json', 'nn'):
                    return [(c, None) for c in self.by_name[f.attr]]
                return []
            # method call on some object: every method of that name in the table, unless the name is a common external one
            cands = self.by_method.get(f.attr, [])
            if f.attr in EXTERNAL_METHOD_NAMES or len(cands) > 3:
                return []
            return [(c, f.value) for c in cands]
        return []

    def call(self, e, out):
        fsrc = ast.unparse(e.func)
        # in-place method calls and mutating library functions
        if isinstance(e.func, ast.Attribute):
            m = e.func.attr
            is_module = isinstance(e.func.value, ast.Name) and e.func.value.id in MODULE_NAMES
            if not is_module and (m in MUTATORS or (m.endswith('_') and not m.startswith('_') and len(m) > 1 and m not in ('requires_grad_',))):
                recv = self.ev(e.func.value, out)
                stored = False
                for a in e.args:
                    v = self.ev(a, out)
                    if m in ('append', 'extend', 'insert', 'update', 'setdefault', 'add'):
                        out.append(('store', recv, v))
                        stored = True
                for kw in e.keywords:
                    self.ev(kw.value, out)
                if not stored:
                    out.append(('inplace', recv))
                t = self.var('%%t_ret_%d' % len(self.vars))
                out.append(('alias', t, recv))
                return t
        if fsrc in MUTATING_FUNCS:
            vs = [self.ev(a, out) for a in e.args]
            for kw in e.keywords:
                self.ev(kw.value, out)
            if vs:
                out.append(('inplace', vs[MUTATING_FUNCS[fsrc]]))
            return self.fresh_tmp(out)
        for kw in e.keywords:
            if kw.arg == 'out':
                v = self.ev(kw.value, out)
                out.append(('inplace', v))
        # aliasing library calls
        if fsrc in ALIAS_FUNCS and e.args:
            v = self.ev(e.args[0], out)
            for a in e.args[1:]:
                self.side(a, out)
            t = self.var('%%t_alias_%d' % len(self.vars))
            out.append(('alias', t, v))
            return t
        if isinstance(e.func, ast.Attribute) and e.func.attr in ALIAS_METHODS and not self.candidates(e):
            v = self.ev(e.func.value, out)
            for a in e.args:
                self.side(a, out)
            t = self.var('%%t_alias_%d' % len(self.vars))
            out.append(('alias', t, v))
            return t
        if isinstance(e.func, ast.Attribute) and e.func.attr in JOIN_METHODS and not self.candidates(e):
            v = self.ev(e.func.value, out)
            for a in e.args:
                self.side(a, out)
            t = self.fresh_tmp(out)
            out.append(('join', t, v))
            return t
        if fsrc in SHALLOW_COPIES:
            vs = [self.ev(a, out) for a in e.args]
            t = self.fresh_tmp(out)
            for v in vs:
                out.append(('shallow', t, v))
            return t
        cands = self.candidates(e)
        argvars = [self.ev(a, out) for a in e.args]
        kwvars = {kw.arg: self.ev(kw.value, out) for kw in e.keywords}
        if not cands:
            if isinstance(e.func, ast.Attribute):
                self.side(e.func.value, out)
            return self.fresh_tmp(out)
        ret = self.var('%%t_call_%d' % len(self.vars))
        out.append(('fresh', ret))
        alts = []
        for c, recv in cands:
            pos = []
            names = c.params
            for i, p in enumerate(names):
                if i < len(argvars) and not any(isinstance(a, ast.Starred) for a in e.args):
                    pos.append(argvars[i])
                elif p in kwvars:
                    pos.append(kwvars[p])
                else:
                    pos.append(None)
            extra = [v for v in argvars[len(names):]] + [v for k, v in kwvars.items() if k is None or k not in names]
            body = []
            # unmatched arguments (starred, **kwargs): conservatively fold them into every parameter slot that is still empty
            fill = extra[0] if extra else None
            args = []
            for v in pos:
                if v is None:
                    d = self.var('%%t_dflt_%d' % len(self.vars))
                    body.append(('fresh', d))
                    if fill is not None:
                        body.append(('join', d, fill))
                    args.append(d)
                else:
                    args.append(v)
            r = self.var('%%t_r_%d' % len(self.vars))
            body.append(('call', self.ids[c.qual], args, r))
            body.append(('join', ret, r))
            alts.append(body)
        seq = alts[0]
        for b in alts[1:]:
            seq = [('branch', seq, b)]
        out.extend(seq)
        return ret

    def bind_target(self, t, v, out, load=False):
        if isinstance(t, ast.Name):
            out.append(('load' if load else 'alias', self.var(t.id), v))
        elif isinstance(t, (ast.Tuple, ast.List)):
            for e in t.elts:
                self.bind_target(e, v, out, load=True)       # unpacking reads the elements of v
        elif isinstance(t, ast.Starred):
            self.bind_target(t.value, v, out, load=True)
        elif isinstance(t, ast.Attribute):
            if isinstance(t.value, ast.Name) and t.value.id in ('self', 'cls') and self.fn.is_method:
                out.append(('alias', self.var(ast.unparse(t)), v))      # rebinding one's own attribute
            else:
                b = self.ev(t.value, out)
                out.append(('store', b, v))
        elif isinstance(t, ast.Subscript):
            b = self.ev(t.value, out)
            self.side(t.slice, out)
            out.append(('store', b, v))

    # ---- statements
    def stmts(self, body):
        out = []
        for st in body:
            self.stmt(st, out)
        return out

    def stmt(self, st, out):
        if isinstance(st, ast.Assign):
            v = self.ev(st.value, out)
            for t in st.targets:
                if isinstance(t, ast.Subscript) or (isinstance(t, ast.Attribute) and not (
                        isinstance(t.value, ast.Name) and t.value.id in ('self', 'cls') and self.fn.is_method)):
                    b = self.ev(t.value, out)
                    if isinstance(t, ast.Subscript):
                        self.side(t.slice, out)
                    out.append(('store', b, v))
                else:
                    self.bind_target(t, v, out)
        elif isinstance(st, ast.AnnAssign):
            if st.value is not None:
                v = self.ev(st.value, out)
                self.bind_target(st.target, v, out)
        elif isinstance(st, ast.AugAssign):
            self.side(st.value, out)
            t = st.target
            if isinstance(t, ast.Name):
                if t.id not in self.scalars:
                    out.append(('inplace', self.var(t.id)))
            elif isinstance(t, ast.Attribute) and isinstance(t.value, ast.Name) and t.value.id in ('self', 'cls') and self.fn.is_method:
                src = ast.unparse(t)
                vals = [n.value for n in ast.walk(self.fn.node) if isinstance(n, ast.Assign)
                        and any(ast.unparse(x) == src for x in n.targets)]
                if not (vals and all(is_scalar_expr(v, self.scalars) for v in vals)):
                    out.append(('inplace', self.var(src)))
            else:
                b = self.ev(t.value, out)
                out.append(('inplace', b))
        elif isinstance(st, ast.Expr):
            self.ev(st.value, out) if isinstance(st.value, (ast.Call, ast.NamedExpr, ast.IfExp)) else self.side(st.value, out)
        elif isinstance(st, ast.Return):
            if st.value is not None:
                v = self.ev(st.value, out)
                out.append(('retjoin', self.rv, v))
        elif isinstance(st, ast.If):
            self.side(st.test, out)
            out.append(('branch', self.stmts(st.body), self.stmts(st.orelse)))
        elif isinstance(st, (ast.For, ast.AsyncFor)):
            it = self.ev(st.iter, out)
            body = []
            self.bind_target(st.target, it, body, load=True)
            body += self.stmts(st.body)
            out.append(('loop', body))
            out.extend(self.stmts(st.orelse))
        elif isinstance(st, ast.While):
            body = []
            self.side(st.test, body)
            body += self.stmts(st.body)
            out.append(('loop', body))
            out.extend(self.stmts(st.orelse))
        elif isinstance(st, (ast.With, ast.AsyncWith)):
            for item in st.items:
                v = self.ev(item.context_expr, out)
                if item.optional_vars is not None:
                    self.bind_target(item.optional_vars, v, out)
            out.extend(self.stmts(st.body))
        elif isinstance(st, ast.Try):
            body = self.stmts(st.body)
            hs = []
            for h in st.handlers:
                hs.append(self.stmts(h.body))
            seq = body
            for h in hs:
                seq = [('branch', seq, seq + h)]
            out.extend(seq)
            out.extend(self.stmts(st.orelse))
            out.extend(self.stmts(st.finalbody))
        elif isinstance(st, ast.Delete):
            for t in st.targets:
                if isinstance(t, ast.Subscript):
                    out.append(('inplace', self.ev(t.value, out)))
        elif isinstance(st, ast.Assert):
            self.side(st.test, out)
        elif isinstance(st, (ast.Raise,)):
            if st.exc is not None:
                self.side(st.exc, out)
        # FunctionDef / ClassDef / Import / Pass / Break / Continue / Global / Nonlocal: no heap effect of their own

    def translate(self):
        body = self.fn.node.body
        return self.stmts(body)


# ---- the same abstract interpretation as OdakModel/Heap.lean, to COMPUTE sigma (Lean re-checks the result)
def analyse(prog, k, sigma, rho=None, rv=None):
    rho = rho if rho is not None else {}
    rel = {p: {p} for p in range(k)}
    muts = set()

    def run(prog, rel, muts):
        for ins in prog:
            op = ins[0]
            if op == 'fresh':
                rel = dict(rel); rel[ins[1]] = set()
            elif op == 'alias':
                rel = dict(rel); rel[ins[1]] = set(rel.get(ins[2], set()))
            elif op == 'join':
                rel = dict(rel); rel[ins[1]] = set(rel.get(ins[1], set())) | rel.get(ins[2], set())
            elif op == 'inplace':
                muts = muts | rel.get(ins[1], set())
            elif op == 'call':
                _, f, args, ret = ins
                for i in sigma.get(f, ()):
                    if i < len(args):
                        muts = muts | rel.get(args[i], set())
                r = set()
                for i in rho.get(f, ()):
                    if i < len(args):
                        r |= rel.get(args[i], set())
                rel = dict(rel); rel[ret] = r
            elif op == 'branch':
                r1, m1 = run(ins[1], rel, muts)
                r2, m2 = run(ins[2], rel, muts)
                keys = set(r1) | set(r2)
                rel = {x: r1.get(x, set()) | r2.get(x, set()) for x in keys}
                muts = m1 | m2
            elif op == 'loop':
                cur_r, cur_m = rel, muts
                for _ in range(200):
                    r1, m1 = run(ins[1], cur_r, cur_m)
                    keys = set(cur_r) | set(r1)
                    nr = {x: cur_r.get(x, set()) | r1.get(x, set()) for x in keys}
                    nm = cur_m | m1
                    if nr == cur_r and nm == cur_m:
                        break
                    cur_r, cur_m = nr, nm
                rel, muts = cur_r, cur_m
        return rel, muts
    rel, muts = run(prog, rel, muts)
    if rv is None:
        return sorted(muts)
    return sorted(muts), sorted(rel.get(rv, set()))


def size(prog):
    n = 0
    for ins in prog:
        n += 1
        if ins[0] == 'branch':
            n += size(ins[1]) + size(ins[2])
        elif ins[0] == 'loop':
            n += size(ins[1])
    return n


def lean_prog(prog):
    parts = []
    for ins in prog:
        op = ins[0]
        if op in ('fresh', 'inplace'):
            parts.append('.%s %d' % (op, ins[1]))
        elif op in ('alias', 'join'):
            parts.append('.%s %d %d' % (op, ins[1], ins[2]))
        elif op == 'call':
            parts.append('.call %d [%s] %d' % (ins[1], ', '.join(str(a) for a in ins[2]), ins[3]))
        elif op == 'branch':
            parts.append('.branch %s %s' % (lean_prog(ins[1]), lean_prog(ins[2])))
        elif op == 'loop':
            parts.append('.loop %s' % lean_prog(ins[1]))
    return '[' + ', '.join(parts) + ']'


def expand(prog, N, k):
    """two-layer expansion: variable v (the object itself) and N + v (what is reachable inside it: list elements, fields)"""
    cnt = [2 * N]

    def tmp():
        cnt[0] += 1
        return cnt[0]

    def ex(prog):
        out = []
        for ins in prog:
            op = ins[0]
            if op == 'fresh':
                out += [('fresh', ins[1]), ('fresh', N + ins[1])]
            elif op == 'alias':
                out += [('alias', ins[1], ins[2]), ('alias', N + ins[1], N + ins[2])]
            elif op == 'join':
                out += [('join', ins[1], ins[2]), ('join', N + ins[1], N + ins[2])]
            elif op == 'inplace':
                out.append(ins)
            elif op == 'load':          # x = c[i] / c.attr / for x in c: a view of c itself or one of its elements
                x, c = ins[1], ins[2]
                if x == c:
                    out += [('join', x, N + c)]
                else:
                    out += [('alias', x, c), ('join', x, N + c), ('alias', N + x, N + c)]
            elif op == 'store':         # c[i] = v / c.attr = v / c.append(v): c itself is modified and now holds v
                c, v = ins[1], ins[2]
                out += [('inplace', c), ('join', N + c, v), ('join', N + c, N + v)]
            elif op == 'shallow':       # t = list(v): new container, same elements
                t, v = ins[1], ins[2]
                out += [('join', N + t, N + v)]
            elif op == 'retjoin':
                out += [('join', ins[1], ins[2]), ('join', ins[1], N + ins[2]), ('join', N + ins[1], N + ins[2])]
            elif op == 'call':
                _, f, args, r = ins
                ts = []
                for a in args:
                    t = tmp()
                    out += [('fresh', t), ('join', t, a), ('join', t, N + a)]
                    ts.append(t)
                out += [('call', f, ts, r), ('alias', N + r, r)]
            elif op == 'branch':
                out.append(('branch', ex(ins[1]), ex(ins[2])))
            elif op == 'loop':
                out.append(('loop', ex(ins[1])))
        return out
    pro = [('alias', N + p, p) for p in range(k)]
    return pro + ex(prog)


def simplify(prog):
    """drop instructions that cannot matter: empty branches/loops"""
    out = []
    for ins in prog:
        if ins[0] == 'branch':
            a, b = simplify(ins[1]), simplify(ins[2])
            if not a and not b:
                continue
            out.append(('branch', a, b))
        elif ins[0] == 'loop':
            a = simplify(ins[1])
            if not a:
                continue
            out.append(('loop', a))
        else:
            out.append(ins)
    return out


_CACHE = {}


def build():
    fns, errors = collect()
    ids = {f.qual: i for i, f in enumerate(fns)}
    by_name, by_method, classes = {}, {}, {}
    for f in fns:
        if f.cls is None:
            by_name.setdefault(f.node.name, []).append(f)
        else:
            classes.setdefault(f.cls, {}).setdefault(f.node.name, []).append(f)
            if f.is_method and not f.node.name.startswith('__'):
                by_method.setdefault(f.node.name, []).append(f)
    table = []
    for f in fns:
        try:
            tr = Translator(f, by_name, by_method, classes, ids)
            raw = simplify(tr.translate())
            prog = expand(raw, len(tr.vars) + 1, len(f.params))
        except (TranslateError, RecursionError, KeyError, IndexError, AttributeError, TypeError) as e:
            errors.append('%s: %r' % (f.qual, e))
            prog = [('inplace', i) for i in range(len(f.params))] + [('join', len(f.params), i) for i in range(len(f.params))]
            table.append((f, len(f.params), len(f.params), prog))     # untranslatable: everything mutated, anything returned
            continue
        table.append((f, len(f.params), tr.rv, prog))
    # least fixpoint of the summaries
    sigma = {i: [] for i in range(len(fns))}
    rho = {i: [] for i in range(len(fns))}
    for _ in range(80):
        changed = False
        for i, (f, k, rv, prog) in enumerate(table):
            m, r = analyse(prog, k, sigma, rho, rv)
            if not set(m) <= set(sigma[i]):
                sigma[i] = sorted(set(sigma[i]) | set(m)); changed = True
            if not set(r) <= set(rho[i]):
                rho[i] = sorted(set(rho[i]) | set(r)); changed = True
        if not changed:
            break
    return fns, table, sigma, rho, errors


def generate():
    """returns ({file name: text}, errors): a summary file, one file per chunk (each with its own `decide` theorem, so that lake
    builds them in parallel and rebuilds only what changed) and the aggregate Effects.lean"""
    fns, table, sigma, rho, errors = build()
    _CACHE['last'] = (fns, table, sigma, rho)
    files = {}
    hdr = '/- GENERATED by harness/translate/effects.py from every function under odak/ – do not edit. -/'
    out = [hdr, 'import OdakModel.Heap', 'namespace Odak.Gen', 'open Odak.Heap', '',
           '/-- qualified names, index = function id -/', 'def fnNames : List String := [']
    out.append(',\n'.join('  "%s"' % f.qual for f in fns))
    out += [']', '', '/-- summaries: argument positions each function may modify (least fixpoint computed by the translator; Lean re-checks it) -/']
    out.append('def effectsSigmaList : List (FnId × List Nat) := [%s]' % ', '.join('(%d, [%s])' % (i, ', '.join(map(str, sigma[i])))
                                                                                 for i in range(len(fns)) if sigma[i]))
    out.append('def effectsSigma : FnId → List Nat := sigmaOf effectsSigmaList')
    out.append('/-- return-alias summaries: argument positions the result may be -/')
    out.append('def effectsRhoList : List (FnId × List Nat) := [%s]' % ', '.join('(%d, [%s])' % (i, ', '.join(map(str, rho[i])))
                                                                               for i in range(len(fns)) if rho[i]))
    out.append('def effectsRho : FnId → List Nat := sigmaOf effectsRhoList')
    out.append('/-- the functions with a non-empty summary, by name, with the names of the parameters they may modify -/')
    out.append('def effectsMutators : List (String × List String) := [%s]' % ', '.join(
        '("%s", [%s])' % (f.qual, ', '.join('"%s"' % f.params[j] for j in sigma[i] if j < len(f.params)))
        for i, f in enumerate(fns) if sigma[i]))
    out += ['', 'end Odak.Gen', '']
    files['EffectsSigma.lean'] = '\n'.join(out)
    CH = 32
    chunks = [table[i:i + CH] for i in range(0, len(table), CH)]
    for ci, ch in enumerate(chunks):
        o = [hdr, 'import OdakModel.Generated.EffectsSigma', 'set_option maxRecDepth 1000000', 'namespace Odak.Gen', 'open Odak.Heap', '',
             'def effectsChunk%d : List (FnId × Nat × Var × Prog) := [' % ci]
        o.append(',\n'.join('  (%d, %d, %d, %s)' % (ci * CH + j, k, rv, lean_prog(prog)) for j, (f, k, rv, prog) in enumerate(ch)))
        o += [']', '', '/-- the summaries are a post-fixpoint on this chunk: checked by kernel evaluation of the analysis -/',
              'theorem effectsChunk%d_ok : isPostFixpoint effectsSigma effectsRho effectsChunk%d = true := by decide +kernel' % (ci, ci),
              '', 'end Odak.Gen', '']
        files['EffectsChunk%02d.lean' % ci] = '\n'.join(o)
    o = [hdr] + ['import OdakModel.Generated.EffectsChunk%02d' % ci for ci in range(len(chunks))]
    o += ['namespace Odak.Gen', 'open Odak.Heap', '',
          'def effectsTable : List (FnId × Nat × Var × Prog) := %s[]' % ''.join('effectsChunk%d ++ ' % ci for ci in range(len(chunks))),
          'def effectsFunctionCount : Nat := %d' % len(fns), '',
          'theorem isPostFixpoint_append\' (σ ρ : FnId → List Nat) (a b : List (FnId × Nat × Var × Prog)) :',
          '    isPostFixpoint σ ρ (a ++ b) = (isPostFixpoint σ ρ a && isPostFixpoint σ ρ b) := by',
          '  simp [isPostFixpoint, List.all_append]', '',
          '/-- the regenerated summaries are a post-fixpoint of the whole table -/',
          'theorem effectsTable_ok : isPostFixpoint effectsSigma effectsRho effectsTable = true := by',
          '  simp only [effectsTable, isPostFixpoint_append\', %s Bool.and_true, Bool.true_and]' % ''.join('effectsChunk%d_ok, ' % ci for ci in range(len(chunks))),
          '  rfl', '', 'end Odak.Gen', '']
    files['Effects.lean'] = '\n'.join(o)
    return files, errors


if __name__ == '__main__':
    fns, table, sigma, rho, errors = build()
    print('functions', len(fns), 'errors', errors[:5])
    print('total IR size', sum(size(p) for _, _, _, p in table))
    for i, (f, k, rv, prog) in enumerate(table):
        if sigma[i]:
            print(f.qual, [f.params[j] for j in sigma[i]])
