"""Regenerates Generated/GeometryGen.lean: the ray-geometry routines of odak (torch: odak/learn/raytracing, NumPy: odak/raytracing,
odak/tools/vector.py) translated statement by statement, for ONE ray and ONE triangle / normal, by the symbolic interpreter of
geomcore.py.  No execution of odak.  Every assigned Python variable the result depends on becomes a `let`.

Lean names end in `T` (torch) or `N` (NumPy).  The tie theorems (generated definition = hand-written model definition at α = ℝ)
are in lean/OdakProofs/Lemmas/GenGeometry.lean; the executable tie is harness/props/gengeom.py."""
import ast
import os
from .pyexpr import TranslateError, find_function
from .constants import sci, default_of
from .geomcore import Interp, Vec, Returned, UnknownName, prune, ray_term, safe, par

REPO = os.environ.get('ODAK_REPO', '/repo')
FILE = 'GeometryGen.lean'
LB, LP, LR, LV = ('odak/learn/raytracing/boundary.py', 'odak/learn/raytracing/primitives.py', 'odak/learn/raytracing/ray.py',
                  'odak/learn/tools/vector.py')
NB, NP, NR, NV = ('odak/raytracing/boundary.py', 'odak/raytracing/primitives.py', 'odak/raytracing/ray.py', 'odak/tools/vector.py')

TYPES = {'s': 'α', 'v': 'Vec3 α', 'ray': 'Ray α', 'b': 'Bool', 'hit': 'Hit α'}
_trees = {}


def tree(rel):
    if rel not in _trees:
        with open(os.path.join(REPO, rel)) as f:
            _trees[rel] = ast.parse(f.read())
    return _trees[rel]


def typ(kind):
    if isinstance(kind, tuple):
        return '(' + ' × '.join(typ(k) for k in kind[1]) + ')'
    return TYPES[kind]


def param(pyname, kind):
    """-> (lean binder text, symbolic value)"""
    n = safe(pyname)
    if kind == 's':
        return '(%s : α)' % n, ('s', n)
    if kind == 'v':
        return '(%s : Vec3 α)' % n, ('v', Vec(term=n))
    if kind == 'ray':
        return '(%s : Ray α)' % n, ('ray', Vec(term=n + '.o'), Vec(term=n + '.d'))
    if kind == 'tri':
        return '(%s0 %s1 %s2 : Vec3 α)' % (n, n, n), ('tri', [Vec(term='%s%d' % (n, i)) for i in range(3)])
    if kind == 'sphere':
        return '(%s0 %s1 %s2 %s3 : α)' % (n, n, n, n), ('list', [('s', '%s%d' % (n, i)) for i in range(4)])
    if kind == 'pair':
        return '(%s0 %s1 : α)' % (n, n), ('list', [('s', '%s%d' % (n, i)) for i in range(2)])
    if kind == 'circle':
        return ('(%s0_0 %s0_1 %s0_2 %s1 : Vec3 α) (%s2 : α)' % (n, n, n, n, n),
                ('list', [('tri', [Vec(term='%s0_%d' % (n, i)) for i in range(3)]), ('v', Vec(term=n + '1')), ('s', n + '2')]))
    if kind == 'fn':
        return '(%s : Vec3 α → α)' % n, ('fn', n)
    if kind == 'surf':
        return '', ('surf',)
    raise TranslateError('unknown parameter kind ' + kind)


def assemble(kind, v, what):
    """symbolic value -> Lean term of the declared result kind"""
    if isinstance(kind, tuple):
        if v[0] != 'list' or len(v[1]) != len(kind[1]):
            raise TranslateError('%s: expected a tuple of %d results' % (what, len(kind[1])))
        return '(' + ', '.join(assemble(k, x, what) for k, x in zip(kind[1], v[1])) + ')'
    if kind == 'hit':
        if v[0] != 'list' or len(v[1]) != 2 or v[1][0][0] != 'ray' or v[1][1][0] != 's':
            raise TranslateError('%s: expected (normal, distance)' % what)
        r = v[1][0]
        return '(⟨%s, %s, %s⟩ : Hit α)' % (r[1].t(), r[2].t(), v[1][1][1])
    if kind != v[0]:
        raise TranslateError('%s: expected a result of kind %s, got %s' % (what, kind, v[0]))
    if kind in ('s', 'b'):
        return v[1]
    if kind == 'v':
        return v[1].t()
    if kind == 'ray':
        return ray_term(v)
    raise TranslateError('unknown result kind %s' % kind)


def split_at_while(fn):
    for i, st in enumerate(fn.body):
        if isinstance(st, ast.While):
            return fn.body[:i], st, fn.body[i + 1:]
    raise TranslateError('%s: no while loop' % fn.name)


def upto(stmts, name, nth):
    """statements up to and including the nth (1-based) top-level assignment to `name`"""
    k = 0
    for i, st in enumerate(stmts):
        if isinstance(st, ast.Assign) and len(st.targets) == 1 and isinstance(st.targets[0], ast.Name) and st.targets[0].id == name:
            k += 1
            if k == nth:
                return stmts[:i + 1], st
    raise TranslateError('assignment number %d to %s not found' % (nth, name))


class Job:
    def __init__(self, lean, rel, py, params, ret, part='all', result=None, frozen=(), doc=None, register=None):
        self.lean, self.rel, self.py, self.params, self.ret = lean, rel, py, params, ret
        self.part, self.result, self.frozen, self.doc, self.register = part, result, frozen, doc, register


def run_job(job, registry):
    fn = find_function(tree(job.rel), job.py)
    binders, env = [], {}
    for pyname, kind in job.params:
        b, v = param(pyname, kind)
        if b:
            binders.append(b)
        env[pyname] = v
    if job.part == 'all':      # parameters left at a None default
        args, defaults = fn.args.args, fn.args.defaults
        off = len(args) - len(defaults)
        for i, a in enumerate(args):
            if a.arg not in env and i >= off and isinstance(defaults[i - off], ast.Constant) and defaults[i - off].value is None:
                env[a.arg] = ('none',)
        missing = [a.arg for a in args if a.arg not in env]
        if missing:
            raise TranslateError('%s: parameters %s are not described' % (job.py, missing))
        if [a.arg for a in args if env[a.arg] != ('none',)] != [p for p, _ in job.params]:
            raise TranslateError('%s: parameter list changed to %s' % (job.py, [a.arg for a in args]))
    it = Interp(env, registry, frozen=job.frozen)
    if job.part == 'all':
        stmts = fn.body
    else:
        pre, loop, post = split_at_while(fn)
        stmts = {'pre': pre, 'loop': loop.body, 'post': post, 'test': pre}[job.part]
    val = None
    res = job.result
    if res is not None and res[0] == 'first':          # value of a name after its nth assignment
        stmts, _ = upto(stmts, res[1], res[2])
    if res is not None and res[0] == 'where_cond':     # the condition of `name = where(cond, nan, name)` (nth assignment)
        stmts, st = upto(stmts, res[1], res[2])
        stmts = stmts[:-1]
    if job.part == 'test':
        it.exec_block([s for s in stmts if not isinstance(s, ast.If)])
        val = it.ev(loop.test)
    else:
        try:
            it.exec_block(stmts)
        except Returned as r:
            if res is None:
                val = r.value
            elif job.part != 'all':
                raise TranslateError('%s: unexpected return' % job.py)
        if res is None and val is None:
            raise TranslateError('%s: no return statement' % job.py)
        if res is not None and res[0] == 'where_cond':
            c = st.value
            if not (isinstance(c, ast.Call) and ast.unparse(c.func) in ('torch.where', 'np.where') and len(c.args) == 3):
                raise TranslateError('%s: `%s` is not a where' % (job.py, ast.unparse(st)))
            flag, a, b = it.ev(c.args[0]), it.ev(c.args[1]), c.args[2]
            if a != ('s', 'Num.nan') or not (isinstance(b, ast.Name) and b.id == res[1]) or flag[0] != 'b':
                raise TranslateError('%s: `%s` does not flag with NaN' % (job.py, ast.unparse(st)))
            val = flag
        elif res is not None and res[0] in ('first', 'var'):
            val = it.name(res[1])
        elif res is not None and res[0] == 'vars':
            val = ('list', [it.name(n) for n in res[1]])
    term = assemble(job.ret, val, job.lean)
    lets = prune(it.lets, [term])
    lines = ['/-- %s -/' % (job.doc or '`%s` (%s)' % (job.py, job.rel)),
             'def %s %s : %s :=' % (job.lean, ' '.join(binders), typ(job.ret))]
    for n, t, e in lets:
        lines.append('  let %s : %s := %s' % (n, t, e))
    lines.append('  ' + term)
    if job.register:
        registry[job.py] = (job.lean, job.register, job.ret if isinstance(job.ret, str) else None)
    return '\n'.join(lines), it.notes


def parametric_shape():
    """the control structure of NumPy intersect_parametric as text (the loop itself is modelled by hand in OdakModel/Parametric.lean;
    a theorem in Props/C12.lean pins this text, so a re-ordered or edited loop is noticed)"""
    fn = find_function(tree(NB), 'intersect_parametric')
    pre, loop, post = split_at_while(fn)
    rows = ['while ' + ast.unparse(loop.test)]
    for st in loop.body:
        if isinstance(st, ast.If):
            rows.append('if %s: %s' % (ast.unparse(st.test), '; '.join(ast.unparse(s) for s in st.body)) +
                        (' else: ' + '; '.join(ast.unparse(s) for s in st.orelse) if st.orelse else ''))
        else:
            rows.append(ast.unparse(st).replace('\n', ' '))
    rows += ['after: ' + ast.unparse(st).replace('\n', ' ') for st in post]
    return rows


def lean_str(s):
    return '"' + s.replace('\\', '\\\\').replace('"', '\\"') + '"'


def jobs():
    T, N = [], []
    tri, ray, v, s = 'tri', 'ray', 'v', 's'
    T += [
        Job('centerOfTriangleT', LP, 'center_of_triangle', [('triangle', tri)], v, register=['tri']),
        Job('getTriangleNormalT', LB, 'get_triangle_normal', [('triangle', tri)], ray, register=['tri']),
        Job('intersectSurfaceT', LB, 'intersect_w_surface', [('ray', ray), ('points', tri)], 'hit', register=['ray', 'tri']),
        Job('baryUVT', LP, 'is_it_on_triangle', [('point_to_check', v), ('triangle', tri)], ('prod', [s, s]), result=('vars', ['u', 'v']),
            doc='the barycentric pair `(u, v)` of `is_it_on_triangle` (%s)' % LP),
        Job('isOnTriangleT', LP, 'is_it_on_triangle', [('point_to_check', v), ('triangle', tri)], 'b', register=['v', 'tri']),
        Job('twoPointsT', LR, 'create_ray_from_two_points', [('x0y0z0', v), ('x1y1z1', v)], ray, register=['v', 'v']),
        Job('propagateRayT', LR, 'propagate_ray', [('ray', ray), ('distance', s)], ray, register=['ray', 's']),
        Job('reflectT', LB, 'reflect', [('input_ray', ray), ('normal', ray)], ray),
        Job('distanceBetweenTwoPointsT', LV, 'distance_between_two_points', [('point1', v), ('point2', v)], s, register=['v', 'v']),
        Job('intersectCircleT', LB, 'intersect_w_circle', [('ray', ray), ('circle', 'circle')], 'hit'),
        # refract: the straight-line part, the flag, one pass of the loop body, the output
        Job('refrMuT', LB, 'refract', [('n1', s), ('n2', s)], s, part='pre', result=('first', 'mu', 1), doc='`refract`: `mu`'),
        Job('refrA_T', LB, 'refract', [('mu', s), ('vector', ray), ('normvector', ray)], s, part='pre', result=('first', 'a', 1),
            frozen=('mu',), doc='`refract`: `a` (with `div`)'),
        Job('refrB_T', LB, 'refract', [('mu', s), ('normvector', ray)], s, part='pre', result=('first', 'b', 1), frozen=('mu',),
            doc='`refract`: `b` (with `div`)'),
        Job('refrStartT', LB, 'refract', [('a', s), ('b', s)], s, part='pre', result=('first', 'to', 1), frozen=('a', 'b'),
            doc='`refract`: the start value `to`'),
        Job('refrTirT', LB, 'refract', [('a', s), ('b', s)], 'b', part='pre', result=('where_cond', 'to', 2), frozen=('a', 'b'),
            doc='`refract`: the test under which `to` is replaced by NaN before the loop'),
        Job('refrEps0T', LB, 'refract', [('error', s)], s, part='pre', result=('first', 'eps', 1), doc='`refract`: `eps` before the loop'),
        Job('refrStepT', LB, 'refract', [('a', s), ('b', s), ('to', s)], s, part='loop', result=('var', 'to'),
            doc='`refract`: one pass of the loop body, new `to` (`v`, `deltav`)'),
        Job('refrEpsT', LB, 'refract', [('a', s), ('b', s), ('to', s)], s, part='loop', result=('var', 'eps'),
            doc='`refract`: one pass of the loop body, new `eps`'),
        Job('refrOutT', LB, 'refract', [('mu', s), ('to', s), ('vector', ray), ('normvector', ray)], ray, part='post',
            doc='`refract`: the returned ray'),
    ]
    N += [
        Job('centerOfTriangleN', NP, 'center_of_triangle', [('triangle', tri)], v, register=['tri']),
        Job('getTriangleNormalN', NB, 'get_triangle_normal', [('triangle', tri)], ray, register=['tri']),
        Job('intersectSurfaceN', NB, 'intersect_w_surface', [('ray', ray), ('points', tri)], 'hit', register=['ray', 'tri']),
        Job('sameSideN', NV, 'same_side', [('p1', v), ('p2', v), ('a', v), ('b', v)], 'b', register=['v', 'v', 'v', 'v']),
        Job('isOnTriangleN', NP, 'is_it_on_triangle', [('pointtocheck', v), ('point0', v), ('point1', v), ('point2', v)], 'b'),
        Job('twoPointsN', NR, 'create_ray_from_two_points', [('x0y0z0', v), ('x1y1z1', v)], ray, register=['v', 'v']),
        Job('propagateARayN', NR, 'propagate_a_ray', [('ray', ray), ('distance', s)], ray, register=['ray', 's']),
        Job('reflectN', NB, 'reflect', [('input_ray', ray), ('normal', ray)], ray),
        Job('sphereFunctionN', NP, 'sphere_function', [('point', v), ('sphere', 'sphere')], s),
        Job('kernelParametricN', NB, 'intersection_kernel_for_parametric_surfaces',
            [('distance', s), ('ray', ray), ('parametric_surface', 'surf'), ('surface_function', 'fn')], ('prod', [s, v])),
        Job('secantUpdateN', NB, 'propagate_parametric_intersection_error', [('distance', 'pair'), ('error', 'pair')],
            ('prod', [('prod', [s, s]), ('prod', [s, s])])),
        Job('parametricInitN', NB, 'intersect_parametric', [], ('prod', [('prod', [s, s]), ('prod', [s, s])]), part='pre',
            result=('vars', ['distance', 'error']), doc='`intersect_parametric`: `(distance, error)` before the loop'),
        Job('parametricGuardN', NB, 'intersect_parametric', [('error', 'pair'), ('target_error', s)], 'b', part='test', frozen=('error',),
            doc='`intersect_parametric`: the loop guard'),
    ]
    return T, N


def generate():
    out = ['/- GENERATED by harness/translate/geometry.py from odak/learn/raytracing/{boundary,primitives,ray}.py, odak/learn/tools/vector.py,',
           '   odak/raytracing/{boundary,primitives,ray}.py and odak/tools/vector.py – do not edit.',
           '   One ray, one triangle / normal; batch dimensions are broadcasting only.  `…T` = torch, `…N` = NumPy. -/',
           'import OdakModel.GenPrelude', 'namespace Odak.Gen', 'variable {α : Type} [Num α]', '']
    errors, notes = [], []
    _trees.clear()
    for api, js in zip(('torch', 'numpy'), jobs()):
        registry = {}
        out.append('/-! ### %s -/' % api)
        out.append('')
        for job in js:
            try:
                text, nts = run_job(job, registry)
                out += [text, '']
                notes += ['%s: %s' % (job.lean, n) for n in nts]
            except (TranslateError, OSError, SyntaxError, KeyError, IndexError, AttributeError, TypeError, ValueError) as e:
                errors.append('%s (%s in %s): %s' % (job.lean, job.py, job.rel, e))
    try:
        fn = find_function(tree(NB), 'intersect_parametric')
        out += ['/-! ### NumPy `intersect_parametric`: defaults and control structure -/', '',
                'def parametricTargetErrorN : α := %s' % sci(default_of(fn, 'target_error'))]
        lim = default_of(fn, 'iter_no_limit')
        if not isinstance(lim, int) or isinstance(lim, bool) or lim < 0:
            raise TranslateError('iter_no_limit default is not a natural number')
        out += ['def parametricIterLimitN : Nat := %d' % lim, '',
                'def parametricLoopShape : List String := [', ',\n'.join('  ' + lean_str(r) for r in parametric_shape()), ']', '']
    except (TranslateError, OSError, SyntaxError, KeyError, IndexError, AttributeError) as e:
        errors.append('intersect_parametric: %s' % e)
    for n in sorted(set(notes)):
        out.append('-- note: ' + n)
    out += ['', 'end Odak.Gen', '']
    return '\n'.join(out), errors


if __name__ == '__main__':
    t, e = generate()
    print(t)
    print(e)
